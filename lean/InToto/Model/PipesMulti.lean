/-
Generalisation of InToto/Model/Pipes.lean to SEVERAL writers (property C14).

In `Pipes` one child writes to the two pipes and exits.  A real command may leave DESCENDANTS behind
that inherited its stdout/stderr (`(sleep 1; echo late >&2) &`): they keep the write ends of the
pipes open after the command itself has exited, and may still write.  What os/exec does then (with
non-file Stdout/Stderr): `Wait` returns only after the copying goroutines saw EOF, i.e. after EVERY
holder has closed its ends; the captured output contains what the descendants wrote; the exit
status is the command's own.

Here: a list of writers shares the two pipe buffers.  Writer 0 is the command itself, the others
are descendants holding its streams.  Every writer that has not exited may move at any time; when
writer 0 exits its exit status `code` is recorded.  The parent sees EOF on a stream only when the
pipe is empty AND ALL writers have exited.  `stepsFrom` enumerates ALL successors, so "for every
schedule" is a statement about every path of this system.
-/
import InToto.Model.Pipes

namespace InToto.PipesMulti
open InToto.Pipes (Stream Discipline upTo progBytes)

structure Writer where
  prog : List (Stream × Nat)    -- remaining writes of this process: (stream, bytes still to write)
  exited : Bool                 -- this process has exited: ITS copies of the write ends are closed
  deriving Repr, DecidableEq

structure MState where
  writers : List Writer         -- writer 0 is the command itself, the others are descendants holding its streams
  status : Option Nat           -- exit status of the command, recorded when writer 0 exits
  outBuf : Nat
  errBuf : Nat
  outGot : Nat
  errGot : Nat
  outEOF : Bool
  errEOF : Bool
  waited : Bool
  deriving Repr, DecidableEq

/-- all writers alive, nothing written, no status yet (`code` is what writer 0 will exit with; it is
    not part of the initial state) -/
def init (_code : Nat) (progs : List (List (Stream × Nat))) : MState :=
  { writers := progs.map fun p => { prog := p, exited := false }, status := none,
    outBuf := 0, errBuf := 0, outGot := 0, errGot := 0,
    outEOF := false, errEOF := false, waited := false }

def buf (st : MState) : Stream → Nat
  | .out => st.outBuf
  | .err => st.errBuf

/-- bytes the parent has received from a stream -/
def got (st : MState) : Stream → Nat
  | .out => st.outGot
  | .err => st.errGot

def addBuf (st : MState) (s : Stream) (k : Nat) : MState :=
  match s with
  | .out => { st with outBuf := st.outBuf + k }
  | .err => { st with errBuf := st.errBuf + k }

/-- every holder of the write ends has closed them -/
def allExited (st : MState) : Bool := st.writers.all (·.exited)

/-- moves of ONE writer, as (writer afterwards, stream written to, bytes written): write
    1..min(remaining, free) bytes of the current action into the shared pipe of that stream, skip an
    empty action, or exit when the program is finished -/
def writerMoves (cap : Nat) (st : MState) (w : Writer) : List (Writer × Stream × Nat) :=
  if w.exited then []
  else
    match w.prog with
    | [] => [({ w with exited := true }, .out, 0)]
    | (s, n) :: rest =>
      if n = 0 then [({ w with prog := rest }, s, 0)]
      else
        (upTo (min n (cap - buf st s))).map fun k =>
          ({ w with prog := if n - k = 0 then rest else (s, n - k) :: rest }, s, k)

/-- the state after the writer standing between `pre` and `post` made move `m`; when that writer is
    writer 0 (`pre` is empty) and the move is its exit, the command's status is recorded -/
def applyMove (code : Nat) (st : MState) (pre post : List Writer) (m : Writer × Stream × Nat) : MState :=
  addBuf { st with writers := pre ++ m.1 :: post,
                   status := if pre.isEmpty && m.1.exited then some code else st.status } m.2.1 m.2.2

/-- moves of every writer of the list, `pre` being the writers in front of it -/
def writerStepsAux (cap code : Nat) (st : MState) : List Writer → List Writer → List MState
  | _, [] => []
  | pre, w :: post =>
    (writerMoves cap st w).map (applyMove code st pre post) ++ writerStepsAux cap code st (pre ++ [w]) post

/-- moves of all writers -/
def writerSteps (cap code : Nat) (st : MState) : List MState :=
  writerStepsAux cap code st [] st.writers

/-- the parent reads 1..buffered bytes from a stream, or sees EOF on an empty pipe ALL of whose
    writers have exited -/
def readSteps (st : MState) (s : Stream) : List MState :=
  match s with
  | .out =>
    if st.outEOF then []
    else if st.outBuf > 0 then (upTo st.outBuf).map fun k => { st with outBuf := st.outBuf - k, outGot := st.outGot + k }
    else if allExited st then [{ st with outEOF := true }] else []
  | .err =>
    if st.errEOF then []
    else if st.errBuf > 0 then (upTo st.errBuf).map fun k => { st with errBuf := st.errBuf - k, errGot := st.errGot + k }
    else if allExited st then [{ st with errEOF := true }] else []

def parentSteps (d : Discipline) (st : MState) : List MState :=
  if st.waited then []
  else if st.outEOF && st.errEOF then [{ st with waited := true }]
  else
    match d with
    | .conc => readSteps st .out ++ readSteps st .err
    | .seq => if !st.outEOF then readSteps st .out else readSteps st .err

/-- all successors -/
def stepsFrom (d : Discipline) (cap code : Nat) (st : MState) : List MState :=
  writerSteps cap code st ++ parentSteps d st

def Step (d : Discipline) (cap code : Nat) (st st' : MState) : Prop := st' ∈ stepsFrom d cap code st

/-- the call has returned -/
def final (st : MState) : Bool := st.waited

/-- reachability from the initial state of the writer programs `progs` -/
inductive Reachable (d : Discipline) (cap code : Nat) (progs : List (List (Stream × Nat))) : MState → Prop where
  | init : Reachable d cap code progs (init code progs)
  | step (a b : MState) : Reachable d cap code progs a → Step d cap code a b → Reachable d cap code progs b

/-- everything all writers together write to a stream -/
def totalBytes (s : Stream) : List (List (Stream × Nat)) → Nat
  | [] => 0
  | p :: rest => progBytes s p + totalBytes s rest

/-- what the writers of a list have still to write to a stream -/
def remaining (s : Stream) : List Writer → Nat
  | [] => 0
  | w :: rest => progBytes s w.prog + remaining s rest

end InToto.PipesMulti
