/-
Model of Go `path.Clean` (lexical path cleaning, slash-separated), over `List Char`.
-/
import InToto.Model.Basic
namespace InToto.Path

/-- Split on '/'.  `splitSlash "a//b" = ["a", "", "b"]`, `splitSlash "" = [""]`. -/
def splitSlash : List Char → List (List Char)
  | [] => [[]]
  | c :: t =>
    if c = '/' then [] :: splitSlash t
    else
      match splitSlash t with
      | [] => [[c]]          -- unreachable: splitSlash never returns []
      | h :: r => (c :: h) :: r

/-- One step of `path.Clean`'s element loop; the stack is kept reversed (top first). -/
def step (rooted : Bool) (stack : List (List Char)) (comp : List Char) : List (List Char) :=
  if comp = [] ∨ comp = ['.'] then stack
  else if comp = ['.', '.'] then
    match stack with
    | top :: rest => if top = ['.', '.'] then (if rooted then stack else comp :: stack) else rest
    | [] => if rooted then [] else [comp]
  else comp :: stack

def joinSlash : List (List Char) → List Char
  | [] => []
  | [a] => a
  | a :: b :: t => a ++ '/' :: joinSlash (b :: t)

/-- Go `path.Clean`. -/
def cleanL (p : List Char) : List Char :=
  match p with
  | [] => ['.']
  | c :: _ =>
    let rooted := c = '/'
    let stack := (splitSlash p).foldl (step rooted) []
    let body := joinSlash stack.reverse
    if rooted then '/' :: body
    else if body = [] then ['.'] else body

def clean (s : Str) : Str := cleanL s

end InToto.Path
