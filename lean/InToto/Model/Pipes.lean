/-
Model of command capture (`RunCommand`, in_toto/runlib.go) as a transition system (property C14):
a child process writes byte volumes to two pipes of capacity `cap` and then exits; the parent
drains the pipes under one of two disciplines:

* `seq`  — read stdout to EOF, then stderr to EOF, then wait  (the original code)
* `conc` — both pipes are drained concurrently, then wait      (the repaired code: os/exec copies
           both streams into buffers in goroutines of its own)

Steps are nondeterministic (who moves next, how many bytes move); `stepsFrom` enumerates ALL
successors, so "for every schedule" is a statement about every path of this system.
-/
import InToto.Model.Basic

namespace InToto.Pipes

inductive Stream where
  | out | err
  deriving Repr, DecidableEq

inductive Discipline where
  | seq | conc
  deriving Repr, DecidableEq

structure PState where
  prog : List (Stream × Nat)    -- remaining writes of the child: (stream, bytes still to write)
  exited : Bool                 -- the write ends of both pipes are closed: the command has exited AND so has
                                -- every descendant that inherited its streams (`prog` is everything they write;
                                -- the recorded status is the command's own — the tie runs commands whose last
                                -- chunk is written by a background child after the command itself has ended)
  outBuf : Nat
  errBuf : Nat
  outGot : Nat
  errGot : Nat
  outEOF : Bool
  errEOF : Bool
  waited : Bool
  deriving Repr, DecidableEq

def init (prog : List (Stream × Nat)) : PState :=
  { prog := prog, exited := false, outBuf := 0, errBuf := 0, outGot := 0, errGot := 0,
    outEOF := false, errEOF := false, waited := false }

def buf (st : PState) : Stream → Nat
  | .out => st.outBuf
  | .err => st.errBuf

def addBuf (st : PState) (s : Stream) (k : Nat) : PState :=
  match s with
  | .out => { st with outBuf := st.outBuf + k }
  | .err => { st with errBuf := st.errBuf + k }

/-- numbers 1..n -/
def upTo : Nat → List Nat
  | 0 => []
  | n + 1 => upTo n ++ [n + 1]

/-- moves of the child: write 1..min(remaining, free) bytes of the current action, skip an empty
    action, or exit when the program is finished -/
def childSteps (cap : Nat) (st : PState) : List PState :=
  if st.exited then []
  else
    match st.prog with
    | [] => [{ st with exited := true }]
    | (s, n) :: rest =>
      if n = 0 then [{ st with prog := rest }]
      else
        (upTo (min n (cap - buf st s))).map fun k =>
          addBuf { st with prog := if n - k = 0 then rest else (s, n - k) :: rest } s k

/-- the parent reads 1..buffered bytes from a stream, or sees EOF on an empty pipe whose writer exited -/
def readSteps (st : PState) (s : Stream) : List PState :=
  match s with
  | .out =>
    if st.outEOF then []
    else if st.outBuf > 0 then (upTo st.outBuf).map fun k => { st with outBuf := st.outBuf - k, outGot := st.outGot + k }
    else if st.exited then [{ st with outEOF := true }] else []
  | .err =>
    if st.errEOF then []
    else if st.errBuf > 0 then (upTo st.errBuf).map fun k => { st with errBuf := st.errBuf - k, errGot := st.errGot + k }
    else if st.exited then [{ st with errEOF := true }] else []

def parentSteps (d : Discipline) (st : PState) : List PState :=
  if st.waited then []
  else if st.outEOF && st.errEOF then [{ st with waited := true }]
  else
    match d with
    | .conc => readSteps st .out ++ readSteps st .err
    | .seq => if !st.outEOF then readSteps st .out else readSteps st .err

/-- all successors -/
def stepsFrom (d : Discipline) (cap : Nat) (st : PState) : List PState :=
  childSteps cap st ++ parentSteps d st

def Step (d : Discipline) (cap : Nat) (st st' : PState) : Prop := st' ∈ stepsFrom d cap st

/-- the call has returned -/
def final (st : PState) : Bool := st.waited

def progBytes (s : Stream) : List (Stream × Nat) → Nat
  | [] => 0
  | (s', n) :: rest => (if s' = s then n else 0) + progBytes s rest

/-- WHAT a stream carries, not only how much: a pipe is first-in first-out, so the content of a
    stream is the concatenation of the chunks the program wrote to it, in program order.  Chunk
    number `i` of the program (counting from `i0`) consists of `n` copies of the byte tagged
    `i % 26`; the content is given run-length encoded, empty chunks leave no trace. -/
def contentRuns (s : Stream) : Nat → List (Stream × Nat) → List (Nat × Nat)
  | _, [] => []
  | i0, (s', n) :: rest =>
    if s' = s ∧ 0 < n then (i0 % 26, n) :: contentRuns s (i0 + 1) rest else contentRuns s (i0 + 1) rest

/-- Why a command can or cannot be started (`exec.Cmd.Start`): the classes the tie materialises. -/
inductive StartClass where
  | startable            -- an executable file, a usable working directory
  | emptyArgv            -- no command at all
  | notFound             -- bare name that is not on PATH / path that does not exist
  | notExecutable        -- existing file without execute permission
  | isDirectory          -- the "command" is a directory
  | badRunDir            -- the working directory does not exist (or is not a directory)
  deriving Repr, DecidableEq

/-- `RunCommand` reports an ERROR (and no result map) exactly when the command cannot be started;
    a command that was started always yields a result, whatever its exit status -/
def runCommandErrors (c : StartClass) : Bool := c != .startable

/-- `waitErrToExitCode`: nil ↦ 0, exit status n ↦ n, killed by a signal or anything else ↦ -1 -/
inductive WaitResult where
  | success | exit (n : Nat) | signaled | other
  deriving Repr, DecidableEq

def exitCode : WaitResult → Int
  | .success => 0
  | .exit n => n
  | .signaled => -1
  | .other => -1

end InToto.Pipes
