/-
Model of in_toto/rulelib.go (`UnpackRule`), the `Set` algebra of in_toto/util.go and
`verifyMatchRule` / `VerifyArtifacts` of in_toto/verifylib.go.

Go maps are association lists with unique keys; `nil` maps are `none` (reflect.DeepEqual and
map lookups distinguish/produce them).  Artifact names are cleaned (`path.Clean`) on COPIES of the
artifact maps (`cleanArts`, Go `cleanArtifactPaths`); the link context (`Ctx`) is still handed
through the interpreter, and handed back unchanged (`verifyArtifacts_leaves_links_untouched`) —
until the repair of findings F21/F22 the code rewrote the maps of the links in place.
The glob matcher is a parameter (`glob pattern name`), instantiated with `Glob.filterHas`.
-/
import InToto.Model.Basic
import InToto.Model.Path
import InToto.Model.Glob
import InToto.Model.Json

namespace InToto.Rules
open InToto

/-- `map[string]string` hash object; `none` = nil map. Kept sorted by key. -/
abbrev HashObj := Option (List (Str × Str))
/-- `map[string]HashObj`; `none` = nil map. -/
abbrev Arts := Option (List (Str × HashObj))

instance instDecEqHashObj : DecidableEq HashObj :=
  inferInstanceAs (DecidableEq (Option (List (Str × Str))))
instance instDecEqArts : DecidableEq Arts :=
  inferInstanceAs (DecidableEq (Option (List (Str × HashObj))))

structure LinkArts where
  materials : Arts
  products : Arts
  deriving Repr

instance : DecidableEq LinkArts := fun a b =>
  match a, b with
  | ⟨m1, p1⟩, ⟨m2, p2⟩ =>
    if h : m1 = m2 ∧ p1 = p2 then isTrue (by cases h.1; cases h.2; rfl)
    else isFalse (fun e => h (by cases e; exact ⟨rfl, rfl⟩))

/-- `itemsMetadata`: name ↦ payload; `none` = the payload is not a Link. -/
abbrev Ctx := List (Str × Option LinkArts)

inductive RType where
  | create | modify | delete | allow | disallow | require
  deriving Repr, DecidableEq

inductive ArtType where
  | materials | products
  deriving Repr, DecidableEq

inductive Rule where
  | simple (t : RType) (pattern : Str)
  | mtch (pattern srcPrefix dstPrefix : Str) (dstType : ArtType) (dstName : Str)
  deriving Repr, DecidableEq

def simpleType (s : Str) : Option RType :=
  if s = lit% "create" then some .create
  else if s = lit% "modify" then some .modify
  else if s = lit% "delete" then some .delete
  else if s = lit% "allow" then some .allow
  else if s = lit% "disallow" then some .disallow
  else if s = lit% "require" then some .require
  else none

def artType (s : Str) : Option ArtType :=
  if s = lit% "materials" then some .materials
  else if s = lit% "products" then some .products
  else none

/-- Go `UnpackRule`.  `err` = malformed rule (including the empty rule and a MATCH whose
    type word is neither MATERIALS nor PRODUCTS). -/
def unpackRule (rule : List Str) : Outcome Rule :=
  let low := rule.map goLower
  match low with
  | [] => .err "rule-empty"
  | kw :: _ =>
    match simpleType kw with
    | some t =>
      match rule with
      | [_, p] => .ok (.simple t p)
      | _ => .err "rule-format"
    | none =>
      if kw = lit% "match" then
        match rule, low with
        | [_, p, _, sp, _, _, _, dp, _, dn], [_, _, l2, _, l4, l5, l6, _, l8, _] =>
          if l2 = lit% "in" ∧ l4 = lit% "with" ∧ l6 = lit% "in" ∧ l8 = lit% "from" then
            match artType l5 with
            | some t => .ok (.mtch p sp dp t dn)
            | none => .err "rule-dsttype"
          else .err "rule-format"
        | [_, p, _, x3, _, x5, _, dn], [_, _, l2, l3, l4, l5, l6, _] =>
          if l2 = lit% "in" ∧ l4 = lit% "with" ∧ l6 = lit% "from" then
            match artType l5 with
            | some t => .ok (.mtch p x3 [] t dn)
            | none => .err "rule-dsttype"
          else if l2 = lit% "with" ∧ l4 = lit% "in" ∧ l6 = lit% "from" then
            match artType l3 with
            | some t => .ok (.mtch p [] x5 t dn)
            | none => .err "rule-dsttype"
          else .err "rule-format"
        | [_, p, _, _, _, dn], [_, _, l2, l3, l4, _] =>
          if l2 = lit% "with" ∧ l4 = lit% "from" then
            match artType l3 with
            | some t => .ok (.mtch p [] [] t dn)
            | none => .err "rule-dsttype"
          else .err "rule-format"
        | _, _ => .err "rule-format"
      else .err "rule-format"

/-! ### Set algebra (`Set` = duplicate-free list) -/

def dedup : List Str → List Str
  | [] => []
  | a :: t => if a ∈ t then dedup t else a :: dedup t

def sdiff (a b : List Str) : List Str := a.filter fun x => !b.contains x
def sinter (a b : List Str) : List Str := a.filter fun x => b.contains x

/-! ### artifact maps -/

def artsKeys : Arts → List Str
  | none => []
  | some l => l.map Prod.fst

/-- Go map lookup `m[k]` on `map[string]HashObj`: missing key (or nil map) gives the nil HashObj. -/
def artsGet (a : Arts) (k : Str) : HashObj :=
  match a with
  | none => none
  | some l => (lookup k l).getD none

def artsHas (a : Arts) (k : Str) : Bool :=
  match a with
  | none => false
  | some l => (lookup k l).isSome

/-- Go `cleanArtifactPaths`: every entry whose name is not a fixed point of `path.Clean` moves to its
    clean name (replacing what is stored there); the names are handled in SORTED order
    (`sort.Strings`), so among several names that clean to the same name the one that sorts last
    survives, and an entry recorded under a clean name is replaced by any entry that moves onto it.
    (Before the repair of finding F20 the code ranged over the map itself and the survivor depended
    on Go's map order.) -/
def cleanArts : Arts → Arts
  | none => none
  | some l =>
    let cleanKeys := l.filter fun kv => Path.clean kv.1 = kv.1
    let moved := sortBy (fun a b => Json.strLt a.1 b.1) (l.filter fun kv => Path.clean kv.1 ≠ kv.1)
    some (moved.foldl (fun acc kv =>
      (acc.filter fun e => e.1 ≠ Path.clean kv.1) ++ [(Path.clean kv.1, kv.2)]) cleanKeys)

def sel (t : ArtType) (l : LinkArts) : Arts :=
  match t with
  | .materials => l.materials
  | .products => l.products

def setSel (t : ArtType) (l : LinkArts) (a : Arts) : LinkArts :=
  match t with
  | .materials => { l with materials := a }
  | .products => { l with products := a }

def ctxUpdate (ctx : Ctx) (name : Str) (f : LinkArts → LinkArts) : Ctx :=
  ctx.map fun e => if e.1 = name then (e.1, e.2.map f) else e

/-- The artifact map of type `t` of the link stored under `name` (nil map if there is none). -/
def ctxArts (ctx : Ctx) (name : Str) (t : ArtType) : Arts :=
  match lookup name ctx with
  | some (some l) => sel t l
  | _ => none

/-- prefix normalisation: clean, then ensure a trailing slash (empty stays empty) -/
def normPrefix (p : Str) : Str :=
  if p = [] then []
  else
    let c := Path.clean p
    if c.getLast? = some '/' then c else c ++ ['/']

/-- Go `path.Join(a, b)` for two elements. -/
def join2 (a b : Str) : Str :=
  if a = [] ∧ b = [] then []
  else if a = [] then Path.clean b
  else if b = [] then Path.clean a
  else Path.clean (a ++ '/' :: b)

/-- `strings.TrimPrefix` -/
def trimPrefix (s p : Str) : Str :=
  if p.isPrefixOf s then s.drop p.length else s

/-- Go `verifyMatchRule`: consumed source paths.  The artifact names of the source and of the
    destination map are cleaned on COPIES (Go `cleanArtifactPaths` returns a new map); the links
    themselves are never written to, the context is handed back as it came (kept in the result type
    so that the rule loop keeps its shape). -/
def verifyMatchRule (glob : Str → Str → Bool)
    (pattern srcPrefix dstPrefix : Str) (dstType : ArtType) (dstName : Str)
    (srcName : Str) (srcType : ArtType) (queue : List Str) (ctx : Ctx) :
    List Str × Ctx :=
  match lookup dstName ctx with
  | none => ([], ctx)                    -- destination link does not exist
  | some none => ([], ctx)               -- destination payload is not a link
  | some (some _) =>
    let pat := if pattern = [] then [] else Path.clean pattern
    -- cleaned copies of the source map and of the destination map
    let srcArts : Arts := cleanArts (ctxArts ctx srcName srcType)
    let dstArts : Arts := cleanArts (ctxArts ctx dstName dstType)
    let sp := normPrefix srcPrefix
    let dp := normPrefix dstPrefix
    let consumed := queue.filter fun srcPath =>
      -- only artifacts located under the source prefix
      if sp ≠ [] ∧ !sp.isPrefixOf srcPath then false
      else
        let base := trimPrefix srcPath sp
        if !glob pat base then false
        else
          let dstPath := Path.clean (join2 dp base)
          if !artsHas dstArts dstPath then false
          else artsGet srcArts srcPath == artsGet dstArts dstPath
    (consumed, ctx)

structure Item where
  name : Str
  expMaterials : List (List Str)
  expProducts : List (List Str)
  deriving Repr, DecidableEq

/-- What one rule does to the queue: `none` = the rule fails verification (DISALLOW / REQUIRE),
    otherwise the consumed artifacts and the context after the rule (only MATCH touches it). -/
def ruleStep (glob : Str → Str → Bool) (srcName : Str) (srcType : ArtType)
    (created deleted modified : List Str) (r : Rule) (queue : List Str) (ctx : Ctx) :
    Option (List Str × Ctx) :=
  match r with
  | .simple t p =>
    let filtered := queue.filter fun a => glob (Path.clean p) a
    match t with
    | .allow => some (filtered, ctx)
    | .create => some (sinter filtered created, ctx)
    | .delete => some (sinter filtered deleted, ctx)
    | .modify => some (sinter filtered modified, ctx)
    | .disallow => if filtered.isEmpty then some ([], ctx) else none
    | .require => if queue.contains p then some ([], ctx) else none
  | .mtch p sp dp dt dn => some (verifyMatchRule glob p sp dp dt dn srcName srcType queue ctx)

/-- The per-rule loop of `VerifyArtifacts` for one artifact type: remaining queue and context. -/
def applyRules (glob : Str → Str → Bool) (srcName : Str) (srcType : ArtType)
    (created deleted modified : List Str) :
    List (List Str) → List Str → Ctx → Outcome (List Str × Ctx)
  | [], queue, ctx => .ok (queue, ctx)
  | rule :: rules, queue, ctx =>
    match unpackRule rule with
    | .err e => .err e
    | .panic s => .panic s
    | .ok r =>
      match ruleStep glob srcName srcType created deleted modified r queue ctx with
      | none => .err "rule-failed"
      | some (consumed, ctx') =>
        applyRules glob srcName srcType created deleted modified rules (sdiff queue consumed) ctx'

/-- One item of `VerifyArtifacts`. -/
def verifyItem (glob : Str → Str → Bool) (ctx : Ctx) (item : Item) : Outcome Ctx :=
  match lookup item.name ctx with
  | none => .err "no-link-for-item"
  | some none => .err "invalid-metadata"
  | some (some link0) =>
    -- cleaned COPIES of the item's own artifact maps (Go: `materials = cleanArtifactPaths(materials)`,
    -- `products = cleanArtifactPaths(products)`; findings F21, F22): the sets of created / deleted /
    -- modified artifacts are computed from them; the links in `ctx` are not written to
    let cleanLink : LinkArts → LinkArts := fun l =>
      { materials := cleanArts l.materials, products := cleanArts l.products }
    let link := cleanLink link0
    let materialPaths := dedup ((artsKeys link.materials).map Path.clean)
    let productPaths := dedup ((artsKeys link.products).map Path.clean)
    let created := sdiff productPaths materialPaths
    let deleted := sdiff materialPaths productPaths
    let remained := sinter materialPaths productPaths
    let modified := remained.filter fun n => artsGet link.materials n != artsGet link.products n
    match applyRules glob item.name .materials created deleted modified item.expMaterials materialPaths ctx with
    | .ok (_, ctx1) =>
      match applyRules glob item.name .products created deleted modified item.expProducts productPaths ctx1 with
      | .ok (_, ctx2) => .ok ctx2
      | .err e => .err e
      | .panic e => .panic e
    | .err e => .err e
    | .panic e => .panic e

/-- Go `VerifyArtifacts` (the result context is the caller-visible state of the link maps: unchanged,
    theorem `verifyArtifacts_leaves_links_untouched`). -/
def verifyArtifacts (glob : Str → Str → Bool) : List Item → Ctx → Outcome Ctx
  | [], ctx => .ok ctx
  | item :: items, ctx =>
    match verifyItem glob ctx item with
    | .ok ctx1 => verifyArtifacts glob items ctx1
    | e => e

/-- The matcher of the real code: `match(pattern, name)` with pattern errors = no match. -/
def goGlob (pattern name : Str) : Bool := Glob.filterHas false (utf8 pattern) (utf8 name)

end InToto.Rules
