/-
Abstract model of two library calls running concurrently (property C16): each call is a finite
list of atomic steps over its OWN local state and a SHARED component (the package-level mutable
variables of package in_toto, listed by fact F3 regenerated from the source on every run).
A schedule says which call moves next.
-/
namespace InToto.Conc

/-- one atomic step: reads/writes the call's local state and the shared state -/
abbrev StepFn (L S : Type) := L → S → L × S

/-- run a call alone -/
def runAlone {L S : Type} : List (StepFn L S) → L → S → L × S
  | [], l, s => (l, s)
  | f :: rest, l, s => let r := f l s; runAlone rest r.1 r.2

/-- run two calls under a schedule (`true`: the first call moves); a scheduled call that has
    finished is skipped; when the schedule ends the remaining steps run, first call first -/
def runSched {L S : Type} : List Bool → List (StepFn L S) → List (StepFn L S) → L → L → S → L × L × S
  | [], a, b, la, lb, s =>
    let ra := runAlone a la s
    let rb := runAlone b lb ra.2
    (ra.1, rb.1, rb.2)
  | true :: sch, f :: a, b, la, lb, s => let r := f la s; runSched sch a b r.1 lb r.2
  | true :: sch, [], b, la, lb, s => runSched sch [] b la lb s
  | false :: sch, a, g :: b, la, lb, s => let r := g lb s; runSched sch a b la r.1 r.2
  | false :: sch, a, [], la, lb, s => runSched sch a [] la lb s

/-- a step that does not write the shared state (it may read it) -/
def ReadOnly {L S : Type} (f : StepFn L S) : Prop := ∀ l s, (f l s).2 = s

end InToto.Conc
