import InToto.Model.Verify
/-!
# The two recording switches, as the link-producing wrappers hand them on

`InTotoRun`, `InTotoRecordStart` and `InTotoRecordStop` take a line-normalisation switch and a
follow-directory-symlinks switch and pass both to every recording they make.  What a switch selects
is a property of the tree that is recorded (model: `Record.recordArtifacts`, `Record.normalize`);
here the tree is given in its four views — digests of the raw and of the normalised contents, for
the files of the directory itself and for the files reachable only through a directory symlink —
and the model says WHICH view each switch combination records, before and after the command.
-/
namespace InToto.Verify

/-- the tree as recorded under a switch combination: `norm` selects the digests of the normalised
    contents, `follow` makes the files behind a directory symlink part of the tree -/
def viewFS (norm follow : Bool) (raw normd extRaw extNorm : FS) : FS :=
  (if norm then normd else raw) ++ (if follow then (if norm then extNorm else extRaw) else [])

/-- materials before, products after the command — both recorded under the SAME switches -/
def runStepSw (norm follow : Bool) (raw normd extRaw extNorm : FS)
    (setsRaw setsNorm : List (Str × Str)) (dels : List Str) : Snapshots :=
  runStep (viewFS norm follow raw normd extRaw extNorm) (if norm then setsNorm else setsRaw) dels

end InToto.Verify
