/-
Model of signing histories (property C04): `Metablock.Sign`, `Envelope.Sign`, `SetPayload`,
`VerifySignature`, dump + load, in-memory mutation, signature corruption — over SYMBOLIC signatures:
a signature is a fresh token, and the set of (public key, message, token) triples that the
primitive accepts grows with every signing (perfect-signature abstraction).
-/
import InToto.Model.Verify

namespace InToto.Sign
open InToto InToto.Json InToto.Schema InToto.Metadata InToto.Verify

structure SState where
  md : Md
  valid : List (Str × Str × Str)     -- (public material, message, signature bytes as lower hex) accepted by the primitive
  n : Nat                            -- tokens handed out so far
  deriving Repr

inductive SOp where
  | sign (k : Key)                   -- library signs
  | extsign (k : Key)                -- an independent implementation signs the standard bytes and attaches the signature
  | verify (k : Key)
  | dumpload
  | setName (s : Str)                -- in-memory change of a signed field (name of a link / readme of a layout)
  | corrupt (i : Nat)                -- flip a bit in the i-th signature
  | poke (s : Str)                   -- in-place change of nested signed content: first element of a link's command list / name of a layout's first step
  deriving Repr

def worldOf (W0 : World) (st : SState) : World :=
  { W0 with sigOK := fun p m s => st.valid.any fun e => e.1 = p ∧ e.2.1 = m ∧ e.2.2 = s }

/-- the bytes a signature over the current state is made over: canonical JSON (legacy) or the
    DSSE pre-authentication encoding of the stored payload bytes -/
def signedBytes (m : Md) : Option Str :=
  match m with
  | .legacy p _ => canonPayload p
  | .dsse pt pl _ _ => ((B64.decodeFlex pl).bind B64.bytesToStr).map fun body => pae pt body

def tokenBytes (n : Nat) : List UInt8 := [(n / 256).toUInt8, (n % 256).toUInt8]

def sigList (v : TVal) : List TVal := v.asList.getD []

/-- append a signature to the wrapper's list -/
def addSig (m : Md) (keyid cert : Str) (raw : List UInt8) : Md :=
  match m with
  | .legacy p s =>
    .legacy p (.list (some (sigList s ++ [.struct [(lit% "keyid", .str keyid), (lit% "sig", .str (hexLower raw)), (lit% "cert", .str cert)]])))
  | .dsse pt pl s p =>
    .dsse pt pl (.list (some (sigList s ++ [.struct [(lit% "keyid", .str keyid), (lit% "sig", .str (B64.encode raw))]]))) p

def setNameP (p : Payload) (s : Str) : Payload :=
  match p with
  | .link v => .link (fset v (lit% "name") (.str s))
  | .layout v => .layout (fset v (lit% "readme") (.str s))

/-- a write THROUGH a slice element of the in-memory payload (`link.Command[0] = s`,
    `layout.Steps[0].Name = s`): the payload is not re-assigned, only nested content changes.
    Nothing happens when there is no such element (nil / empty list, field absent or of another
    shape; for a layout: first element not a struct). -/
def pokeP (p : Payload) (s : Str) : Payload :=
  match p with
  | .link v =>
    match fget v (lit% "command") with
    | .list (some (_ :: rest)) => .link (fset v (lit% "command") (.list (some (.str s :: rest))))
    | _ => .link v
  | .layout v =>
    match fget v (lit% "steps") with
    | .list (some (.struct fs :: rest)) =>
      .layout (fset v (lit% "steps") (.list (some (fset (.struct fs) (lit% "name") (.str s) :: rest))))
    | _ => .layout v

def corruptNth : List TVal → Nat → Bool → List TVal
  | [], _, _ => []
  | x :: t, 0, dsse =>
    let bad : Str := if dsse then B64.encode [0xFF, 0xFE] else hexLower [0xFF, 0xFE]
    fset x (lit% "sig") (.str bad) :: t
  | x :: t, i + 1, dsse => x :: corruptNth t i dsse

/-- one operation: new state and the outcome class the caller observes -/
def sstep (W0 : World) (st : SState) (op : SOp) : SState × String :=
  match op with
  | .sign k =>
    match keyUsable W0 k true with
    | .err _ => (st, "err")
    | .panic _ => (st, "panic")
    | .ok () =>
      match signedBytes st.md with
      | none => (st, "err")
      | some msg =>
        let raw := tokenBytes (st.n + 1)
        ({ md := addSig st.md k.keyid k.cert raw, valid := st.valid ++ [(k.pub, msg, hexLower raw)], n := st.n + 1 }, "ok")
  | .extsign k =>
    match signedBytes st.md with
    | none => (st, "err")
    | some msg =>
      let raw := tokenBytes (st.n + 1)
      ({ md := addSig st.md k.keyid [] raw, valid := st.valid ++ [(k.pub, msg, hexLower raw)], n := st.n + 1 }, "ok")
  | .verify k => (st, (mdVerify (worldOf W0 st) st.md k).cls)
  | .dumpload =>
    match dumpText st.md with
    | none => (st, "err")
    | some t =>
      match loadMetadata t with
      | .ok m => ({ st with md := m }, "ok")
      | _ => (st, "err")
  | .setName s =>
    match st.md with
    | .legacy p sg => ({ st with md := .legacy (setNameP p s) sg }, "ok")
    | .dsse _ _ _ p =>
      -- an envelope's payload can only be changed through SetPayload, which starts a new envelope
      match setPayload (setNameP p s) with
      | .ok m => ({ st with md := m }, "ok")
      | _ => (st, "err")
  | .poke s =>
    match st.md with
    | .legacy p sg => ({ st with md := .legacy (pokeP p s) sg }, "ok")
    | .dsse _ _ _ p =>
      match setPayload (pokeP p s) with
      | .ok m => ({ st with md := m }, "ok")
      | _ => (st, "err")
  | .corrupt i =>
    match st.md with
    | .legacy p sg => ({ st with md := .legacy p (.list (some (corruptNth (sigList sg) i false))) }, "ok")
    | .dsse pt pl sg p => ({ st with md := .dsse pt pl (.list (some (corruptNth (sigList sg) i true))) p }, "ok")

/-- content that cannot be represented in canonical JSON: a non-integral number in a by-product
    of a link (layouts have no field of arbitrary JSON type) -/
def setFracP (p : Payload) : Payload :=
  match p with
  | .link v => .link (fset v (lit% "byproducts") (.map (some [(lit% "frac", .any (.frac (lit% "0.5")))])))
  | .layout v => .layout v

/-- an attempt to put such content into the metadata object: an envelope REFUSES it (`SetPayload`
    returns an error and the envelope keeps its payload, payload bytes and signatures); a Metablock
    is a plain struct — the assignment goes through and every later signing fails -/
def trySetFrac (st : SState) : SState × String :=
  match st.md with
  | .dsse _ _ _ p =>
    match setPayload (setFracP p) with
    | .ok m => ({ st with md := m }, "ok:changed")
    | _ => (st, "err:same")
  | .legacy p sg => ({ st with md := .legacy (setFracP p) sg }, "ok:struct")

def run (W0 : World) : SState → List SOp → SState × List String
  | st, [] => (st, [])
  | st, op :: ops =>
    let r := sstep W0 st op
    let rest := run W0 r.1 ops
    (rest.1, r.2 :: rest.2)

/-- for every signature finally present: does the primitive accept it for the key with that public
    material over the final content (what an independent verifier would find) -/
def finalValid (W0 : World) (st : SState) (pubOf : Str → Str) : List Bool :=
  match signedBytes st.md with
  | none => (sigsOf st.md).map fun _ => false
  | some msg =>
    (sigsOf st.md).map fun s =>
      let raw : Option (List UInt8) := match st.md with
        | .legacy _ _ => hexDecode s.sig
        | .dsse _ _ _ _ => B64.decodeFlex s.sig
      match raw with
      | some r => (worldOf W0 st).sigOK (pubOf s.keyid) msg (hexLower r)
      | none => false

end InToto.Sign
