/-
Model of `time.Parse(ISO8601DateSchema, s)` for the one layout "2006-01-02T15:04:05Z" and of
`VerifyLayoutExpiration`.  Go accepts: 4-digit year, 2-digit month and day, ONE or two digit hour,
2-digit minute and second, an optional fractional second `[.,]digits+` (although the layout has
none), then the literal `Z` and nothing else; ranges incl. days per month / leap years are checked.
-/
import InToto.Model.Basic

namespace InToto.Expiry
open InToto

def isDigit (c : Char) : Bool := '0' ≤ c && c ≤ '9'
def dval (c : Char) : Nat := c.toNat - 48

/-- exactly two digits -/
def num2 : Str → Option (Nat × Str)
  | a :: b :: rest => if isDigit a && isDigit b then some (dval a * 10 + dval b, rest) else none
  | _ => none

/-- one or two digits (Go `getnum(value, false)`) -/
def num12 : Str → Option (Nat × Str)
  | a :: b :: rest =>
    if isDigit a then (if isDigit b then some (dval a * 10 + dval b, rest) else some (dval a, b :: rest))
    else none
  | [a] => if isDigit a then some (dval a, []) else none
  | [] => none

def num4 : Str → Option (Nat × Str)
  | a :: b :: c :: d :: rest =>
    if isDigit a && isDigit b && isDigit c && isDigit d then
      some (dval a * 1000 + dval b * 100 + dval c * 10 + dval d, rest)
    else none
  | _ => none

def lit1 (c : Char) : Str → Option Str
  | x :: rest => if x = c then some rest else none
  | [] => none

def isLeap (y : Nat) : Bool := y % 4 == 0 && (y % 100 != 0 || y % 400 == 0)

def daysIn (m y : Nat) : Nat :=
  if m = 2 then (if isLeap y then 29 else 28)
  else if m = 4 ∨ m = 6 ∨ m = 9 ∨ m = 11 then 30 else 31

def takeDigits : Str → Str × Str
  | [] => ([], [])
  | c :: t => if isDigit c then let r := takeDigits t; (c :: r.1, r.2) else ([], c :: t)

/-- nanoseconds of a fraction digit string (first nine digits count, the rest is dropped) -/
def fracNanos (ds : Str) : Nat :=
  let d9 := (ds ++ List.replicate 9 '0').take 9
  d9.foldl (fun acc c => acc * 10 + dval c) 0

/-- optional fractional second after the seconds field -/
def optFrac : Str → Nat × Str
  | p :: d :: rest =>
    if (p = '.' ∨ p = ',') ∧ isDigit d then
      let r := takeDigits (d :: rest)
      (fracNanos r.1, r.2)
    else (0, p :: d :: rest)
  | s => (0, s)

/-- days from 1970-01-01 to y-m-d (proleptic Gregorian; Howard Hinnant's algorithm) -/
def daysFromCivil (y m d : Nat) : Int :=
  let y' : Int := if m ≤ 2 then (y : Int) - 1 else y
  let era : Int := (if y' ≥ 0 then y' else y' - 399) / 400
  let yoe : Int := y' - era * 400
  let mp : Int := if m > 2 then (m : Int) - 3 else (m : Int) + 9
  let doy : Int := (153 * mp + 2) / 5 + (d : Int) - 1
  let doe : Int := yoe * 365 + yoe / 4 - yoe / 100 + doy
  era * 146097 + doe - 719468

structure Stamp where
  year : Nat
  month : Nat
  day : Nat
  hour : Nat
  min : Nat
  sec : Nat
  nanos : Nat
  deriving Repr, DecidableEq

/-- nanoseconds since the Unix epoch -/
def Stamp.unixNanos (t : Stamp) : Int :=
  ((daysFromCivil t.year t.month t.day * 86400 + (t.hour * 3600 + t.min * 60 + t.sec : Nat)) * 1000000000)
    + t.nanos

/-- `time.Parse("2006-01-02T15:04:05Z", s)`; `none` = parse error -/
def parseExpiry (s : Str) : Option Stamp := do
  let (y, r) ← num4 s
  let r ← lit1 '-' r
  let (mo, r) ← num2 r
  if mo < 1 ∨ mo > 12 then none
  let r ← lit1 '-' r
  let (d, r) ← num2 r
  let r ← lit1 'T' r
  let (h, r) ← num12 r
  if h ≥ 24 then none
  let r ← lit1 ':' r
  let (mi, r) ← num2 r
  if mi ≥ 60 then none
  let r ← lit1 ':' r
  let (se, r) ← num2 r
  if se ≥ 60 then none
  let (ns, r) := optFrac r
  let r ← lit1 'Z' r
  if r ≠ [] then none
  if d < 1 ∨ d > daysIn mo y then none
  some { year := y, month := mo, day := d, hour := h, min := mi, sec := se, nanos := ns }

/-- `VerifyLayoutExpiration` at time `now` (ns since the epoch): parse error or `expires < now` = error -/
def expiryOK (now : Int) (s : Str) : Bool :=
  match parseExpiry s with
  | none => false
  | some t => now ≤ t.unixNanos

end InToto.Expiry
