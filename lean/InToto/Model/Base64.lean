/-
Base64 as used by the DSSE wrapper: `base64.StdEncoding.EncodeToString`, and the flexible decoder
`b64Decode` of go-securesystemslib/dsse (standard alphabet first, then URL alphabet; Go's decoder
ignores '\r' and '\n' and requires padding).  Also UTF-8 decoding of byte strings.
-/
import InToto.Model.Basic
import InToto.Model.Glob

namespace InToto.B64
open InToto

def alphaStd (n : Nat) : Char :=
  if n < 26 then Char.ofNat (65 + n)
  else if n < 52 then Char.ofNat (97 + n - 26)
  else if n < 62 then Char.ofNat (48 + n - 52)
  else if n = 62 then '+' else '/'

def encode : List UInt8 → Str
  | [] => []
  | [a] =>
    let n := a.toNat
    [alphaStd (n / 4), alphaStd (n % 4 * 16), '=', '=']
  | [a, b] =>
    let n := a.toNat * 256 + b.toNat
    [alphaStd (n / 1024), alphaStd (n / 16 % 64), alphaStd (n % 16 * 4), '=']
  | a :: b :: c :: rest =>
    let n := a.toNat * 65536 + b.toNat * 256 + c.toNat
    alphaStd (n / 262144) :: alphaStd (n / 4096 % 64) :: alphaStd (n / 64 % 64) :: alphaStd (n % 64) :: encode rest

/-- value of a base64 digit; `url` selects the `-_` alphabet -/
def digit (url : Bool) (c : Char) : Option Nat :=
  if 'A' ≤ c ∧ c ≤ 'Z' then some (c.toNat - 65)
  else if 'a' ≤ c ∧ c ≤ 'z' then some (c.toNat - 97 + 26)
  else if '0' ≤ c ∧ c ≤ '9' then some (c.toNat - 48 + 52)
  else if !url ∧ c = '+' then some 62
  else if !url ∧ c = '/' then some 63
  else if url ∧ c = '-' then some 62
  else if url ∧ c = '_' then some 63
  else none

/-- decode quanta of a newline-stripped input (padding required, only at the very end) -/
def decodeQ (url : Bool) : Nat → Str → Option (List UInt8)
  | 0, _ => none
  | fuel + 1, s =>
    match s with
    | [] => some []
    | [a, b, '=', '='] =>
      match digit url a, digit url b with
      | some x, some y => some [(x * 4 + y / 16).toUInt8]
      | _, _ => none
    | [a, b, c, '='] =>
      match digit url a, digit url b, digit url c with
      | some x, some y, some z =>
        let n := x * 4096 + y * 64 + z
        some [(n / 1024).toUInt8, (n / 4 % 256).toUInt8]
      | _, _, _ => none
    | a :: b :: c :: d :: rest =>
      match digit url a, digit url b, digit url c, digit url d with
      | some w, some x, some y, some z =>
        let n := w * 262144 + x * 4096 + y * 64 + z
        (decodeQ url fuel rest).map fun r => (n / 65536).toUInt8 :: (n / 256 % 256).toUInt8 :: (n % 256).toUInt8 :: r
      | _, _, _, _ => none
    | _ => none

def stripNl (s : Str) : Str := s.filter fun c => !(c = '\r' || c = '\n')

def decodeWith (url : Bool) (s : Str) : Option (List UInt8) :=
  let t := stripNl s
  decodeQ url (t.length + 1) t

/-- dsse `b64Decode`: standard encoding, on failure URL encoding -/
def decodeFlex (s : Str) : Option (List UInt8) :=
  match decodeWith false s with
  | some b => some b
  | none => decodeWith true s

/-- strict UTF-8 decoding of a byte string (`none` on any invalid sequence) -/
def utf8Decode : Nat → List UInt8 → Option Str
  | 0, _ => none
  | fuel + 1, bs =>
    match bs with
    | [] => some []
    | b :: _ =>
      let d := Glob.decodeRune bs
      if d.1 = Glob.runeError ∧ d.2 = 1 ∧ b ≠ 0xEF then none
      else if d.1 = Glob.runeError ∧ d.2 = 1 then none
      else (utf8Decode fuel (bs.drop d.2)).map fun r => Char.ofNat d.1 :: r

def bytesToStr (bs : List UInt8) : Option Str := utf8Decode (bs.length + 1) bs

end InToto.B64
