/-
Model of key loading (in_toto/keylib.go, property C19): which key type, default scheme and halves a
PEM form yields, and the key identifier = SHA-256 over the canonical description of the PUBLIC half.
PEM/DER parsing, key generation and SHA-256 are oracles (the public material string is given).
-/
import InToto.Model.Json
import InToto.Model.Validate

namespace InToto.Keys
open InToto InToto.Json

inductive Kind where
  | rsa | ecdsa | ed25519
  deriving Repr, DecidableEq

inductive Form where
  | pkcs8 | pkcs1 | sec1 | pkix | cert     -- PKCS#8 / PKCS#1 / SEC1 private key, PKIX public key, X.509 certificate
  | notAKey                                  -- corrupted, truncated, encrypted or foreign PEM, or no PEM at all
  deriving Repr, DecidableEq

def keyTypeOf : Kind → Str
  | .rsa => lit% "rsa"
  | .ecdsa => lit% "ecdsa"
  | .ed25519 => lit% "ed25519"

/-- `getDefaultKeyScheme` -/
def defaultScheme : Kind → Str
  | .rsa => lit% "rsassa-pss-sha256"
  | .ecdsa => lit% "ecdsa-sha2-nistp256"
  | .ed25519 => lit% "ed25519"

def defaultIdAlgs : List Str := [lit% "sha256", lit% "sha512"]

/-- can this kind of key be stored in this form at all -/
def formPossible : Kind → Form → Bool
  | _, .notAKey => false
  | .rsa, .sec1 => false
  | .ecdsa, .pkcs1 => false
  | .ed25519, .pkcs1 => false
  | .ed25519, .sec1 => false
  | _, _ => true

structure Loaded where
  keytype : Str
  scheme : Str
  idAlgs : List Str
  hasPrivate : Bool
  hasCert : Bool
  deriving Repr, DecidableEq

def schemeOf (k : Kind) (s : Option (Str × List Str)) : Str :=
  match s with
  | some x => x.1
  | none => defaultScheme k

def algsOf (s : Option (Str × List Str)) : List Str :=
  match s with
  | some x => x.2
  | none => defaultIdAlgs

/-- `LoadKeyReader` (explicit scheme and id algorithms) / `LoadKeyReaderDefaults` (`scheme = none`);
    generateKeyID ends with validateKey: the scheme must fit the key type, id algorithms must be supported -/
def load (k : Kind) (f : Form) (s : Option (Str × List Str)) : Outcome Loaded :=
  if formPossible k f = false then .err "not-a-key"
  else if Validate.typeSchemeOK (keyTypeOf k) (schemeOf k s) = false then .err "scheme-keytype-mismatch"
  else if ((algsOf s).all fun a => Validate.supportedIdAlgs.contains a) = false then .err "keyid-hash-algorithms"
  else .ok { keytype := keyTypeOf k, scheme := schemeOf k s, idAlgs := algsOf s,
             hasPrivate := f = .pkcs8 || f = .pkcs1 || f = .sec1, hasCert := f = .cert }

/-- the canonical description whose SHA-256 is the key id: it mentions the public half only -/
def idPreimage (keytype scheme pub : Str) (algs : List Str) : Option Str :=
  renderCanon (.obj [(lit% "keytype", .str keytype), (lit% "scheme", .str scheme),
    (lit% "keyid_hash_algorithms", .arr (algs.map .str)), (lit% "keyval", .obj [(lit% "public", .str pub)])])

end InToto.Keys
