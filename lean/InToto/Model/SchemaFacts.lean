/-
What the hand-written model assumes about the SOURCE TEXT of /repo, as data: struct tags and Go
types of the metadata structs, constants, regular expressions, hash names, package-level state.
`InToto/Generated/Facts.lean` is regenerated from /repo on every run; the property files compare
the two by `decide`.
-/
import InToto.Model.Schema

namespace InToto.SchemaFacts
open InToto InToto.Schema

def expKeyVal : List (Str × Bool × Str) :=
  [(lit% "private", true, lit% "string"), (lit% "public", false, lit% "string"), (lit% "certificate", true, lit% "string")]
def expKey : List (Str × Bool × Str) :=
  [(lit% "keyid", false, lit% "string"), (lit% "keyid_hash_algorithms", false, lit% "[]string"),
   (lit% "keytype", false, lit% "string"), (lit% "keyval", false, lit% "KeyVal"), (lit% "scheme", false, lit% "string")]
def expSignature : List (Str × Bool × Str) :=
  [(lit% "keyid", false, lit% "string"), (lit% "sig", false, lit% "string"), (lit% "cert", true, lit% "string")]
def expLink : List (Str × Bool × Str) :=
  [(lit% "_type", false, lit% "string"), (lit% "name", false, lit% "string"),
   (lit% "materials", false, lit% "map[string]HashObj"), (lit% "products", false, lit% "map[string]HashObj"),
   (lit% "byproducts", false, lit% "map[string]interface{}"), (lit% "command", false, lit% "[]string"),
   (lit% "environment", false, lit% "map[string]interface{}")]
def expInspection : List (Str × Bool × Str) :=
  [(lit% "_type", false, lit% "string"), (lit% "run", false, lit% "[]string"), (lit% "name", false, lit% "string"),
   (lit% "expected_materials", false, lit% "[][]string"), (lit% "expected_products", false, lit% "[][]string")]
def expStep : List (Str × Bool × Str) :=
  [(lit% "_type", false, lit% "string"), (lit% "pubkeys", false, lit% "[]string"),
   (lit% "cert_constraints", true, lit% "[]CertificateConstraint"), (lit% "expected_command", false, lit% "[]string"),
   (lit% "threshold", false, lit% "int"), (lit% "name", false, lit% "string"),
   (lit% "expected_materials", false, lit% "[][]string"), (lit% "expected_products", false, lit% "[][]string")]
def expLayout : List (Str × Bool × Str) :=
  [(lit% "_type", false, lit% "string"), (lit% "steps", false, lit% "[]Step"), (lit% "inspect", false, lit% "[]Inspection"),
   (lit% "keys", false, lit% "map[string]Key"), (lit% "rootcas", true, lit% "map[string]Key"),
   (lit% "intermediatecas", true, lit% "map[string]Key"), (lit% "expires", false, lit% "string"), (lit% "readme", false, lit% "string")]
def expCertConstraint : List (Str × Bool × Str) :=
  [(lit% "common_name", false, lit% "string"), (lit% "dns_names", false, lit% "[]string"), (lit% "emails", false, lit% "[]string"),
   (lit% "organizations", false, lit% "[]string"), (lit% "roots", false, lit% "[]string"), (lit% "uris", false, lit% "[]string")]
def expMetablock : List (Str × Bool × Str) :=
  [(lit% "signed", false, lit% "interface{}"), (lit% "signatures", false, lit% "[]Signature")]

/-- Go type string ↦ shape used by the model -/
def tyOfGo (t : Str) : Option Ty :=
  if t = lit% "string" then some .str
  else if t = lit% "int" then some .int
  else if t = lit% "[]string" then some tyStrs
  else if t = lit% "[][]string" then some tyRules
  else if t = lit% "map[string]HashObj" then some tyArts
  else if t = lit% "map[string]interface{}" then some (.map .any)
  else if t = lit% "KeyVal" then some (.struct fieldsKeyVal)
  else if t = lit% "map[string]Key" then some (.map (.struct fieldsKey))
  else if t = lit% "[]CertificateConstraint" then some (.list (.struct fieldsCertConstraint))
  else if t = lit% "[]Step" then some (.list (.struct fieldsStep))
  else if t = lit% "[]Inspection" then some (.list (.struct fieldsInspection))
  else none

/-- (name, omitempty) projection used to compare a table of the model with an expected table -/
def namesOf (fs : List (Str × Bool × Ty)) : List (Str × Bool) := fs.map fun f => (f.1, f.2.1)
def namesOfExp (fs : List (Str × Bool × Str)) : List (Str × Bool) := fs.map fun f => (f.1, f.2.1)

/-- the model's schema tables carry exactly the names / omitempty flags of the expected source tables
    (the type column is compared through `tyOfGo` on the repr level by the driver-independent
    `schema_types_consistent` below) -/
theorem schema_names_consistent :
    namesOf fieldsKeyVal = namesOfExp expKeyVal ∧ namesOf fieldsKey = namesOfExp expKey ∧
    namesOf fieldsSignature = namesOfExp expSignature ∧ namesOf fieldsLink = namesOfExp expLink ∧
    namesOf fieldsInspection = namesOfExp expInspection ∧ namesOf fieldsStep = namesOfExp expStep ∧
    namesOf fieldsLayout = namesOfExp expLayout ∧ namesOf fieldsCertConstraint = namesOfExp expCertConstraint := by
  decide

/-- every Go type that occurs in the expected tables is one the model has a shape for -/
theorem schema_types_known :
    (expKeyVal ++ expKey ++ expSignature ++ expLink ++ expInspection ++ expStep ++ expLayout ++ expCertConstraint).all
      (fun f => (tyOfGo f.2.2).isSome) = true := by
  decide

def expRegexps : List Str := [lit% "^[a-fA-F0-9]+$", lit% "^[a-zA-Z0-9_-]+$"]
def expHashNames : List Str := [lit% "sha256", lit% "sha384", lit% "sha512"]

end InToto.SchemaFacts
