/-
Model of `SubstituteParameters` (in_toto/verifylib.go): parameter-name check, `strings.Replacer`
semantics (one left-to-right pass; at each position the first pair, in argument order, whose key is
a prefix of the remaining text; inserted text is never rescanned), field-by-field rewriting of a
layout given as a typed value of `tyLayout`.
-/
import InToto.Model.Schema

namespace InToto.Subst
open InToto InToto.Schema

def isNameChar (c : Char) : Bool :=
  ('a' ≤ c && c ≤ 'z') || ('A' ≤ c && c ≤ 'Z') || ('0' ≤ c && c ≤ '9') || c = '_' || c = '-'

/-- regexp `^[a-zA-Z0-9_-]+$` (Go: `$` matches only at the very end of the text) -/
def validName (s : Str) : Bool := !s.isEmpty && s.all isNameChar

/-- `strings.NewReplacer(k₁, v₁, k₂, v₂, ...).Replace(s)` for non-empty keys -/
def replaceAux : Nat → List (Str × Str) → Str → Str
  | 0, _, s => s
  | fuel + 1, pairs, s =>
    match s with
    | [] => []
    | c :: t =>
      match pairs.find? fun p => !p.1.isEmpty && p.1.isPrefixOf s with
      | some p => p.2 ++ replaceAux fuel pairs (s.drop p.1.length)
      | none => c :: replaceAux fuel pairs t

def replace (pairs : List (Str × Str)) (s : Str) : Str := replaceAux (s.length + 1) pairs s

/-- the replacer arguments built from the parameter dictionary: `{name}` ↦ value -/
def pairsOf (params : List (Str × Str)) : List (Str × Str) :=
  params.map fun p => ('{' :: p.1 ++ ['}'], p.2)

/-- `substituteParamatersInSlice`: always a non-nil slice -/
def substStrs (pairs : List (Str × Str)) (v : TVal) : TVal :=
  .list (some (((v.asList.getD []).map TVal.asStr).map fun s => .str (replace pairs s)))

/-- `substituteParametersInSliceOfSlices` -/
def substRules (pairs : List (Str × Str)) (v : TVal) : TVal :=
  .list (some ((v.asList.getD []).map fun r => substStrs pairs r))

def substStep (pairs : List (Str × Str)) (st : TVal) : TVal :=
  let st := fset st (lit% "expected_materials") (substRules pairs (fget st (lit% "expected_materials")))
  let st := fset st (lit% "expected_products") (substRules pairs (fget st (lit% "expected_products")))
  fset st (lit% "expected_command") (substStrs pairs (fget st (lit% "expected_command")))

def substInspection (pairs : List (Str × Str)) (i : TVal) : TVal :=
  let i := fset i (lit% "expected_materials") (substRules pairs (fget i (lit% "expected_materials")))
  let i := fset i (lit% "expected_products") (substRules pairs (fget i (lit% "expected_products")))
  fset i (lit% "run") (substStrs pairs (fget i (lit% "run")))

def mapList (f : TVal → TVal) (v : TVal) : TVal :=
  match v with
  | .list (some l) => .list (some (l.map f))
  | _ => v

/-- `SubstituteParameters(layout, parameterDictionary)`; `params` in the order the Go map was ranged over -/
def substitute (layout : TVal) (params : List (Str × Str)) : Outcome TVal :=
  if params.isEmpty then .ok layout
  else if params.all fun p => validName p.1 then
    let pairs := pairsOf params
    let l := fset layout (lit% "steps") (mapList (substStep pairs) (fget layout (lit% "steps")))
    .ok (fset l (lit% "inspect") (mapList (substInspection pairs) (fget l (lit% "inspect"))))
  else .err "invalid-parameter-name"

end InToto.Subst
