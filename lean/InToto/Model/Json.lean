/-
JSON values, the two serialisations the library signs, and a strict RFC 8259 parser.

* `JVal`            generic JSON tree (what `encoding/json` decodes into `interface{}`);
                    numbers are either exact integers or an opaque non-integral literal.
* `renderCanon`     OLPC canonical JSON as produced by `cjson.EncodeCanonical`
                    (keys sorted by code point, only `\` and `"` escaped, integers only).
* `renderPayload`   the DSSE payload: canonical form with control characters escaped so that it
                    is valid JSON (in_toto/envelope.go `SetPayload` after the repair).
* `parseJ`          strict parser (raw control characters inside strings are rejected, as every
                    conforming JSON parser does); `parseLenient` also reads the OLPC form.  Used to state "any JSON parser decodes the
                    payload to exactly the value that was set" and injectivity of the signed bytes.

Core Lean only.
-/
import InToto.Model.Basic

namespace InToto.Json
open InToto

inductive JVal where
  | null
  | bool (b : Bool)
  | num (i : Int)                 -- integral number
  | frac (lit : Str)              -- any number that is not an int64 integer (opaque literal)
  | str (s : Str)
  | arr (l : List JVal)
  | obj (l : List (Str × JVal))   -- in the order given; `sortKeys` makes it canonical
  deriving Repr

/-! ### rendering -/

def hexDigit (n : Nat) : Char :=
  if n < 10 then Char.ofNat (48 + n) else Char.ofNat (87 + n)

/-- escape of one character inside a string literal.  `esc = true`: also escape control characters
    (`\u00XX`), which makes the literal valid JSON; `false`: OLPC form (raw). -/
def escChar (esc : Bool) (c : Char) : Str :=
  if c = '\\' then ['\\', '\\']
  else if c = '"' then ['\\', '"']
  else if esc ∧ c.toNat < 0x20 then ['\\', 'u', '0', '0', hexDigit (c.toNat / 16), hexDigit (c.toNat % 16)]
  else [c]

def renderStr (esc : Bool) (s : Str) : Str := '"' :: (s.flatMap (escChar esc)) ++ ['"']

def natDigits : Nat → Nat → Str
  | 0, _ => []
  | fuel + 1, n => if n < 10 then [Char.ofNat (48 + n)] else natDigits fuel (n / 10) ++ [Char.ofNat (48 + n % 10)]

def renderNat (n : Nat) : Str := natDigits (n + 1) n

def renderInt (i : Int) : Str :=
  match i with
  | .ofNat n => renderNat n
  | .negSucc n => '-' :: renderNat (n + 1)

/-- lexicographic order on code points (= byte order of the UTF-8 encodings, Go `sort.Strings`) -/
def strLt : Str → Str → Bool
  | [], [] => false
  | [], _ :: _ => true
  | _ :: _, [] => false
  | a :: as, b :: bs => if a.toNat < b.toNat then true else if b.toNat < a.toNat then false else strLt as bs

def int64Min : Int := -9223372036854775808
def int64Max : Int := 9223372036854775807

mutual
  /-- `none` = the value cannot be canonicalised (non-integral / out-of-int64 number);
      with `fracOK` (plain `json.Marshal`, used for files) such numbers are written as they are. -/
  def render (esc fracOK : Bool) : JVal → Option Str
    | .null => some (lit% "null")
    | .bool true => some (lit% "true")
    | .bool false => some (lit% "false")
    | .num i => if fracOK ∨ (int64Min ≤ i ∧ i ≤ int64Max) then some (renderInt i) else none
    | .frac l => if fracOK then some l else none
    | .str s => some (renderStr esc s)
    | .arr l => (renderList esc fracOK l).map fun body => '[' :: body ++ [']']
    | .obj l => (renderMembers esc fracOK l).map fun body => '{' :: body ++ ['}']
  def renderList (esc fracOK : Bool) : List JVal → Option Str
    | [] => some []
    | [v] => render esc fracOK v
    | v :: w :: rest =>
      match render esc fracOK v, renderList esc fracOK (w :: rest) with
      | some a, some b => some (a ++ ',' :: b)
      | _, _ => none
  def renderMembers (esc fracOK : Bool) : List (Str × JVal) → Option Str
    | [] => some []
    | [(k, v)] => (render esc fracOK v).map fun a => renderStr esc k ++ ':' :: a
    | (k, v) :: m :: rest =>
      match render esc fracOK v, renderMembers esc fracOK (m :: rest) with
      | some a, some b => some (renderStr esc k ++ ':' :: a ++ ',' :: b)
      | _, _ => none
end

mutual
  /-- sort the members of every object by key (cjson sorts the keys of every map) -/
  def sortKeys : JVal → JVal
    | .arr l => .arr (sortKeysList l)
    | .obj l => .obj (sortBy (fun a b => strLt a.1 b.1) (sortKeysMembers l))
    | v => v
  def sortKeysList : List JVal → List JVal
    | [] => []
    | v :: rest => sortKeys v :: sortKeysList rest
  def sortKeysMembers : List (Str × JVal) → List (Str × JVal)
    | [] => []
    | (k, v) :: rest => (k, sortKeys v) :: sortKeysMembers rest
end

/-- `cjson.EncodeCanonical` on a generic JSON value. -/
def renderCanon (v : JVal) : Option Str := render false false (sortKeys v)

/-- DSSE payload bytes for a value: canonical, control characters escaped. -/
def renderPayload (v : JVal) : Option Str := render true false (sortKeys v)

/-! ### strict parser (RFC 8259) -/

def isWs (c : Char) : Bool := c = ' ' || c = '\n' || c = '\r' || c = '\t'

def skipWs : Str → Str
  | [] => []
  | c :: t => if isWs c then skipWs t else c :: t

def hexVal (c : Char) : Option Nat :=
  if '0' ≤ c ∧ c ≤ '9' then some (c.toNat - 48)
  else if 'a' ≤ c ∧ c ≤ 'f' then some (c.toNat - 87)
  else if 'A' ≤ c ∧ c ≤ 'F' then some (c.toNat - 55)
  else none

def hex4 (a b c d : Char) : Option Nat :=
  match hexVal a, hexVal b, hexVal c, hexVal d with
  | some w, some x, some y, some z => some (w * 4096 + x * 256 + y * 16 + z)
  | _, _, _, _ => none

/-- body of a string literal after the opening quote: `(decoded, rest after closing quote)` -/
def parseStrBody (strict : Bool) : Nat → Str → Str → Option (Str × Str)
  | 0, _, _ => none
  | fuel + 1, inp, acc =>
    match inp with
    | [] => none
    | '"' :: rest => some (acc.reverse, rest)
    | '\\' :: e :: rest =>
      if e = '"' then parseStrBody strict fuel rest ('"' :: acc)
      else if e = '\\' then parseStrBody strict fuel rest ('\\' :: acc)
      else if e = '/' then parseStrBody strict fuel rest ('/' :: acc)
      else if e = 'b' then parseStrBody strict fuel rest (Char.ofNat 8 :: acc)
      else if e = 'f' then parseStrBody strict fuel rest (Char.ofNat 12 :: acc)
      else if e = 'n' then parseStrBody strict fuel rest ('\n' :: acc)
      else if e = 'r' then parseStrBody strict fuel rest ('\r' :: acc)
      else if e = 't' then parseStrBody strict fuel rest ('\t' :: acc)
      else if e = 'u' then
        match rest with
        | a :: b :: c :: d :: rest' =>
          match hex4 a b c d with
          | some n =>
            if 0xD800 ≤ n ∧ n < 0xDC00 then
              -- high surrogate: a low surrogate escape must follow
              match rest' with
              | '\\' :: 'u' :: a2 :: b2 :: c2 :: d2 :: rest'' =>
                match hex4 a2 b2 c2 d2 with
                | some m =>
                  if 0xDC00 ≤ m ∧ m < 0xE000 then
                    parseStrBody strict fuel rest'' (Char.ofNat (0x10000 + (n - 0xD800) * 1024 + (m - 0xDC00)) :: acc)
                  else none
                | none => none
              | _ => none
            else if 0xDC00 ≤ n ∧ n < 0xE000 then none
            else parseStrBody strict fuel rest' (Char.ofNat n :: acc)
          | none => none
        | _ => none
      else none
    | c :: rest =>
      if strict ∧ c.toNat < 0x20 then none          -- raw control character: not JSON
      else parseStrBody strict fuel rest (c :: acc)

def isDigit (c : Char) : Bool := '0' ≤ c && c ≤ '9'

def takeDigits : Str → Str × Str
  | [] => ([], [])
  | c :: t => if isDigit c then let r := takeDigits t; (c :: r.1, r.2) else ([], c :: t)

def digitsVal (ds : Str) : Nat := ds.foldl (fun acc c => acc * 10 + (c.toNat - 48)) 0

/-- number literal: `-? (0 | [1-9][0-9]*) frac? exp?`; integral literals give `num`, others `frac`. -/
def parseNum (inp : Str) : Option (JVal × Str) :=
  let (neg, r0) := match inp with | '-' :: t => (true, t) | _ => (false, inp)
  let (ds, r1) := takeDigits r0
  if ds = [] then none
  else if ds.length > 1 ∧ ds.head? = some '0' then none
  else
    let isFrac := match r1 with | '.' :: _ => true | 'e' :: _ => true | 'E' :: _ => true | _ => false
    if isFrac then
      -- consume a syntactically valid fraction/exponent
      let (fr, r2) := match r1 with
        | '.' :: t => let (fd, r) := takeDigits t; (if fd = [] then none else some ('.' :: fd), r)
        | _ => (some [], r1)
      match fr with
      | none => none
      | some frs =>
        let (ex, r3) := match r2 with
          | e :: t =>
            if e = 'e' ∨ e = 'E' then
              let (sg, t') := match t with | '+' :: u => (['+'], u) | '-' :: u => (['-'], u) | _ => ([], t)
              let (ed, r) := takeDigits t'
              (if ed = [] then none else some (e :: sg ++ ed), r)
            else (some [], r2)
          | [] => (some [], r2)
        match ex with
        | none => none
        | some exs => some (.frac ((if neg then ['-'] else []) ++ ds ++ frs ++ exs), r3)
    else
      let n : Int := digitsVal ds
      some (.num (if neg then -n else n), r1)

def dropPrefix (p : Str) (s : Str) : Option Str := if p.isPrefixOf s then some (s.drop p.length) else none

mutual
  def parseVal (strict : Bool) : Nat → Str → Option (JVal × Str)
    | 0, _ => none
    | fuel + 1, inp =>
      match skipWs inp with
      | [] => none
      | 'n' :: t => (dropPrefix (lit% "ull") t).map fun r => (.null, r)
      | 't' :: t => (dropPrefix (lit% "rue") t).map fun r => (.bool true, r)
      | 'f' :: t => (dropPrefix (lit% "alse") t).map fun r => (.bool false, r)
      | '"' :: t => (parseStrBody strict (t.length + 1) t []).map fun r => (.str r.1, r.2)
      | '[' :: t =>
        match skipWs t with
        | ']' :: r => some (.arr [], r)
        | _ => (parseElems strict fuel t).map fun r => (.arr r.1, r.2)
      | '{' :: t =>
        match skipWs t with
        | '}' :: r => some (.obj [], r)
        | _ => (parseMembers strict fuel t).map fun r => (.obj r.1, r.2)
      | c :: t => if c = '-' ∨ isDigit c then parseNum (c :: t) else none
  /-- one or more elements followed by `]` -/
  def parseElems (strict : Bool) : Nat → Str → Option (List JVal × Str)
    | 0, _ => none
    | fuel + 1, inp =>
      match parseVal strict fuel inp with
      | none => none
      | some (v, r) =>
        match skipWs r with
        | ',' :: r' => (parseElems strict fuel r').map fun x => (v :: x.1, x.2)
        | ']' :: r' => some ([v], r')
        | _ => none
  /-- one or more members followed by `}` -/
  def parseMembers (strict : Bool) : Nat → Str → Option (List (Str × JVal) × Str)
    | 0, _ => none
    | fuel + 1, inp =>
      match skipWs inp with
      | '"' :: t =>
        match parseStrBody strict (t.length + 1) t [] with
        | none => none
        | some (k, r) =>
          match skipWs r with
          | ':' :: r1 =>
            match parseVal strict fuel r1 with
            | none => none
            | some (v, r2) =>
              match skipWs r2 with
              | ',' :: r' => (parseMembers strict fuel r').map fun x => ((k, v) :: x.1, x.2)
              | '}' :: r' => some ([(k, v)], r')
              | _ => none
          | _ => none
      | _ => none
end

/-- Parse a complete document (surrounding whitespace allowed, nothing else may follow). -/
def parseWith (strict : Bool) (inp : Str) : Option JVal :=
  match parseVal strict (inp.length + 1) inp with
  | some (v, r) => if skipWs r = [] then some v else none
  | none => none

/-- the strict parser: what `encoding/json` (and any conforming parser) accepts -/
def parseJ (inp : Str) : Option JVal := parseWith true inp

/-- a reader of the OLPC canonical form, which leaves control characters in strings raw -/
def parseLenient (inp : Str) : Option JVal := parseWith false inp

end InToto.Json
