/-
Model of artifact recording (in_toto/runlib.go): `RecordArtifact` (line-ending normalisation, one
digest per requested algorithm), `RecordArtifacts` / `recordArtifacts` (lexical walk, exclusion,
symlinks to files — always followed — and to directories — followed on request —, prefix stripping,
uniqueness), `InTotoMatchProducts`.  Digests, exclusion patterns (go-pathspec) and the resolution of
symlink targets are oracles.  Symlink CYCLES are not modelled (correspondence-only, see DESIGN.md).
-/
import InToto.Model.Basic
import InToto.Model.Path
import InToto.Model.Json

namespace InToto.Record
open InToto

/-! ### line-ending normalisation -/

/-- `bytes.ReplaceAll(c, "\r\n", "\n")` then `bytes.ReplaceAll(c, "\r", "\n")` -/
def normalize : List UInt8 → List UInt8
  | [] => []
  | 0x0D :: 0x0A :: rest => 0x0A :: normalize rest
  | 0x0D :: rest => 0x0A :: normalize rest
  | b :: rest => b :: normalize rest

/-! ### trees -/

inductive Node where
  | file (digests : List (Str × Str))          -- alg ↦ digest of the (possibly normalised) content, for all supported algs
  | dir (children : List (Str × Node))
  | symFile (digests : List (Str × Str))       -- symlink whose final target is a regular file
  | symDir (children : List (Str × Node))      -- symlink whose final target is a directory (tree of the target)
  | dangling                                   -- symlink that cannot be resolved
  deriving Repr

def supportedAlgs : List Str := [lit% "sha256", lit% "sha512", lit% "sha384"]

/-- `RecordArtifact`: `none` = unsupported algorithm -/
def hashObj (digests : List (Str × Str)) (algs : List Str) : Option (List (Str × Str)) :=
  if algs.all fun a => supportedAlgs.contains a then
    some (algs.foldl (fun acc a => Schema_setAssoc a ((lookup a digests).getD []) acc) [])
  else none
where Schema_setAssoc (k : Str) (v : Str) : List (Str × Str) → List (Str × Str)
  | [] => [(k, v)]
  | (k', v') :: rest => if k' = k then (k, v) :: rest else (k', v') :: Schema_setAssoc k v rest

/-- `filepath.Join(dir, name)` -/
def joinPath (dir name : Str) : Str := Path.clean (dir ++ '/' :: name)

def sortChildren (l : List (Str × Node)) : List (Str × Node) := sortBy (fun a b => Json.strLt a.1 b.1) l

structure Cfg where
  algs : List Str
  ignored : Str → Bool          -- go-pathspec verdict for a path (oracle)
  lstrip : List Str
  followDirs : Bool

/-- first matching strip prefix is removed -/
def stripPath (lstrip : List Str) (p : Str) : Str :=
  match lstrip.find? fun s => s.isPrefixOf p with
  | some s => p.drop s.length
  | none => p

abbrev ArtMap := List (Str × List (Str × Str))

/-- the entries found below a followed directory symlink are added one by one; a name that is
    already taken is an error, as for regular files (repair of finding F19) -/
def mergeUnique : ArtMap → ArtMap → Outcome ArtMap
  | acc, [] => .ok acc
  | acc, (k, v) :: rest =>
    if (lookup k acc).isSome then .err "not-unique" else mergeUnique (acc ++ [(k, v)]) rest

mutual
  /-- the walk function applied to one path -/
  def visit (cfg : Cfg) : Nat → Str → Node → ArtMap → Outcome ArtMap
    | 0, _, _, _ => .err "depth"
    | fuel + 1, path, node, acc =>
      if cfg.ignored path then
        -- an ignored directory is not skipped by Walk: its children are still visited
        match node with
        | .dir ch => visitChildren cfg fuel path (sortChildren ch) acc
        | _ => .ok acc
      else
        match node with
        | .dir ch => visitChildren cfg fuel path (sortChildren ch) acc
        | .dangling => .err "eval-symlink"
        | .symFile d =>
          -- recursive recordArtifacts on the target: a regular file, recorded under the LINK's own path
          match hashObj d cfg.algs with
          | none => .err "unsupported-hash"
          | some h =>
            -- ... with the prefix stripped from the LINK's path and the same uniqueness check as for
            -- regular files (repair of finding F19)
            let p := stripPath cfg.lstrip path
            if (lookup p acc).isSome then .err "not-unique" else .ok (acc ++ [(p, h)])
        | .symDir ch =>
          if !cfg.followDirs then .ok acc
          else
            -- recursive recordArtifacts on the target directory; keys re-rooted at the link's path
            match visitChildren cfg fuel path (sortChildren ch) [] with
            | .ok sub => mergeUnique acc sub
            | e => e
        | .file d =>
          match hashObj d cfg.algs with
          | none => .err "unsupported-hash"
          | some h =>
            let p := stripPath cfg.lstrip path
            if (lookup p acc).isSome then .err "not-unique" else .ok (acc ++ [(p, h)])
  def visitChildren (cfg : Cfg) : Nat → Str → List (Str × Node) → ArtMap → Outcome ArtMap
    | 0, _, _, _ => .err "depth"
    | _ + 1, _, [], acc => .ok acc
    | fuel + 1, dir, (n, c) :: rest, acc =>
      match visit cfg fuel (joinPath dir n) c acc with
      | .ok acc1 => visitChildren cfg fuel dir rest acc1
      | e => e
end

def nodeSize : Node → Nat
  | .dir ch => 1 + sizeList ch
  | .symDir ch => 1 + sizeList ch
  | _ => 1
where sizeList : List (Str × Node) → Nat
  | [] => 0
  | (_, c) :: rest => nodeSize c + sizeList rest + 1

/-- `RecordArtifacts(paths, ...)`: every path is walked in turn; a missing path is an error -/
def recordArtifacts (cfg : Cfg) : List (Str × Option Node) → ArtMap → Outcome ArtMap
  | [], acc => .ok acc
  | (_, none) :: _, _ => .err "missing-path"
  | (p, some n) :: rest, acc =>
    match visit cfg (2 * nodeSize n + 2) p n acc with
    | .ok acc1 => recordArtifacts cfg rest acc1
    | e => e

/-! ### match-products -/

/-- `InTotoMatchProducts`: (only in products, not in products, differing) -/
def matchProducts (products local_ : ArtMap) : List Str × List Str × List Str :=
  let pk := products.map Prod.fst
  let lk := local_.map Prod.fst
  (pk.filter fun n => !lk.contains n,
   lk.filter fun n => !pk.contains n,
   lk.filter fun n => pk.contains n && decide (sortBy (fun a b => Json.strLt a.1 b.1) ((lookup n products).getD []) ≠
                                            sortBy (fun a b => Json.strLt a.1 b.1) ((lookup n local_).getD [])))

end InToto.Record
