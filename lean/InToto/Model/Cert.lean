/-
Model of in_toto/certconstraint.go (`checkCertConstraint`, `CertificateConstraint.Check`) and of
`Step.CheckCertConstraints`.  X.509 parsing and path validation are oracles: a certificate is
given by the attribute lists the standard library parsed from it plus the verdict of chain
verification against the layout's root pool and the available intermediates.
-/
import InToto.Model.Basic

namespace InToto.Cert
open InToto

def dedup : List Str → List Str
  | [] => []
  | a :: t => if a ∈ t then dedup t else a :: dedup t

/-- the loop over the certificate's values: each must remove a still unmet constraint value -/
def consume : List Str → List Str → Bool
  | unmet, [] => unmet.isEmpty
  | unmet, v :: vs => if unmet.contains v then consume (unmet.erase v) vs else false

/-- Go `checkCertConstraint(attributeName, constraints, values)`: `true` = nil error -/
def attrOK (constraints values : List Str) : Bool :=
  if constraints = [lit% "*"] then true
  else
    let cs := if constraints = [[]] then [] else constraints
    let vs := if values = [[]] then [] else values
    if cs.isEmpty && !vs.isEmpty then false
    else consume (dedup cs) vs

structure Constraint where
  commonName : Str
  dnsNames : List Str
  emails : List Str
  organizations : List Str
  roots : List Str
  uris : List Str
  deriving Repr, DecidableEq

/-- what the harness/x509 oracle knows about a certificate -/
structure CertInfo where
  commonName : Str
  dnsNames : List Str
  emails : List Str
  organizations : List Str
  uris : List Str
  chainOK : Bool            -- chains to a layout root via layout/caller intermediates, now
  deriving Repr, DecidableEq

/-- `CertificateConstraint.Check` (all six checks are evaluated, any failure is an error) -/
def constraintOK (c : Constraint) (ci : CertInfo) (rootIDs : List Str) : Bool :=
  attrOK [c.commonName] [ci.commonName] &&
  attrOK c.dnsNames ci.dnsNames &&
  attrOK c.emails ci.emails &&
  attrOK c.organizations ci.organizations &&
  (ci.chainOK && attrOK c.roots rootIDs) &&
  attrOK c.uris ci.uris

/-- `Step.CheckCertConstraints`: no constraint = reject; otherwise one satisfied constraint suffices -/
def stepCertOK (constraints : List Constraint) (ci : CertInfo) (rootIDs : List Str) : Bool :=
  constraints.any fun c => constraintOK c ci rootIDs

end InToto.Cert
