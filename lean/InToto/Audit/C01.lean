import InToto.Properties.C01
#print axioms InToto.C01.no_key_rejected
#print axioms InToto.C01.no_key_nothing_runs
