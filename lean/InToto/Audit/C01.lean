import InToto.Properties.C01
#print axioms InToto.C01.accepted_means_all_keys_verify
#print axioms InToto.C01.legacy_signature_binds_enforced_content
#print axioms InToto.C01.dsse_signature_over_stored_bytes
#print axioms InToto.C01.dsse_enforced_layout_is_signed_bytes
#print axioms InToto.C01.rejected_before_anything_runs
#print axioms InToto.C01.one_bad_key_rejects
#print axioms InToto.C01.key_order_irrelevant
#print axioms InToto.C01.no_key_rejected
#print axioms InToto.C01.signature_stage_example
#print axioms InToto.C01.facts_signatures_come_first
