import InToto.Properties.C13
#print axioms InToto.C13.normalized_has_no_cr
#print axioms InToto.C13.crlf_becomes_lf
#print axioms InToto.C13.cr_becomes_lf
#print axioms InToto.C13.other_bytes_kept
#print axioms InToto.C13.normalize_idempotent
#print axioms InToto.C13.normalize_identity_without_cr
#print axioms InToto.C13.file_symlink_always_followed
#print axioms InToto.C13.dir_symlink_only_on_request
#print axioms InToto.C13.unknown_algorithm_is_error
#print axioms InToto.C13.collision_after_strip_is_error
#print axioms InToto.C13.missing_path_error
#print axioms InToto.C13.recording_never_panics
#print axioms InToto.C13.match_products_exact
#print axioms InToto.C13.normalize_example
#print axioms InToto.C13.facts_hash_names
