import InToto.Properties.C15
#print axioms InToto.C15.verification_never_panics
#print axioms InToto.C15.reduce_panics_only_without_links
#print axioms InToto.C15.loading_never_panics
#print axioms InToto.C15.key_construction_never_panics
#print axioms InToto.C15.verify_signature_never_panics
#print axioms InToto.C15.signing_never_panics
#print axioms InToto.C15.rules_never_panic
#print axioms InToto.C15.inspections_never_panic
#print axioms InToto.C15.empty_rule_is_error
#print axioms InToto.C15.facts_steps_have_links_guard_position
