import InToto.Properties.C08
#print axioms InToto.C08.sublayout_verified_and_replaced
#print axioms InToto.C08.sublayouts_verified_all_steps
#print axioms InToto.C08.inner_failure_fails_parent
#print axioms InToto.C08.stage_error_is_inner_error
#print axioms InToto.C08.only_counted_evidence_is_followed
#print axioms InToto.C08.counted_evidence_is_authorized
#print axioms InToto.C08.no_sublayouts_no_effects
#print axioms InToto.C08.sublayout_dir_name
#print axioms InToto.C08.missing_subdir_is_empty
#print axioms InToto.C08.depth_positive
#print axioms InToto.C08.facts_sublayout_dir_format
#print axioms InToto.C08.acceptance_implies_sublayouts_accepted
#print axioms InToto.C08.summary_is_first_materials_last_products
#print axioms InToto.C08.recursion_bound_is_irrelevant
#print axioms InToto.C08.facts_sublayouts_stage_position
