import InToto.Properties.C08
#print axioms InToto.C08.sublayout_dir_name
#print axioms InToto.C08.missing_subdir_is_empty
#print axioms InToto.C08.depth_positive
#print axioms InToto.C08.facts_sublayout_dir_format
