import InToto.Properties.C12
#print axioms InToto.C12.link_roundtrip
#print axioms InToto.C12.layout_roundtrip
#print axioms InToto.C12.signatures_roundtrip
#print axioms InToto.C12.unknown_field_refused
#print axioms InToto.C12.wrong_type_refused_str
#print axioms InToto.C12.wrong_type_refused_int
#print axioms InToto.C12.absent_or_null_parts_refused
#print axioms InToto.C12.unknown_type_refused
#print axioms InToto.C12.link_missing_field_refused
#print axioms InToto.C12.layout_missing_field_refused
#print axioms InToto.C12.good_link_loads
#print axioms InToto.C12.unknown_field_example
#print axioms InToto.C12.missing_field_example
#print axioms InToto.C12.null_signatures_example
#print axioms InToto.C12.foreign_payload_type_example
