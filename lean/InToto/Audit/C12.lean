import InToto.Properties.C12
#print axioms InToto.C12.good_link_loads
#print axioms InToto.C12.unknown_field_example
#print axioms InToto.C12.missing_field_example
#print axioms InToto.C12.null_signatures_example
#print axioms InToto.C12.foreign_payload_type_example
