import InToto.Properties.C17
#print axioms InToto.C17.matchItems_iff
#print axioms InToto.C17.correct_ascii
#print axioms InToto.C17.malformed_matches_nothing
#print axioms InToto.C17.star_crosses_slash
#print axioms InToto.C17.bytewise_star_was_wrong
