import InToto.Properties.C17
#print axioms InToto.C17.matchItems_iff
#print axioms InToto.C17.correct_ascii
#print axioms InToto.C17.malformed_matches_nothing
#print axioms InToto.C17.star_crosses_slash
#print axioms InToto.C17.bytewise_star_was_wrong
#print axioms InToto.C17.correct_for_all_utf8
#print axioms InToto.C17.malformed_matches_nothing_utf8
#print axioms InToto.C17.ascii_is_a_special_case
#print axioms InToto.C17.question_mark_is_one_character
