import InToto.Properties.C06
#print axioms InToto.C06.accepted_is_future
#print axioms InToto.C06.unparseable_rejected
#print axioms InToto.C06.expired_rejected
#print axioms InToto.C06.accepted_means_not_expired
#print axioms InToto.C06.expired_rejected_nothing_runs
#print axioms InToto.C06.grammar_examples
#print axioms InToto.C06.facts_date_layout
