import InToto.Properties.C06
#print axioms InToto.C06.accepted_is_future
#print axioms InToto.C06.unparseable_rejected
#print axioms InToto.C06.expired_rejected
#print axioms InToto.C06.grammar_examples
