import InToto.Properties.C06
#print axioms InToto.C06.accepted_is_future
#print axioms InToto.C06.unparseable_rejected
#print axioms InToto.C06.expired_rejected
#print axioms InToto.C06.accepted_means_not_expired
#print axioms InToto.C06.expired_rejected_nothing_runs
#print axioms InToto.C06.grammar_examples
#print axioms InToto.C06.facts_date_layout
#print axioms InToto.C06.parse_iff_grammar
#print axioms InToto.C06.parsed_is_calendar_date
#print axioms InToto.C06.day_numbers_are_consecutive
#print axioms InToto.C06.earlier_stamp_is_smaller_instant
#print axioms InToto.C06.facts_expiry_before_links_and_inspections
