import InToto.Properties.C14
#print axioms InToto.C14.concurrent_drain_never_stuck
#print axioms InToto.C14.every_run_is_finite
#print axioms InToto.C14.returned_means_complete
#print axioms InToto.C14.content_accounts_for_every_byte
#print axioms InToto.C14.unstartable_command_is_an_error
#print axioms InToto.C14.sequential_drain_can_deadlock
#print axioms InToto.C14.exit_code_table
