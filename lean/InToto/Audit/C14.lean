import InToto.Properties.C14
#print axioms InToto.C14.concurrent_drain_never_stuck
#print axioms InToto.C14.every_run_is_finite
#print axioms InToto.C14.returned_means_complete
#print axioms InToto.C14.content_accounts_for_every_byte
#print axioms InToto.C14.unstartable_command_is_an_error
#print axioms InToto.C14.sequential_drain_can_deadlock
#print axioms InToto.C14.exit_code_table
#print axioms InToto.C14.descendants_returned_means_complete
#print axioms InToto.C14.descendants_concurrent_drain_never_stuck
#print axioms InToto.C14.descendants_every_run_is_finite
#print axioms InToto.C14.returns_only_after_every_holder_closed
#print axioms InToto.C14.a_live_descendant_holds_the_call_open
#print axioms InToto.C14.no_descendants_agrees_with_single_writer
#print axioms InToto.C14.sequential_drain_can_deadlock_after_command_exit
