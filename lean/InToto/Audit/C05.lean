import InToto.Properties.C05
#print axioms InToto.C05.reduced_is_agreed
#print axioms InToto.C05.disagreement_fails
#print axioms InToto.C05.reference_irrelevant
#print axioms InToto.C05.single_link
#print axioms InToto.C05.differing_products_example
#print axioms InToto.C05.acceptance_implies_agreement
#print axioms InToto.C05.disagreement_in_any_step_fails
#print axioms InToto.C05.rules_see_the_agreed_link
#print axioms InToto.C05.facts_reduce_before_rules
