import InToto.Properties.C05
#print axioms InToto.C05.single_link
#print axioms InToto.C05.differing_products_example
