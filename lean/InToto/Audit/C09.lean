import InToto.Properties.C09
#print axioms InToto.C09.no_inspections
#print axioms InToto.C09.empty_command_fails
#print axioms InToto.C09.unstartable_command_fails
