import InToto.Properties.C09
#print axioms InToto.C09.executed_in_layout_order
#print axioms InToto.C09.success_means_all_ran_with_exit_zero
#print axioms InToto.C09.bad_command_fails
#print axioms InToto.C09.first_inspection_snapshots
#print axioms InToto.C09.inspections_never_panic
#print axioms InToto.C09.no_inspections
#print axioms InToto.C09.empty_command_fails
#print axioms InToto.C09.unstartable_command_fails
#print axioms InToto.C09.acceptance_implies_all_inspections_ran
#print axioms InToto.C09.last_stage_runs_a_prefix
#print axioms InToto.C09.last_stage_accepts_iff
#print axioms InToto.C09.facts_inspections_after_step_checks
