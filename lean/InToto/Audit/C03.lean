import InToto.Properties.C03
#print axioms InToto.C03.interpreter_eq_spec
#print axioms InToto.C03.rules_never_panic
#print axioms InToto.C03.malformed_rule_is_error
#print axioms InToto.C03.queue_exact
#print axioms InToto.C03.run_append
#print axioms InToto.C03.disallow_iff
#print axioms InToto.C03.require_iff
#print axioms InToto.C03.terminal_disallow
#print axioms InToto.C03.goGlob_star
#print axioms InToto.C03.verdict_perm_invariant
#print axioms InToto.C03.match_needs_prefix
#print axioms InToto.C03.match_needs_equal_hash
#print axioms InToto.C03.unpack_simple
#print axioms InToto.C03.unpack_match6
#print axioms InToto.C03.unpack_match8_src
#print axioms InToto.C03.unpack_match10
#print axioms InToto.C03.unpack_ok_length
