import InToto.Properties.C03
#print axioms InToto.C03.interpreter_eq_spec
