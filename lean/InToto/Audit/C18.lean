import InToto.Properties.C18
#print axioms InToto.C18.examples
#print axioms InToto.C18.no_parameters
