import InToto.Properties.C18
#print axioms InToto.C18.replace_meets_spec
#print axioms InToto.C18.spec_functional
#print axioms InToto.C18.order_free
#print axioms InToto.C18.marker_replaced_once
#print axioms InToto.C18.other_text_unchanged
#print axioms InToto.C18.step_other_fields
#print axioms InToto.C18.inspection_other_fields
#print axioms InToto.C18.layout_other_fields
#print axioms InToto.C18.no_parameters
#print axioms InToto.C18.invalid_name_rejected
#print axioms InToto.C18.examples
#print axioms InToto.C18.facts_name_regexp
#print axioms InToto.C18.facts_substitution_before_use
