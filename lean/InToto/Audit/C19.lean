import InToto.Properties.C19
#print axioms InToto.C19.load_ok
#print axioms InToto.C19.forms_agree
#print axioms InToto.C19.halves
#print axioms InToto.C19.not_a_key_refused
#print axioms InToto.C19.default_schemes
#print axioms InToto.C19.scheme_table
#print axioms InToto.C19.loaded_scheme_consistent
#print axioms InToto.C19.facts_key_constants
#print axioms InToto.C19.preimage_example
#print axioms InToto.C19.same_preimage_same_description
#print axioms InToto.C19.preimage_exists
#print axioms InToto.C19.forms_same_identifier
