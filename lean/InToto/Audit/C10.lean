import InToto.Properties.C10
#print axioms InToto.C10.layout_key_order
#print axioms InToto.C10.link_map_order
#print axioms InToto.C10.reference_link_order
#print axioms InToto.C10.artifact_order
#print axioms InToto.C10.artifact_map_order
#print axioms InToto.C10.clean_up_survivor
#print axioms InToto.C10.match_rule_map_order
#print axioms InToto.C10.rule_verification_leaves_links_untouched
#print axioms InToto.C10.parameter_order
#print axioms InToto.C10.constraint_value_order
#print axioms InToto.C10.history_pointwise
