import InToto.Properties.C16
#print axioms InToto.C16.independent_calls_commute
#print axioms InToto.C16.facts_no_shared_writes
#print axioms InToto.C16.facts_no_process_global_calls
#print axioms InToto.C16.shared_write_breaks_independence
