import InToto.Properties.C04
#print axioms InToto.C04.sign_then_verify_succeeds
#print axioms InToto.C04.signing_again_keeps_earlier_valid
#print axioms InToto.C04.verify_needs_signature_over_current_content
#print axioms InToto.C04.accepted_signatures_come_from_signing
#print axioms InToto.C04.fails_after_content_change
#print axioms InToto.C04.fails_under_other_key
#print axioms InToto.C04.poke_changes_signed_bytes_or_nothing
#print axioms InToto.C04.stale_signature_fails_after_poke
#print axioms InToto.C04.history_never_panics
#print axioms InToto.C04.legacy_verifies_canonical_bytes
#print axioms InToto.C04.dsse_verifies_pae
#print axioms InToto.C04.pae_example
#print axioms InToto.C04.verify_never_panics
#print axioms InToto.C04.unrepresentable_content_is_never_signed
