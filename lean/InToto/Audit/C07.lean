import InToto.Properties.C07
#print axioms InToto.C07.attribute_exact
#print axioms InToto.C07.empty_demands_absent
#print axioms InToto.C07.unexpected_value_rejected
#print axioms InToto.C07.missing_value_rejected
#print axioms InToto.C07.attribute_perm
#print axioms InToto.C07.accepted_sound
#print axioms InToto.C07.no_constraints_reject
#print axioms InToto.C07.wildcard_root_complete
#print axioms InToto.C07.untrusted_rejected
#print axioms InToto.C07.examples
#print axioms InToto.C07.facts_wildcard
