import InToto.Properties.C07
#print axioms InToto.C07.no_constraints_reject
#print axioms InToto.C07.examples
