import InToto.Properties.C20
#print axioms InToto.C20.isPrefixOf_append_self
#print axioms InToto.C20.produced_name_is_loaded
#print axioms InToto.C20.other_names_not_loaded
#print axioms InToto.C20.facts_name_formats
#print axioms InToto.C20.facts_cli_argument_binding
