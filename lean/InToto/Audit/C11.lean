import InToto.Properties.C11
#print axioms InToto.C11.refuse_nonintegral_example
#print axioms InToto.C11.olpc_format_example
#print axioms InToto.C11.payload_escapes_control_example
