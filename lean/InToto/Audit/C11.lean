import InToto.Properties.C11
#print axioms InToto.C11.dsse_payload_parses_back
#print axioms InToto.C11.canonical_reads_back
#print axioms InToto.C11.canonical_injective
#print axioms InToto.C11.refuse_or_exact
#print axioms InToto.C11.refuse_nonintegral_example
#print axioms InToto.C11.olpc_format_example
#print axioms InToto.C11.payload_escapes_control_example
#print axioms InToto.C11.facts_struct_tags
#print axioms InToto.C11.facts_schema_is_model
#print axioms InToto.C11.facts_payload_type
#print axioms InToto.C11.link_encoding_injective
#print axioms InToto.C11.layout_encoding_injective
#print axioms InToto.C11.same_signed_bytes_same_link
#print axioms InToto.C11.same_signed_bytes_same_layout
#print axioms InToto.C11.fraction_has_no_signed_bytes
#print axioms InToto.C11.set_payload_refuses_fraction
#print axioms InToto.C11.refused_content_leaves_envelope_unchanged
