import InToto.Properties.C02
#print axioms InToto.C02.link_file_names
#print axioms InToto.C02.garbage_ignored
#print axioms InToto.C02.nothing_loaded_nothing_counted
