import InToto.Properties.C02
#print axioms InToto.C02.never_panics
#print axioms InToto.C02.counted_iff_authorized
#print axioms InToto.C02.counted_sound
#print axioms InToto.C02.authorized_always_counted
#print axioms InToto.C02.counted_ids_distinct
#print axioms InToto.C02.counted_order_independent
#print axioms InToto.C02.unsigned_never_counted
#print axioms InToto.C02.key_route_needs_valid_signature
#print axioms InToto.C02.link_file_names
#print axioms InToto.C02.garbage_ignored
#print axioms InToto.C02.facts_link_formats
