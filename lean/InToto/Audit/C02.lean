import InToto.Properties.C02
#print axioms InToto.C02.never_panics
#print axioms InToto.C02.counted_iff_authorized
#print axioms InToto.C02.counted_sound
#print axioms InToto.C02.authorized_always_counted
#print axioms InToto.C02.counted_ids_distinct
#print axioms InToto.C02.counted_order_independent
#print axioms InToto.C02.unsigned_never_counted
#print axioms InToto.C02.key_route_needs_valid_signature
#print axioms InToto.C02.link_file_names
#print axioms InToto.C02.garbage_ignored
#print axioms InToto.C02.facts_link_formats
#print axioms InToto.C02.acceptance_implies_thresholds_met
#print axioms InToto.C02.enough_counted_links_always_suffice
#print axioms InToto.C02.one_short_step_fails
#print axioms InToto.C02.pipeline_is_conjunction_of_stages
#print axioms InToto.C02.facts_thresholds_stage_position
