/-
Declarative specification of parameter substitution (property C18): one left-to-right pass,
a marker `{NAME}` with NAME a supplied parameter is replaced by its value, inserted text is
not rescanned, everything else is copied.
-/
import InToto.Model.Subst

namespace InToto.SubstSpec
open InToto InToto.Subst

def marker (name : Str) : Str := '{' :: name ++ ['}']

/-- `SubstRel P s out`: `out` is `s` with parameters `P` (name ↦ value) substituted. -/
inductive SubstRel (P : List (Str × Str)) : Str → Str → Prop where
  | nil : SubstRel P [] []
  | marker (name val rest out : Str) : (name, val) ∈ P → SubstRel P rest out →
      SubstRel P (marker name ++ rest) (val ++ out)
  | char (c : Char) (rest out : Str) :
      (∀ name val, (name, val) ∈ P → (marker name).isPrefixOf (c :: rest) = false) →
      SubstRel P rest out → SubstRel P (c :: rest) (c :: out)

/-- a parameter dictionary: valid names, each name once (it comes from a Go map) -/
def GoodParams (P : List (Str × Str)) : Prop :=
  (∀ p ∈ P, validName p.1 = true) ∧ (P.map Prod.fst).Nodup

end InToto.SubstSpec
