/-
Declarative specification of the documented glob grammar (property C17), over
sequences of code points (`Nat`).  `parsePat` is the grammar, `Matches` the
matching relation, `matchItems` an executable decision procedure for it (run in
the driver beside the model so that the *statement* of the main theorem is
itself tested on every correspondence run).
-/
namespace InToto.GlobSpec

inductive Item where
  | star                                   -- `*`  any sequence, including `/`
  | any                                    -- `?`  any single character
  | lit (c : Nat)                          -- a character matching itself (possibly escaped)
  | cls (neg : Bool) (rs : List (Nat × Nat))   -- `[...]` / `[^...]` with ranges lo-hi
  deriving Repr, DecidableEq

def cStar : Nat := 0x2A
def cQuest : Nat := 0x3F
def cLBr : Nat := 0x5B
def cRBr : Nat := 0x5D
def cCaret : Nat := 0x5E
def cDash : Nat := 0x2D
def cBsl : Nat := 0x5C

/-- One possibly escaped class member.  `-` and `]` must be escaped. -/
def getEscS : List Nat → Option (Nat × List Nat)
  | [] => none
  | c :: rest =>
    if c = cDash ∨ c = cRBr then none
    else if c = cBsl then
      match rest with
      | [] => none
      | d :: r => some (d, r)
    else some (c, rest)

/-- Ranges of one class up to and including the closing bracket; the class must be non-empty
    and must be terminated. -/
def parseRangesS : Nat → List Nat → List (Nat × Nat) → Option (List (Nat × Nat) × List Nat)
  | 0, _, _ => none
  | fuel + 1, chunk, acc =>
    match chunk with
    | [] => none
    | c :: rest =>
      if c = cRBr ∧ acc ≠ [] then some (acc.reverse, rest)
      else
        match getEscS chunk with
        | none => none
        | some (lo, c1) =>
          match c1 with
          | d :: r1 =>
            if d = cDash then
              match getEscS r1 with
              | none => none
              | some (hi, c2) => parseRangesS fuel c2 ((lo, hi) :: acc)
            else parseRangesS fuel c1 ((lo, lo) :: acc)
          | [] => none

def parsePatAux : Nat → List Nat → Option (List Item)
  | 0, _ => none
  | fuel + 1, p =>
    match p with
    | [] => some []
    | c :: rest =>
      if c = cStar then (parsePatAux fuel rest).map (Item.star :: ·)
      else if c = cQuest then (parsePatAux fuel rest).map (Item.any :: ·)
      else if c = cLBr then
        let nr : Bool × List Nat :=
          match rest with
          | x :: t => if x = cCaret then (true, t) else (false, rest)
          | [] => (false, rest)
        match parseRangesS (nr.2.length + 1) nr.2 [] with
        | none => none
        | some (rs, rest') => (parsePatAux fuel rest').map (Item.cls nr.1 rs :: ·)
      else if c = cBsl then
        match rest with
        | [] => none
        | d :: r => (parsePatAux fuel r).map (Item.lit d :: ·)
      else (parsePatAux fuel rest).map (Item.lit c :: ·)

/-- The documented grammar.  `none` = malformed pattern (dangling backslash, unterminated or
    empty class, range without an end, unescaped `-`/`]` as class member). -/
def parsePat (p : List Nat) : Option (List Item) := parsePatAux (p.length + 1) p

def inRanges (rs : List (Nat × Nat)) (c : Nat) : Bool := rs.any fun r => r.1 ≤ c && c ≤ r.2

def itemMatches : Item → Nat → Bool
  | .star, _ => false
  | .any, _ => true
  | .lit d, c => d == c
  | .cls neg rs, c => inRanges rs c != neg

/-- Whole-name matching relation. -/
inductive Matches : List Item → List Nat → Prop where
  | nil : Matches [] []
  | star (is : List Item) (skipped rest : List Nat) :
      Matches is rest → Matches (Item.star :: is) (skipped ++ rest)
  | one (it : Item) (is : List Item) (c : Nat) (rest : List Nat) :
      it ≠ Item.star → itemMatches it c = true → Matches is rest → Matches (it :: is) (c :: rest)

/-- All suffixes of a list, longest first. -/
def suffixes : List Nat → List (List Nat)
  | [] => [[]]
  | a :: t => (a :: t) :: suffixes t

/-- Executable decision procedure for `Matches` (structural on the item list). -/
def matchItems : List Item → List Nat → Bool
  | [], n => n.isEmpty
  | .star :: is, n => (suffixes n).any fun t => matchItems is t
  | it :: is, n =>
    match n with
    | c :: t => itemMatches it c && matchItems is t
    | [] => false

/-- The specification as a function: malformed patterns match nothing. -/
def specMatch (p n : List Nat) : Bool :=
  match parsePat p with
  | none => false
  | some is => matchItems is n

end InToto.GlobSpec
