/-
Declarative specification of the in-toto artifact-rule queue algorithm (property C03).

The spec is *pointwise*: for a rule and a single artifact it says whether the rule describes
(consumes) the artifact; for a rule and a queue whether the rule fails.  The interpreter of the
model (a loop over Go-style sets with in-place clean-up of maps) is proved equal to
"filter the queue by `consumes`, rule after rule" in Proofs/Rules.lean (links with clean artifact
names) and Proofs/RulesAllNames.lean (all links: the spec applies to the links with cleaned names).
-/
import InToto.Model.Rules

namespace InToto.RulesSpec
open InToto InToto.Rules

/-- Everything a rule list of one item/artifact-type is evaluated against. -/
structure Env where
  glob : Str → Str → Bool
  ctx : Ctx                       -- links by step/inspection name
  srcName : Str                -- the item whose artifacts are checked
  srcType : ArtType               -- materials or products round
  created : List Str           -- products \ materials
  deleted : List Str           -- materials \ products
  modified : List Str          -- in both, hash sets differ

def Env.srcArts (E : Env) : Arts := ctxArts E.ctx E.srcName E.srcType

/-- MATCH: `a` lies under the source prefix, its remainder matches the pattern, and the referenced
    step's link has the correspondingly named artifact (destination prefix + remainder) with an
    equal hash object. -/
def matchConsumes (E : Env) (p sp dp : Str) (dt : ArtType) (dn : Str) (a : Str) : Bool :=
  match lookup dn E.ctx with
  | some (some dst) =>
    let spn := normPrefix sp
    let dpn := normPrefix dp
    let base := trimPrefix a spn
    let dstPath := Path.clean (join2 dpn base)
    (spn = [] || spn.isPrefixOf a) &&
    E.glob (if p = [] then [] else Path.clean p) base &&
    artsHas (sel dt dst) dstPath &&
    (artsGet E.srcArts a == artsGet (sel dt dst) dstPath)
  | _ => false

/-- Does rule `r` describe (and therefore consume) artifact `a`? -/
def consumes (E : Env) : Rule → Str → Bool
  | .simple .allow p, a => E.glob (Path.clean p) a
  | .simple .create p, a => E.glob (Path.clean p) a && E.created.contains a
  | .simple .delete p, a => E.glob (Path.clean p) a && E.deleted.contains a
  | .simple .modify p, a => E.glob (Path.clean p) a && E.modified.contains a
  | .simple .disallow _, _ => false
  | .simple .require _, _ => false
  | .mtch p sp dp dt dn, a => matchConsumes E p sp dp dt dn a

/-- Does rule `r` fail on queue `q`?  DISALLOW: a matching artifact is still unconsumed;
    REQUIRE: the named artifact is no longer in the queue. -/
def fails (E : Env) : Rule → List Str → Bool
  | .simple .disallow p, q => q.any fun a => E.glob (Path.clean p) a
  | .simple .require f, q => !q.contains f
  | _, _ => false

/-- The queue algorithm of the specification: rules in order, each consumes exactly the queued
    artifacts it describes; `none` = verification fails. -/
def run (E : Env) : List Rule → List Str → Option (List Str)
  | [], q => some q
  | r :: rs, q => if fails E r q then none else run E rs (q.filter fun a => !consumes E r a)

/-- Parsing of a whole rule list; `none` if any rule fits none of the formats. -/
def parseAll : List (List Str) → Option (List Rule)
  | [] => some []
  | r :: rs =>
    match unpackRule r, parseAll rs with
    | .ok x, some xs => some (x :: xs)
    | _, _ => none

def CleanArts (a : Arts) : Prop := ∀ k ∈ artsKeys a, Path.clean k = k

/-- All artifact names recorded in the links are clean paths (what `RecordArtifacts` yields for
    directory roots); then the clean-up of names (`cleanArts`) is the identity. -/
def CleanCtx (ctx : Ctx) : Prop :=
  ∀ e ∈ ctx, ∀ l, e.2 = some l → CleanArts l.materials ∧ CleanArts l.products

end InToto.RulesSpec
