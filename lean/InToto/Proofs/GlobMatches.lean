import InToto.Spec.Glob

/-!
Lemmas about the declarative matching relation `Matches` only (no model involved).
-/
namespace InToto.GlobProofs
open InToto.GlobSpec

theorem mem_suffixes (t n : List Nat) : t ∈ suffixes n ↔ ∃ s, n = s ++ t := by
  induction n with
  | nil =>
    simp only [suffixes, List.mem_singleton]
    constructor
    · intro h; exact ⟨[], by simp [h]⟩
    · rintro ⟨s, hs⟩
      have := congrArg List.length hs
      simp at this
      exact List.eq_nil_of_length_eq_zero (by omega)
  | cons a n ih =>
    simp only [suffixes, List.mem_cons, ih]
    constructor
    · rintro (h | ⟨s, hs⟩)
      · exact ⟨[], by simp [h]⟩
      · exact ⟨a :: s, by simp [hs]⟩
    · rintro ⟨s, hs⟩
      cases s with
      | nil => left; simpa using hs.symm
      | cons b s =>
        right
        simp only [List.cons_append, List.cons.injEq] at hs
        exact ⟨s, hs.2⟩

theorem matches_cons_inv {it : Item} {is : List Item} {n : List Nat} (h : Matches (it :: is) n) :
    (it = Item.star ∧ ∃ s t, n = s ++ t ∧ Matches is t) ∨
    (it ≠ Item.star ∧ ∃ c t, n = c :: t ∧ itemMatches it c = true ∧ Matches is t) := by
  generalize hl : it :: is = l at h
  cases h with
  | nil => cases hl
  | star is' s t hm =>
    cases hl
    exact Or.inl ⟨rfl, s, t, rfl, hm⟩
  | one it' is' c t hne h1 h2 =>
    cases hl
    exact Or.inr ⟨hne, c, t, rfl, h1, h2⟩

theorem matches_nil_inv {n : List Nat} (h : Matches [] n) : n = [] := by
  generalize hl : ([] : List Item) = l at h
  cases h with
  | nil => rfl
  | star => cases hl
  | one => cases hl

theorem matchItems_iff_matches (is : List Item) (n : List Nat) :
    matchItems is n = true ↔ Matches is n := by
  induction is generalizing n with
  | nil =>
    simp only [matchItems]
    constructor
    · intro h
      have : n = [] := by simpa using h
      subst this; exact Matches.nil
    · intro h; rw [matches_nil_inv h]; rfl
  | cons it is ih =>
    by_cases hs : it = Item.star
    · subst hs
      simp only [matchItems, List.any_eq_true]
      constructor
      · rintro ⟨t, ht, hm⟩
        obtain ⟨s, rfl⟩ := (mem_suffixes t n).1 ht
        exact Matches.star is s t ((ih t).1 hm)
      · intro h
        rcases matches_cons_inv h with ⟨_, s, t, rfl, hm⟩ | ⟨hne, _⟩
        · exact ⟨t, (mem_suffixes t _).2 ⟨s, rfl⟩, (ih t).2 hm⟩
        · exact absurd rfl hne
    · have hunf : matchItems (it :: is) n =
          (match n with | c :: t => itemMatches it c && matchItems is t | [] => false) := by
        cases it <;> first | exact absurd rfl hs | rfl
      rw [hunf]
      cases n with
      | nil =>
        simp only [Bool.false_eq_true, false_iff]
        intro h
        rcases matches_cons_inv h with ⟨h1, _⟩ | ⟨_, c, t, h2, _⟩
        · exact hs h1
        · cases h2
      | cons c t =>
        simp only [Bool.and_eq_true]
        constructor
        · rintro ⟨h1, h2⟩
          exact Matches.one it is c t hs h1 ((ih t).1 h2)
        · intro h
          rcases matches_cons_inv h with ⟨h1, _⟩ | ⟨_, c', t', h2, h3, h4⟩
          · exact absurd h1 hs
          · cases h2
            exact ⟨h3, (ih t).2 h4⟩

/-- `Matches` for a star-prefixed list is monotone under prepending characters. -/
theorem matches_star_prepend (is : List Item) (x t : List Nat)
    (h : Matches (Item.star :: is) t) : Matches (Item.star :: is) (x ++ t) := by
  rcases matches_cons_inv h with ⟨_, s, r, rfl, hm⟩ | ⟨hne, _⟩
  · rw [← List.append_assoc]
    exact Matches.star is (x ++ s) r hm
  · exact absurd rfl hne

theorem matches_star_iff (is : List Item) (n : List Nat) :
    Matches (Item.star :: is) n ↔ ∃ s t, n = s ++ t ∧ Matches is t := by
  constructor
  · intro h
    rcases matches_cons_inv h with ⟨_, s, r, rfl, hm⟩ | ⟨hne, _⟩
    · exact ⟨s, r, rfl, hm⟩
    · exact absurd rfl hne
  · rintro ⟨s, t, rfl, hm⟩
    exact Matches.star is s t hm

theorem matches_star_self (is : List Item) (n : List Nat) (h : Matches is n) :
    Matches (Item.star :: is) n := by
  have := Matches.star is [] n h
  simpa using this

/-- A run of `k` stars. -/
theorem matches_stars_iff (k : Nat) (is : List Item) (n : List Nat) :
    Matches (List.replicate k Item.star ++ is) n ↔
      if k = 0 then Matches is n else ∃ s t, n = s ++ t ∧ Matches is t := by
  induction k generalizing n with
  | zero => simp
  | succ k ih =>
    simp only [List.replicate_succ, List.cons_append, Nat.add_eq_zero_iff, Nat.succ_ne_self,
      and_false, ↓reduceIte]
    rw [matches_star_iff]
    constructor
    · rintro ⟨s, t, rfl, hm⟩
      rw [ih] at hm
      split at hm
      · exact ⟨s, t, rfl, hm⟩
      · obtain ⟨s', t', rfl, hm'⟩ := hm
        exact ⟨s ++ s', t', by simp, hm'⟩
    · rintro ⟨s, t, rfl, hm⟩
      refine ⟨s, t, rfl, ?_⟩
      rw [ih]
      split
      · exact hm
      · exact ⟨[], t, rfl, hm⟩

end InToto.GlobProofs
