import InToto.Model.Verify

/-!
C13 (before/after discipline of `InTotoRun` and `InTotoRecordStart` … `Stop`): lemmas about the
model's flat directory under writes and deletions.
-/

namespace InToto.SnapProofs
open InToto InToto.Verify

theorem lookup_fsDel (fs : FS) (q p : Str) : lookup p (fsDel fs q) = if p = q then none else lookup p fs := by
  induction fs with
  | nil => simp [fsDel, lookup]
  | cons a t ih =>
    obtain ⟨k, v⟩ := a
    unfold fsDel at ih ⊢
    rw [List.filter_cons]
    by_cases hk : k = q
    · subst hk
      simp only [ne_eq, not_true_eq_false, decide_false, Bool.false_eq_true, if_false]
      rw [ih]
      by_cases hp : p = k
      · simp [hp]
      · have : ¬ k = p := fun h => hp h.symm
        simp [hp, lookup, this]
    · simp only [ne_eq, hk, not_false_eq_true, decide_true, if_true]
      unfold lookup
      by_cases hkp : k = p
      · subst hkp; simp [hk]
      · simp only [hkp, if_false]; exact ih

theorem lookup_fsSet (fs : FS) (q d p : Str) : lookup p (fsSet fs q d) = if p = q then some d else lookup p fs := by
  induction fs with
  | nil =>
    unfold fsSet
    by_cases hp : p = q
    · simp [Schema.setAssoc, lookup, hp]
    · have : ¬ q = p := fun h => hp h.symm
      simp [Schema.setAssoc, lookup, hp, this]
  | cons a t ih =>
    obtain ⟨k, v⟩ := a
    unfold fsSet at ih ⊢
    by_cases hk : k = q
    · subst hk
      by_cases hp : p = k
      · subst hp; simp [Schema.setAssoc, lookup]
      · simp [Schema.setAssoc, lookup, hp, Ne.symm hp]
    · by_cases hkp : k = p
      · subst hkp; simp [Schema.setAssoc, lookup, hk]
      · by_cases hp : p = q
        · subst hp; simp [Schema.setAssoc, lookup, hk, ih]
        · simp [Schema.setAssoc, lookup, hk, hkp, ih, hp]

theorem lookup_dels (dels : List Str) (fs : FS) (p : Str) :
    lookup p (dels.foldl fsDel fs) = if p ∈ dels then none else lookup p fs := by
  induction dels generalizing fs with
  | nil => simp
  | cons q rest ih =>
    rw [List.foldl_cons, ih, lookup_fsDel]
    by_cases h1 : p ∈ rest
    · simp [h1]
    · by_cases h2 : p = q
      · simp [h2]
      · simp [h1, h2]

theorem lookup_sets_untouched (sets : List (Str × Str)) (fs : FS) (p : Str) (h : p ∉ sets.map Prod.fst) :
    lookup p (sets.foldl (fun f e => fsSet f e.1 e.2) fs) = lookup p fs := by
  induction sets generalizing fs with
  | nil => rfl
  | cons e rest ih =>
    rw [List.foldl_cons, ih _ (fun hh => h (by simp [hh])), lookup_fsSet]
    have : p ≠ e.1 := fun hh => h (by simp [hh])
    simp [this]

theorem lookup_sets_last (pre post : List (Str × Str)) (fs : FS) (p d : Str) (h : p ∉ post.map Prod.fst) :
    lookup p ((pre ++ (p, d) :: post).foldl (fun f e => fsSet f e.1 e.2) fs) = some d := by
  rw [List.foldl_append, List.foldl_cons, lookup_sets_untouched post _ p h, lookup_fsSet]
  simp

end InToto.SnapProofs
