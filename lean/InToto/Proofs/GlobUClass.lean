import InToto.Proofs.GlobUEnc
import InToto.Proofs.Glob

/-!
Class level over UTF-8: `getEsc` / `parseRanges` (model, on encoded bytes) versus `getEscS` /
`parseRangesS` (spec, on code points), via token grammars over CODE POINTS: `MemberU` (one possibly
escaped class member) and `CBodyU` (the ranges of a class up to and including the closing bracket).
This is the ASCII development (`GlobClass.lean`) with "one byte" replaced by "one encoded rune".
-/
namespace InToto.GlobUtf8
open InToto.Glob InToto.GlobSpec InToto.GlobProofs

/-! ### getEsc -/

theorem getEsc_cons (c : UInt8) (rest : Bytes) :
    getEsc (c :: rest) =
      if c == Glob.cDash || c == Glob.cRBr then none
      else
        let chunk' := if c == Glob.cBsl then rest else c :: rest
        if chunk' = [] then none
        else
          let d := decodeRune chunk'
          if d.1 == runeError && d.2 == 1 then none
          else if (chunk'.drop d.2).isEmpty then none else some (d.1, chunk'.drop d.2) := by
  simp only [getEsc]
  by_cases h1 : (c == Glob.cDash || c == Glob.cRBr) = true
  · simp only [h1, ↓reduceIte]
  · simp only [h1]
    by_cases hb : (c == Glob.cBsl) = true
    · simp only [hb, ↓reduceIte]
      cases rest with
      | nil => rfl
      | cons x r => simp
    · simp [hb]

theorem herr_false (x : Nat) : (x == runeError && (enc x).length == 1) = false := by
  have := enc_not_err x
  cases h : (x == runeError && (enc x).length == 1) with
  | false => rfl
  | true => simp at h; exact absurd h this

/-- `getEsc` on `\` followed by an encoded scalar value. -/
theorem getEsc_enc_esc' (x : Nat) (hx : Sc x) (y : Bytes) :
    getEsc (Glob.cBsl :: (enc x ++ y)) = if y.isEmpty then none else some (x, y) := by
  rw [getEsc_cons]
  have h1 : (Glob.cBsl == Glob.cDash || Glob.cBsl == Glob.cRBr) = false := by decide
  have hne : enc x ++ y ≠ [] := by simp [enc_ne_nil]
  simp only [h1, Bool.false_eq_true, ↓reduceIte, beq_self_eq_true, hne, decodeRune_enc x hx,
    herr_false, drop_enc]

theorem getEsc_enc_esc (x : Nat) (hx : Sc x) (y : Bytes) (hy : y ≠ []) :
    getEsc (Glob.cBsl :: (enc x ++ y)) = some (x, y) := by
  rw [getEsc_enc_esc' x hx y]
  cases y with
  | nil => exact absurd rfl hy
  | cons _ _ => rfl

/-- `getEsc` on an encoded scalar value other than `-`, `]`, `\`. -/
theorem getEsc_enc_plain' (c : Nat) (hc : Sc c) (h1 : c ≠ GlobSpec.cDash) (h2 : c ≠ GlobSpec.cRBr)
    (h3 : c ≠ GlobSpec.cBsl) (y : Bytes) :
    getEsc (enc c ++ y) = if y.isEmpty then none else some (c, y) := by
  obtain ⟨b, tl, he, hd, _, _⟩ := enc_head c hc
  have e1 : (b == Glob.cDash) = false := by simpa using fun h => h1 (hd.eq_cDash.1 h)
  have e2 : (b == Glob.cRBr) = false := by simpa using fun h => h2 (hd.eq_cRBr.1 h)
  have e3 : (b == Glob.cBsl) = false := by simpa using fun h => h3 (hd.eq_cBsl.1 h)
  have herr := herr_false c
  have hdec := decodeRune_enc c hc y
  have hdrop := drop_enc c y
  rw [he] at herr
  rw [he, List.cons_append] at hdec hdrop ⊢
  rw [getEsc_cons]
  simp only [e1, e2, e3, Bool.or_self, Bool.false_eq_true, ↓reduceIte, reduceCtorEq, hdec, herr,
    hdrop]

theorem getEsc_enc_plain (c : Nat) (hc : Sc c) (h1 : c ≠ GlobSpec.cDash) (h2 : c ≠ GlobSpec.cRBr)
    (h3 : c ≠ GlobSpec.cBsl) (y : Bytes) (hy : y ≠ []) :
    getEsc (enc c ++ y) = some (c, y) := by
  rw [getEsc_enc_plain' c hc h1 h2 h3 y]
  cases y with
  | nil => exact absurd rfl hy
  | cons _ _ => rfl

theorem getEsc_dash (y : Bytes) : getEsc (Glob.cDash :: y) = none := by
  rw [getEsc_cons]; simp

theorem getEsc_rbr (y : Bytes) : getEsc (Glob.cRBr :: y) = none := by
  rw [getEsc_cons]; simp

/-! ### class members -/

/-- One class member token (over code points): `\x` or a single character other than `-`, `]`,
    `\`. -/
inductive MemberU : List Nat → Nat → Prop where
  | esc (x : Nat) : Sc x → MemberU [GlobSpec.cBsl, x] x
  | plain (c : Nat) : Sc c → c ≠ GlobSpec.cDash → c ≠ GlobSpec.cRBr → c ≠ GlobSpec.cBsl →
      MemberU [c] c

theorem MemberU.head {t : List Nat} {lo : Nat} (h : MemberU t lo) :
    ∃ c tl, t = c :: tl ∧ c ≠ GlobSpec.cDash ∧ c ≠ GlobSpec.cRBr := by
  cases h with
  | esc x hx => exact ⟨_, _, rfl, by decide, by decide⟩
  | plain c hc h1 h2 h3 => exact ⟨_, _, rfl, h1, h2⟩

theorem MemberU.length_pos {t : List Nat} {lo : Nat} (h : MemberU t lo) : 0 < t.length := by
  cases h <;> simp

theorem MemberU.sc {t : List Nat} {lo : Nat} (h : MemberU t lo) : AllSc t := by
  cases h with
  | esc x hx => exact allSc_cons sc_cBsl (allSc_cons hx allSc_nil)
  | plain c hc => exact allSc_cons hc allSc_nil

theorem getEsc_member {t : List Nat} {lo : Nat} (h : MemberU t lo) (y : Bytes) (hy : y ≠ []) :
    getEsc (encs t ++ y) = some (lo, y) := by
  cases h with
  | esc _ hx =>
    have := getEsc_enc_esc lo hx y hy
    simpa using this
  | plain _ hc h1 h2 h3 =>
    have := getEsc_enc_plain lo hc h1 h2 h3 y hy
    simpa using this

theorem getEsc_inv {q : List Nat} (hq : AllSc q) {lo : Nat} {rest : Bytes}
    (h : getEsc (encs q) = some (lo, rest)) :
    ∃ t q', q = t ++ q' ∧ rest = encs q' ∧ MemberU t lo ∧ q' ≠ [] := by
  cases q with
  | nil => simp [getEsc] at h
  | cons c q1 =>
    have hc := hq.cons.1
    have hq1 := hq.cons.2
    by_cases hb : c = GlobSpec.cBsl
    · subst hb
      cases q1 with
      | nil => simp [getEsc_cons, Glob.cBsl, Glob.cDash, Glob.cRBr] at h
      | cons x q2 =>
        have hx := hq1.cons.1
        simp only [encs_cons, enc_cBsl, List.cons_append, List.nil_append] at h
        rw [getEsc_enc_esc' x hx] at h
        split at h
        · cases h
        · rename_i hne
          simp only [Option.some.injEq, Prod.mk.injEq] at h
          obtain ⟨rfl, rfl⟩ := h
          refine ⟨[GlobSpec.cBsl, x], q2, rfl, rfl, MemberU.esc x hx, ?_⟩
          intro h0; subst h0; simp at hne
    · by_cases h1 : c = GlobSpec.cDash
      · subst h1
        simp [getEsc_dash] at h
      · by_cases h2 : c = GlobSpec.cRBr
        · subst h2
          simp [getEsc_rbr] at h
        · simp only [encs_cons] at h
          rw [getEsc_enc_plain' c hc h1 h2 hb] at h
          split at h
          · cases h
          · rename_i hne
            simp only [Option.some.injEq, Prod.mk.injEq] at h
            obtain ⟨rfl, rfl⟩ := h
            refine ⟨[c], q1, rfl, rfl, MemberU.plain c hc h1 h2 hb, ?_⟩
            intro h0; subst h0; simp at hne

theorem getEscS_member {t : List Nat} {lo : Nat} (h : MemberU t lo) (y : List Nat) :
    getEscS (t ++ y) = some (lo, y) := by
  cases h with
  | esc _ hx =>
    simp [getEscS, GlobSpec.cBsl, GlobSpec.cDash, GlobSpec.cRBr]
  | plain _ hc h1 h2 h3 =>
    simp [getEscS, h1, h2, h3]

theorem getEscS_inv {q : List Nat} (hq : AllSc q) {lo : Nat} {rest : List Nat}
    (h : getEscS q = some (lo, rest)) : ∃ t, q = t ++ rest ∧ MemberU t lo := by
  cases q with
  | nil => simp [getEscS] at h
  | cons c q1 =>
    have hc := hq.cons.1
    have hq1 := hq.cons.2
    by_cases hb : c = GlobSpec.cBsl
    · subst hb
      cases q1 with
      | nil => simp [getEscS, GlobSpec.cBsl, GlobSpec.cDash, GlobSpec.cRBr] at h
      | cons x q2 =>
        have hx := hq1.cons.1
        simp [getEscS, GlobSpec.cBsl, GlobSpec.cDash, GlobSpec.cRBr] at h
        obtain ⟨h1, h2⟩ := h
        subst h1 h2
        exact ⟨[GlobSpec.cBsl, x], rfl, MemberU.esc x hx⟩
    · by_cases h1 : c = GlobSpec.cDash
      · simp [getEscS, h1] at h
      · by_cases h2 : c = GlobSpec.cRBr
        · simp [getEscS, h2] at h
        · simp [getEscS, hb, h1, h2] at h
          obtain ⟨h3, h4⟩ := h
          subst h3 h4
          exact ⟨[c], rfl, MemberU.plain c hc h1 h2 hb⟩

/-- The first byte of a non-empty encoded sequence. -/
theorem encs_head {c : Nat} (hc : Sc c) (tl : List Nat) (y : Bytes) :
    ∃ b R, encs (c :: tl) ++ y = b :: R ∧ Hd c b := by
  obtain ⟨b, t, he, hd, _, _⟩ := enc_head c hc
  exact ⟨b, t ++ (encs tl ++ y), by simp [he], hd⟩

/-! ### class bodies -/

/-- The ranges of a class up to and including the closing bracket (over code points).  The flag
    says whether the closing bracket may come first. -/
inductive CBodyU : Bool → List Nat → List (Nat × Nat) → Prop where
  | close : CBodyU true [GlobSpec.cRBr] []
  | single (b : Bool) {t : List Nat} {lo : Nat} {body : List Nat} {rs : List (Nat × Nat)} :
      MemberU t lo → CBodyU true body rs → CBodyU b (t ++ body) ((lo, lo) :: rs)
  | range (b : Bool) {t1 t2 : List Nat} {lo hi : Nat} {body : List Nat} {rs : List (Nat × Nat)} :
      MemberU t1 lo → MemberU t2 hi → CBodyU true body rs →
      CBodyU b (t1 ++ GlobSpec.cDash :: (t2 ++ body)) ((lo, hi) :: rs)

theorem CBodyU.head {b : Bool} {body : List Nat} {rs : List (Nat × Nat)} (h : CBodyU b body rs) :
    ∃ c tl, body = c :: tl ∧ c ≠ GlobSpec.cDash ∧ (b = false → c ≠ GlobSpec.cRBr) := by
  cases h with
  | close => exact ⟨_, _, rfl, by decide, by simp⟩
  | single b hm _ =>
    obtain ⟨c, tl, rfl, h1, h2⟩ := hm.head
    exact ⟨c, _, rfl, h1, fun _ => h2⟩
  | range b hm _ _ =>
    obtain ⟨c, tl, rfl, h1, h2⟩ := hm.head
    exact ⟨c, _, rfl, h1, fun _ => h2⟩

theorem CBodyU.weaken {b : Bool} {body : List Nat} {rs : List (Nat × Nat)} (h : CBodyU b body rs) :
    CBodyU true body rs := by
  cases h with
  | close => exact CBodyU.close
  | single b hm hb => exact CBodyU.single true hm hb
  | range b h1 h2 hb => exact CBodyU.range true h1 h2 hb

theorem CBodyU.sc {b : Bool} {body : List Nat} {rs : List (Nat × Nat)} (h : CBodyU b body rs) :
    AllSc body := by
  induction h with
  | close => exact allSc_cons sc_cRBr allSc_nil
  | single b hm _ ih => exact hm.sc.append ih
  | range b h1 h2 _ ih =>
    exact h1.sc.append (allSc_cons sc_cDash (h2.sc.append ih))

/-! byte-level steps of `parseRanges` -/

theorem parseRanges_close (f : Nat) (y : Bytes) (r : Nat) (m : Bool) (nr : Nat) (h : 0 < nr) :
    parseRanges (f + 1) (Glob.cRBr :: y) r m nr = some (m, y) := by
  simp [parseRanges, h]

theorem parseRanges_single (f : Nat) (b : UInt8) (R : Bytes) (b' : UInt8) (R' : Bytes)
    (lo r : Nat) (m : Bool) (nr : Nat) (hb : b ≠ Glob.cRBr)
    (hg : getEsc (b :: R) = some (lo, b' :: R')) (hb' : b' ≠ Glob.cDash) :
    parseRanges (f + 1) (b :: R) r m nr =
      parseRanges f (b' :: R') r (m || (lo ≤ r && r ≤ lo)) (nr + 1) := by
  rw [parseRanges]
  simp [hb, hg, hb']

theorem parseRanges_range (f : Nat) (b : UInt8) (R R' R'' : Bytes)
    (lo hi r : Nat) (m : Bool) (nr : Nat) (hb : b ≠ Glob.cRBr)
    (hg : getEsc (b :: R) = some (lo, Glob.cDash :: R')) (hg2 : getEsc R' = some (hi, R'')) :
    parseRanges (f + 1) (b :: R) r m nr =
      parseRanges f R'' r (m || (lo ≤ r && r ≤ hi)) (nr + 1) := by
  rw [parseRanges]
  simp [hb, hg, hg2]

/-- Model, forward: an encoded class body is consumed by `parseRanges`, whatever follows. -/
theorem parseRanges_cbody {b : Bool} {body : List Nat} {rs : List (Nat × Nat)}
    (h : CBodyU b body rs) :
    ∀ (fuel : Nat) (y : Bytes) (r : Nat) (m : Bool) (nr : Nat),
      (b = true → 0 < nr) → body.length ≤ fuel →
      parseRanges fuel (encs body ++ y) r m nr = some (m || inRanges rs r, y) := by
  induction h with
  | close =>
    intro fuel y r m nr hb hf
    cases fuel with
    | zero => simp at hf
    | succ f =>
      simp only [encs_cons, enc_cRBr, encs_nil, List.append_nil, List.cons_append,
        List.nil_append]
      rw [parseRanges_close f y r m nr (hb rfl), inRanges_nil, Bool.or_false]
  | @single b t lo body rs hm hbody ih =>
    intro fuel y r m nr hb hf
    cases fuel with
    | zero =>
      have := hm.length_pos
      simp only [List.length_append] at hf; omega
    | succ f =>
      have hlen := hm.length_pos
      obtain ⟨c, tl, rfl, h1, h2⟩ := hm.head
      obtain ⟨d, tl', rfl, hd, _⟩ := hbody.head
      obtain ⟨b0, R, hX, hd0⟩ := encs_head (hm.sc.cons.1) (tl ++ d :: tl') y
      obtain ⟨b1, R1, hX1, hd1⟩ := encs_head (hbody.sc.cons.1) tl' y
      have hg := getEsc_member hm (encs (d :: tl') ++ y) (by rw [hX1]; simp)
      have hX' : encs (c :: tl ++ d :: tl') ++ y = b0 :: R := by simpa using hX
      have hg' : getEsc (b0 :: R) = some (lo, b1 :: R1) := by
        rw [← hX', ← hX1, ← hg]; simp
      rw [hX', parseRanges_single f b0 R b1 R1 lo r m nr (fun h => h2 (hd0.eq_cRBr.1 h)) hg'
        (fun h => hd (hd1.eq_cDash.1 h)), ← hX1,
        ih f y r (m || (lo ≤ r && r ≤ lo)) (nr + 1) (fun _ => by omega)
          (by simp at hf ⊢; omega),
        inRanges_cons, Bool.or_assoc]
  | @range b t1 t2 lo hi body rs hm1 hm2 hbody ih =>
    intro fuel y r m nr hb hf
    cases fuel with
    | zero =>
      have := hm1.length_pos
      simp only [List.length_append] at hf; omega
    | succ f =>
      have hlen := hm1.length_pos
      obtain ⟨c, tl, rfl, h1, h2⟩ := hm1.head
      obtain ⟨d, tl', rfl, hd, _⟩ := hbody.head
      obtain ⟨b0, R, hX, hd0⟩ :=
        encs_head (hm1.sc.cons.1) (tl ++ GlobSpec.cDash :: (t2 ++ d :: tl')) y
      have hX' : encs (c :: tl ++ GlobSpec.cDash :: (t2 ++ d :: tl')) ++ y = b0 :: R := by
        simpa using hX
      have hg := getEsc_member hm1 (Glob.cDash :: (encs t2 ++ (encs (d :: tl') ++ y))) (by simp)
      have hg2 := getEsc_member hm2 (encs (d :: tl') ++ y)
        (by simp [enc_ne_nil])
      have hg' : getEsc (b0 :: R) =
          some (lo, Glob.cDash :: (encs t2 ++ (encs (d :: tl') ++ y))) := by
        rw [← hX', ← hg]; simp
      rw [hX', parseRanges_range f b0 R _ _ lo hi r m nr (fun h => h2 (hd0.eq_cRBr.1 h)) hg' hg2,
        ih f y r (m || (lo ≤ r && r ≤ hi)) (nr + 1) (fun _ => by omega)
          (by simp at hf ⊢; omega),
        inRanges_cons, Bool.or_assoc]

/-- Model, converse: whatever `parseRanges` accepts on an encoded sequence is an encoded class
    body, and what remains is again an encoded sequence (the class ends at a rune boundary). -/
theorem parseRanges_inv : ∀ (fuel : Nat) (q : List Nat), AllSc q → ∀ (r : Nat) (m : Bool) (nr : Nat)
    (m' : Bool) (rest : Bytes), parseRanges fuel (encs q) r m nr = some (m', rest) →
    ∃ body rs q', q = body ++ q' ∧ rest = encs q' ∧ CBodyU (decide (0 < nr)) body rs ∧
      m' = (m || inRanges rs r) := by
  intro fuel
  induction fuel with
  | zero => intro q hq r m nr m' rest h; simp [parseRanges] at h
  | succ f ih =>
    intro q hq r m nr m' rest h
    cases q with
    | nil => simp [parseRanges] at h
    | cons c q1 =>
      obtain ⟨b, tl, he, hd, htl, hasc⟩ := enc_head c hq.cons.1
      have hfold : encs (c :: q1) = b :: (tl ++ encs q1) := by simp [he]
      rw [hfold, parseRanges] at h
      split at h
      · rename_i hclose
        simp only [Bool.and_eq_true, beq_iff_eq, decide_eq_true_eq] at hclose
        simp only [Option.some.injEq, Prod.mk.injEq] at h
        obtain ⟨rfl, rfl⟩ := h
        have hc : c = GlobSpec.cRBr := hd.eq_cRBr.1 hclose.1
        have htl0 : tl = [] := hasc (by rw [hc]; decide)
        subst htl0
        refine ⟨[GlobSpec.cRBr], [], q1, by simp [hc], by simp, ?_, by simp [inRanges_nil]⟩
        have : decide (0 < nr) = true := by simp; exact hclose.2
        rw [this]; exact CBodyU.close
      · split at h
        · cases h
        · rename_i lo chunk1 hg
          rw [← hfold] at hg
          obtain ⟨t, q', hqt, hc1, hm, hne⟩ := getEsc_inv hq hg
          subst hc1
          have hq' : AllSc q' := by rw [hqt] at hq; exact hq.append_right
          cases q' with
          | nil => exact absurd rfl hne
          | cons d q'' =>
            obtain ⟨b', tl', he', hd', htl', hasc'⟩ := enc_head d hq'.cons.1
            have hfold' : encs (d :: q'') = b' :: (tl' ++ encs q'') := by simp [he']
            rw [hfold'] at h
            simp only at h
            split at h
            · rename_i hdash
              simp only [beq_iff_eq] at hdash
              have hdd : d = GlobSpec.cDash := hd'.eq_cDash.1 hdash
              have htl0 : tl' = [] := hasc' (by rw [hdd]; decide)
              subst htl0
              simp only [List.nil_append] at h
              split at h
              · cases h
              · rename_i hi chunk2 hg2
                obtain ⟨t2, q3, hqt2, hc2, hm2, hne2⟩ := getEsc_inv hq'.cons.2 hg2
                subst hc2
                have hq3 : AllSc q3 := by
                  have := hq'.cons.2; rw [hqt2] at this; exact this.append_right
                obtain ⟨body, rs, q4, hb, hrest, hcb, hm'⟩ := ih q3 hq3 _ _ _ _ _ h
                refine ⟨t ++ GlobSpec.cDash :: (t2 ++ body), (lo, hi) :: rs, q4, ?_, hrest, ?_, ?_⟩
                · rw [hqt, hdd, hqt2, hb]; simp
                · exact CBodyU.range _ hm hm2 (by simpa using hcb)
                · rw [hm', inRanges_cons, Bool.or_assoc]
            · rw [← hfold'] at h
              obtain ⟨body, rs, q4, hb, hrest, hcb, hm'⟩ := ih _ hq' _ _ _ _ _ h
              refine ⟨t ++ body, (lo, lo) :: rs, q4, ?_, hrest, ?_, ?_⟩
              · rw [hqt, hb]; simp
              · exact CBodyU.single _ hm (by simpa using hcb)
              · rw [hm', inRanges_cons, Bool.or_assoc]

/-- Spec, forward. -/
theorem parseRangesS_cbody {b : Bool} {body : List Nat} {rs : List (Nat × Nat)}
    (h : CBodyU b body rs) :
    ∀ (fuel : Nat) (y : List Nat) (acc : List (Nat × Nat)),
      (b = true → acc ≠ []) → body.length ≤ fuel →
      parseRangesS fuel (body ++ y) acc = some (acc.reverse ++ rs, y) := by
  induction h with
  | close =>
    intro fuel y acc hb hf
    cases fuel with
    | zero => simp at hf
    | succ f => simp [parseRangesS, hb rfl]
  | @single b t lo body rs hm hbody ih =>
    intro fuel y acc hb hf
    cases fuel with
    | zero =>
      have := hm.length_pos
      simp only [List.length_append] at hf; omega
    | succ f =>
      have hlen := hm.length_pos
      have hg := getEscS_member hm (body ++ y)
      obtain ⟨c, tl, rfl, h1, h2⟩ := hm.head
      obtain ⟨d, tl', rfl, hd, _⟩ := hbody.head
      simp only [List.append_assoc, List.cons_append] at hg ⊢
      rw [parseRangesS]
      simp only [hg, h2, false_and, ↓reduceIte, hd]
      have := ih f y ((lo, lo) :: acc) (fun _ => by simp) (by simp at hf ⊢; omega)
      simp only [List.cons_append] at this
      rw [this]
      simp
  | @range b t1 t2 lo hi body rs hm1 hm2 hbody ih =>
    intro fuel y acc hb hf
    cases fuel with
    | zero =>
      have := hm1.length_pos
      simp only [List.length_append] at hf; omega
    | succ f =>
      have hlen := hm1.length_pos
      have hg := getEscS_member hm1 ((GlobSpec.cDash :: (t2 ++ body)) ++ y)
      have hg2 := getEscS_member hm2 (body ++ y)
      obtain ⟨c, tl, rfl, h1, h2⟩ := hm1.head
      obtain ⟨d, tl', rfl, hd, _⟩ := hbody.head
      simp only [List.append_assoc, List.cons_append] at hg hg2 ⊢
      rw [parseRangesS]
      simp only [hg, hg2, h2, false_and, ↓reduceIte]
      have := ih f y ((lo, hi) :: acc) (fun _ => by simp) (by simp at hf ⊢; omega)
      simp only [List.cons_append] at this
      rw [this]
      simp

/-- Spec, converse. -/
theorem parseRangesS_inv : ∀ (fuel : Nat) (q : List Nat), AllSc q → ∀ (acc : List (Nat × Nat))
    (rs' : List (Nat × Nat)) (rest : List Nat),
    parseRangesS fuel q acc = some (rs', rest) →
    ∃ body rs, q = body ++ rest ∧
      CBodyU (decide (acc ≠ [])) body rs ∧ rs' = acc.reverse ++ rs := by
  intro fuel
  induction fuel with
  | zero => intro q hq acc rs' rest h; simp [parseRangesS] at h
  | succ f ih =>
    intro q hq acc rs' rest h
    cases q with
    | nil => simp [parseRangesS] at h
    | cons c q1 =>
      rw [parseRangesS] at h
      split at h
      · rename_i hclose
        simp only [Option.some.injEq, Prod.mk.injEq] at h
        obtain ⟨rfl, rfl⟩ := h
        refine ⟨[GlobSpec.cRBr], [], by simp [hclose.1], ?_, by simp⟩
        have : decide (acc ≠ []) = true := by simp; exact hclose.2
        rw [this]; exact CBodyU.close
      · split at h
        · cases h
        · rename_i lo chunk1 hg
          obtain ⟨t, hqt, hm⟩ := getEscS_inv hq hg
          have hc1 : AllSc chunk1 := by rw [hqt] at hq; exact hq.append_right
          cases chunk1 with
          | nil => simp at h
          | cons d rest1 =>
            simp only at h
            split at h
            · rename_i hd
              subst hd
              split at h
              · cases h
              · rename_i hi chunk2 hg2
                obtain ⟨t2, hqt2, hm2⟩ := getEscS_inv hc1.cons.2 hg2
                have hc2 : AllSc chunk2 := by
                  have := hc1.cons.2; rw [hqt2] at this; exact this.append_right
                obtain ⟨body, rs, hb, hcb, hrs⟩ := ih chunk2 hc2 _ _ _ h
                refine ⟨t ++ GlobSpec.cDash :: (t2 ++ body), (lo, hi) :: rs, ?_, ?_, ?_⟩
                · rw [hqt, hqt2, hb]; simp
                · exact CBodyU.range _ hm hm2 (by simpa using hcb)
                · rw [hrs]; simp
            · obtain ⟨body, rs, hb, hcb, hrs⟩ := ih _ hc1 _ _ _ h
              refine ⟨t ++ body, (lo, lo) :: rs, ?_, ?_, ?_⟩
              · rw [hqt, hb]; simp
              · exact CBodyU.single _ hm (by simpa using hcb)
              · rw [hrs]; simp

/-! ### `scan` on encoded runes -/

/-- `scan` steps over bytes `≥ 0x80` (continuation and lead bytes of multi-byte encodings). -/
theorem scan_high (l : Bytes) (hl : ∀ x ∈ l, 128 ≤ x.toNat) (y : Bytes) (inr : Bool) :
    scan (l ++ y) inr = l.length + scan y inr := by
  induction l with
  | nil => simp
  | cons x l ih =>
    obtain ⟨h1, _, h3, h4, _, _, h7⟩ := high_ne_special (hl x (by simp))
    rw [List.cons_append, scan_cons]
    simp only [beq_iff_eq, h7, h3, h4, h1, ↓reduceIte]
    rw [ih (fun z hz => hl z (by simp [hz]))]
    simp only [List.length_cons]; omega

/-- `scan` steps over `\` followed by an encoded rune: the byte after `\` is skipped blindly, the
    remaining bytes of the rune are `≥ 0x80`. -/
theorem scan_esc (x : Nat) (hx : Sc x) (y : Bytes) (inr : Bool) :
    scan (Glob.cBsl :: (enc x ++ y)) inr = (1 + (enc x).length) + scan y inr := by
  obtain ⟨b, tl, he, _, htl, _⟩ := enc_head x hx
  rw [he, scan_cons]
  simp only [beq_self_eq_true, ↓reduceIte, List.cons_append]
  rw [scan_high tl htl]
  simp only [List.length_cons]; omega

/-- Inside brackets `scan` steps over every encoded rune except `]` and `\`. -/
theorem scan_enc_in (c : Nat) (hc : Sc c) (h2 : c ≠ GlobSpec.cRBr) (h3 : c ≠ GlobSpec.cBsl)
    (y : Bytes) : scan (enc c ++ y) true = (enc c).length + scan y true := by
  obtain ⟨b, tl, he, hd, htl, _⟩ := enc_head c hc
  have e2 : b ≠ Glob.cRBr := fun h => h2 (hd.eq_cRBr.1 h)
  have e3 : b ≠ Glob.cBsl := fun h => h3 (hd.eq_cBsl.1 h)
  rw [he, List.cons_append, scan_cons]
  simp only [beq_iff_eq, e3, e2, ↓reduceIte, Bool.not_true, Bool.false_eq_true]
  have := scan_high tl htl y true
  simp only [List.length_cons]
  split <;> (try split) <;> omega

/-- Outside brackets `scan` steps over every encoded rune except `[`, `*` and `\`. -/
theorem scan_enc_out (c : Nat) (hc : Sc c) (h1 : c ≠ GlobSpec.cStar) (h2 : c ≠ GlobSpec.cLBr)
    (h3 : c ≠ GlobSpec.cBsl) (y : Bytes) :
    scan (enc c ++ y) false = (enc c).length + scan y false := by
  obtain ⟨b, tl, he, hd, htl, _⟩ := enc_head c hc
  have e1 : b ≠ Glob.cStar := fun h => h1 (hd.eq_cStar.1 h)
  have e2 : b ≠ Glob.cLBr := fun h => h2 (hd.eq_cLBr.1 h)
  have e3 : b ≠ Glob.cBsl := fun h => h3 (hd.eq_cBsl.1 h)
  rw [he, List.cons_append, scan_cons]
  simp only [beq_iff_eq, e3, e2, e1, ↓reduceIte]
  have := scan_high tl htl y false
  simp only [List.length_cons]
  split <;> omega

theorem scan_member {t : List Nat} {lo : Nat} (h : MemberU t lo) (y : Bytes) :
    scan (encs t ++ y) true = (encs t).length + scan y true := by
  cases h with
  | esc _ hx =>
    have := scan_esc lo hx y true
    simpa [Nat.add_comm] using this
  | plain _ hc h1 h2 h3 =>
    have := scan_enc_in lo hc h2 h3 y
    simpa using this

theorem scan_cbody {b : Bool} {body : List Nat} {rs : List (Nat × Nat)} (h : CBodyU b body rs)
    (y : Bytes) : scan (encs body ++ y) true = (encs body).length + scan y false := by
  induction h with
  | close => simp [scan_cons, Glob.cBsl, Glob.cLBr, Glob.cRBr]
  | single b hm _ ih =>
    rw [encs_append, List.append_assoc, scan_member hm, ih, List.length_append]; omega
  | range b h1 h2 _ ih =>
    rw [encs_append, List.append_assoc, scan_member h1, encs_cons, enc_cDash, List.append_assoc,
      List.singleton_append, scan_dash, encs_append, List.append_assoc, scan_member h2, ih]
    simp only [List.length_append, List.length_cons, List.length_nil]; omega

end InToto.GlobUtf8
