/-
Number literals: `parseNum` reads `renderInt i` back (helper lemmas for InToto/Proofs/Json.lean).
-/
import InToto.Model.Json

namespace InToto.JsonProofs
open InToto InToto.Json

/-- the rest of the input does not continue a number token -/
def NumEnd (rest : Str) : Prop :=
  ∀ c t, rest = c :: t → isDigit c = false ∧ c ≠ '.' ∧ c ≠ 'e' ∧ c ≠ 'E'

theorem digitChar_facts : ∀ d : Fin 10,
    isDigit (Char.ofNat (48 + d.val)) = true ∧ (Char.ofNat (48 + d.val)).toNat - 48 = d.val ∧
    (Char.ofNat (48 + d.val) = '0' → d.val = 0) ∧ Char.ofNat (48 + d.val) ≠ '-' := by decide

theorem isDigit_digitChar (d : Nat) (h : d < 10) : isDigit (Char.ofNat (48 + d)) = true :=
  (digitChar_facts ⟨d, h⟩).1

theorem digitChar_val (d : Nat) (h : d < 10) : (Char.ofNat (48 + d)).toNat - 48 = d :=
  (digitChar_facts ⟨d, h⟩).2.1

theorem digitChar_zero (d : Nat) (h : d < 10) (hz : Char.ofNat (48 + d) = '0') : d = 0 :=
  (digitChar_facts ⟨d, h⟩).2.2.1 hz

theorem natDigits_ne_nil (fuel n : Nat) (h : n < fuel) : natDigits fuel n ≠ [] := by
  cases fuel with
  | zero => omega
  | succ f =>
    unfold natDigits
    split <;> simp

theorem natDigits_all (fuel n : Nat) : ∀ c ∈ natDigits fuel n, isDigit c = true := by
  induction fuel generalizing n with
  | zero => simp [natDigits]
  | succ f ih =>
    unfold natDigits
    split
    · intro c hc
      simp at hc
      subst hc
      exact isDigit_digitChar n (by assumption)
    · intro c hc
      simp at hc
      rcases hc with hc | hc
      · exact ih _ c hc
      · subst hc
        exact isDigit_digitChar _ (by omega)

theorem digitsVal_snoc (ds : Str) (c : Char) :
    digitsVal (ds ++ [c]) = digitsVal ds * 10 + (c.toNat - 48) := by
  simp [digitsVal, List.foldl_append]

theorem digitsVal_natDigits (fuel n : Nat) (h : n < fuel) : digitsVal (natDigits fuel n) = n := by
  induction fuel generalizing n with
  | zero => omega
  | succ f ih =>
    unfold natDigits
    split
    · rename_i h10
      simp [digitsVal, digitChar_val n h10]
    · rw [digitsVal_snoc, ih (n / 10) (by omega), digitChar_val _ (by omega)]
      omega

theorem natDigits_head_zero (fuel n : Nat) (h : n < fuel)
    (hz : (natDigits fuel n).head? = some '0') : n = 0 := by
  induction fuel generalizing n with
  | zero => omega
  | succ f ih =>
    unfold natDigits at hz
    split at hz
    · rename_i h10
      simp at hz
      exact digitChar_zero n h10 hz
    · have hne := natDigits_ne_nil f (n / 10) (by omega)
      obtain ⟨x, xs, hx⟩ := List.exists_cons_of_ne_nil hne
      have hz' : (natDigits f (n / 10)).head? = some '0' := by
        rw [hx] at hz ⊢
        simpa using hz
      have := ih (n / 10) (by omega) hz'
      omega

theorem takeDigits_append (ds rest : Str) (hds : ∀ c ∈ ds, isDigit c = true)
    (hend : ∀ c t, rest = c :: t → isDigit c = false) :
    takeDigits (ds ++ rest) = (ds, rest) := by
  induction ds with
  | nil =>
    cases rest with
    | nil => simp [takeDigits]
    | cons c t => simp [takeDigits, hend c t rfl]
  | cons d ds ih =>
    have hd : isDigit d = true := hds d (by simp)
    have := ih (fun c hc => hds c (by simp [hc]))
    simp [takeDigits, hd, this]

theorem isDigit_ne_minus (c : Char) (h : isDigit c = true) : c ≠ '-' := by
  intro hc
  subst hc
  revert h
  decide

/-- the body of `parseNum` after the optional sign -/
def parseNumCore (neg : Bool) (r0 : Str) : Option (JVal × Str) :=
  let (ds, r1) := takeDigits r0
  if ds = [] then none
  else if ds.length > 1 ∧ ds.head? = some '0' then none
  else
    let isFrac := match r1 with | '.' :: _ => true | 'e' :: _ => true | 'E' :: _ => true | _ => false
    if isFrac then
      let (fr, r2) := match r1 with
        | '.' :: t => let (fd, r) := takeDigits t; (if fd = [] then none else some ('.' :: fd), r)
        | _ => (some [], r1)
      match fr with
      | none => none
      | some frs =>
        let (ex, r3) := match r2 with
          | e :: t =>
            if e = 'e' ∨ e = 'E' then
              let (sg, t') := match t with | '+' :: u => (['+'], u) | '-' :: u => (['-'], u) | _ => ([], t)
              let (ed, r) := takeDigits t'
              (if ed = [] then none else some (e :: sg ++ ed), r)
            else (some [], r2)
          | [] => (some [], r2)
        match ex with
        | none => none
        | some exs => some (.frac ((if neg then ['-'] else []) ++ ds ++ frs ++ exs), r3)
    else
      let n : Int := digitsVal ds
      some (.num (if neg then -n else n), r1)

theorem parseNum_neg (t : Str) : parseNum ('-' :: t) = parseNumCore true t := by
  unfold parseNum parseNumCore
  rfl

theorem parseNum_pos (inp : Str) (h : ∀ t, inp ≠ '-' :: t) : parseNum inp = parseNumCore false inp := by
  unfold parseNum parseNumCore
  split
  rename_i heq
  split at heq
  · exact absurd rfl (h _)
  · cases heq; rfl

theorem parseNumCore_int (neg : Bool) (ds rest : Str) (hds : ∀ c ∈ ds, isDigit c = true) (hne : ds ≠ [])
    (hlead : ¬(ds.length > 1 ∧ ds.head? = some '0')) (hend : NumEnd rest) :
    parseNumCore neg (ds ++ rest) =
      some (.num (if neg then -(digitsVal ds : Int) else (digitsVal ds : Int)), rest) := by
  have htd : takeDigits (ds ++ rest) = (ds, rest) :=
    takeDigits_append ds rest hds (fun c t h => (hend c t h).1)
  unfold parseNumCore
  rw [htd]
  simp only [hne, ↓reduceIte, hlead]
  cases rest with
  | nil => simp
  | cons c t =>
    obtain ⟨_, h1, h2, h3⟩ := hend c t rfl
    simp [h1, h2, h3]

/-- `parseNum` on a well-formed integer literal followed by a non-number character -/
theorem parseNum_digits (neg : Bool) (ds rest : Str) (hds : ∀ c ∈ ds, isDigit c = true) (hne : ds ≠ [])
    (hlead : ¬(ds.length > 1 ∧ ds.head? = some '0')) (hend : NumEnd rest) :
    parseNum ((if neg then ['-'] else []) ++ ds ++ rest) =
      some (.num (if neg then -(digitsVal ds : Int) else (digitsVal ds : Int)), rest) := by
  cases neg with
  | true =>
    simp only [↓reduceIte, List.cons_append, List.nil_append, parseNum_neg]
    exact parseNumCore_int true ds rest hds hne hlead hend
  | false =>
    obtain ⟨d, ds', rfl⟩ := List.exists_cons_of_ne_nil hne
    have hd : d ≠ '-' := isDigit_ne_minus d (hds d (by simp))
    simp only [Bool.false_eq_true, ↓reduceIte, List.nil_append]
    rw [parseNum_pos _ (by intro t ht; simp at ht; exact hd ht.1)]
    exact parseNumCore_int false (d :: ds') rest hds (by simp) hlead hend

theorem renderNat_parse (neg : Bool) (n : Nat) (rest : Str) (hend : NumEnd rest) :
    parseNum ((if neg then ['-'] else []) ++ renderNat n ++ rest) =
      some (.num (if neg then -(n : Int) else (n : Int)), rest) := by
  have h := parseNum_digits neg (renderNat n) rest (natDigits_all _ _) (natDigits_ne_nil _ _ (by omega))
    (by
      rintro ⟨h1, h2⟩
      have := natDigits_head_zero (n + 1) n (by omega) h2
      subst this
      simp [renderNat, natDigits] at h1) hend
  rw [h]
  simp [renderNat, digitsVal_natDigits (n + 1) n (by omega)]

/-- number lemma: `parseNum` reads `renderInt i` back -/
theorem parseNum_renderInt (i : Int) (rest : Str) (hend : NumEnd rest) :
    parseNum (renderInt i ++ rest) = some (.num i, rest) := by
  cases i with
  | ofNat n =>
    have := renderNat_parse false n rest hend
    simpa [renderInt] using this
  | negSucc n =>
    have := renderNat_parse true (n + 1) rest hend
    simp only [↓reduceIte] at this
    simp only [renderInt]
    rw [show ('-' :: renderNat (n + 1) ++ rest) = (['-'] ++ renderNat (n + 1) ++ rest) by simp, this]
    rfl

end InToto.JsonProofs
