import InToto.Model.Verify

namespace InToto.PipeProofs
open InToto InToto.Json InToto.Schema InToto.Metadata InToto.Verify

/-- the declarative reading of "authorized for the step and validly signing":
    key route ∨ certificate route -/
def Authorized (W : World) (layout : TVal) (st : Step) (rootIDs : List Str) (signer : Str) (md : Md) : Prop :=
  (signer ∈ st.pubkeys ∧ ∃ k, lookup signer (layoutKeys layout) = some k ∧ mdVerify W md k = .ok ()) ∨
  (∃ s cd, sigFor md signer = some s ∧ s.cert ≠ [] ∧ W.cert s.cert = some cd ∧
      Cert.stepCertOK st.constraints cd.info rootIDs = true ∧ cd.key.keyid = signer ∧
      mdVerify W md cd.key = .ok ())

/-- the public-key route of `linkAuthorized` -/
private def keyRoute (W : World) (layout : TVal) (st : Step) (signer : Str) (md : Md) : Outcome Bool :=
  if st.pubkeys.contains signer then
    match lookup signer (layoutKeys layout) with
    | some k =>
      match mdVerify W md k with
      | .ok () => .ok true
      | .err _ => .ok false
      | .panic e => .panic e
    | none => .ok false
  else .ok false

/-- the certificate route of `linkAuthorized` -/
private def certRoute (W : World) (st : Step) (rootIDs : List Str) (signer : Str) (md : Md) : Outcome Bool :=
  match sigFor md signer with
  | none => .ok false
  | some s =>
    if s.cert = [] then .ok false
    else
      match W.cert s.cert with
      | none => .ok false
      | some cd =>
        if !Cert.stepCertOK st.constraints cd.info rootIDs then .ok false
        else if cd.key.keyid ≠ signer then .ok false
        else
          match mdVerify W md cd.key with
          | .ok () => .ok true
          | .err _ => .ok false
          | .panic e => .panic e

private theorem linkAuthorized_eq (W : World) (layout : TVal) (st : Step) (rootIDs : List Str) (signer : Str) (md : Md) :
    linkAuthorized W layout st rootIDs signer md =
      match keyRoute W layout st signer md with
      | .ok true => .ok true
      | .panic e => .panic e
      | .err e => .err e
      | .ok false => certRoute W st rootIDs signer md := rfl

private def KeyAuth (W : World) (layout : TVal) (st : Step) (signer : Str) (md : Md) : Prop :=
  signer ∈ st.pubkeys ∧ ∃ k, lookup signer (layoutKeys layout) = some k ∧ mdVerify W md k = .ok ()

private def CertAuth (W : World) (st : Step) (rootIDs : List Str) (signer : Str) (md : Md) : Prop :=
  ∃ s cd, sigFor md signer = some s ∧ s.cert ≠ [] ∧ W.cert s.cert = some cd ∧
      Cert.stepCertOK st.constraints cd.info rootIDs = true ∧ cd.key.keyid = signer ∧
      mdVerify W md cd.key = .ok ()

private theorem keyRoute_spec (W : World) (layout : TVal) (st : Step) (signer : Str) (md : Md)
    (hnp : ∀ k, (mdVerify W md k).isPanic = false) :
    (keyRoute W layout st signer md = .ok true ∧ KeyAuth W layout st signer md) ∨
    (keyRoute W layout st signer md = .ok false ∧ ¬ KeyAuth W layout st signer md) := by
  unfold keyRoute KeyAuth
  by_cases hc : signer ∈ st.pubkeys
  · cases hl : lookup signer (layoutKeys layout) with
    | none => simp [hc]
    | some k =>
      cases hv : mdVerify W md k with
      | ok u => simp [hc, hv]
      | err e => simp [hc, hv]
      | panic e => have := hnp k; rw [hv] at this; simp [Outcome.isPanic] at this
  · simp [hc]

private theorem certRoute_spec (W : World) (st : Step) (rootIDs : List Str) (signer : Str) (md : Md)
    (hnp : ∀ k, (mdVerify W md k).isPanic = false) :
    (certRoute W st rootIDs signer md = .ok true ∧ CertAuth W st rootIDs signer md) ∨
    (certRoute W st rootIDs signer md = .ok false ∧ ¬ CertAuth W st rootIDs signer md) := by
  unfold certRoute CertAuth
  cases hs : sigFor md signer with
  | none => simp
  | some s =>
    by_cases hc : s.cert = []
    · simp [hc]
    · cases hw : W.cert s.cert with
      | none => simp [hc, hw]
      | some cd =>
        by_cases h1 : Cert.stepCertOK st.constraints cd.info rootIDs = true
        · by_cases h2 : cd.key.keyid = signer
          · cases hv : mdVerify W md cd.key with
            | ok u => simp [hc, hw, h1, h2, hv]
            | err e => simp [hc, hw, h1, h2, hv]
            | panic e => have := hnp cd.key; rw [hv] at this; simp [Outcome.isPanic] at this
          · simp [hc, hw, h1, h2]
        · simp [hc, hw, h1]

theorem linkAuthorized_no_err (W : World) (layout : TVal) (st : Step) (rootIDs : List Str) (signer : Str) (md : Md)
    (hnp : ∀ k, (mdVerify W md k).isPanic = false) :
    ∃ b, linkAuthorized W layout st rootIDs signer md = .ok b := by
  rw [linkAuthorized_eq]
  rcases keyRoute_spec W layout st signer md hnp with ⟨hk, _⟩ | ⟨hk, _⟩
  · rw [hk]; exact ⟨_, rfl⟩
  · rw [hk]
    rcases certRoute_spec W st rootIDs signer md hnp with ⟨hc, _⟩ | ⟨hc, _⟩ <;> exact ⟨_, hc⟩

/-- the per-link decision is exactly the declarative notion (given that verification cannot panic) -/
theorem linkAuthorized_iff (W : World) (layout : TVal) (st : Step) (rootIDs : List Str) (signer : Str) (md : Md)
    (hnp : ∀ k, (mdVerify W md k).isPanic = false) :
    linkAuthorized W layout st rootIDs signer md = .ok true ↔ Authorized W layout st rootIDs signer md := by
  rw [linkAuthorized_eq]
  show _ ↔ (KeyAuth W layout st signer md ∨ CertAuth W st rootIDs signer md)
  rcases keyRoute_spec W layout st signer md hnp with ⟨hk, ha⟩ | ⟨hk, ha⟩
  · rw [hk]; simp [ha]
  · rw [hk]
    rcases certRoute_spec W st rootIDs signer md hnp with ⟨hc, hb⟩ | ⟨hc, hb⟩
    · simp [hc, hb]
    · simp [hc, ha, hb]

private theorem fold_filter {α} (p : α → Bool) (f : Outcome (List α) → α → Outcome (List α))
    (hf1 : ∀ l a, p a = true → f (.ok l) a = .ok (l ++ [a]))
    (hf2 : ∀ l a, p a = false → f (.ok l) a = .ok l) (l acc : List α) :
    l.foldl f (.ok acc) = .ok (acc ++ l.filter p) := by
  induction l generalizing acc with
  | nil => simp
  | cons a rest ih =>
    cases h : p a with
    | true => simp [List.foldl_cons, hf1 _ _ h, ih, h]
    | false => simp [List.foldl_cons, hf2 _ _ h, ih, h]

/-- the counted links are exactly the loaded links that are authorized, in the same order -/
theorem verifiedLinks_eq_filter (W : World) (layout : TVal) (st : Step) (rootIDs : List Str)
    (links : List (Str × Md)) (hnp : ∀ md k, (mdVerify W md k).isPanic = false) :
    verifiedLinks W layout st rootIDs links =
      .ok (links.filter fun kv => decide (linkAuthorized W layout st rootIDs kv.1 kv.2 = .ok true)) := by
  unfold verifiedLinks
  rw [fold_filter (p := fun kv => decide (linkAuthorized W layout st rootIDs kv.1 kv.2 = .ok true))]
  · simp
  · intro l kv h
    simp only [decide_eq_true_eq] at h
    simp only [h]
  · intro l kv h
    simp only [decide_eq_false_iff_not] at h
    obtain ⟨b, hb⟩ := linkAuthorized_no_err W layout st rootIDs kv.1 kv.2 (hnp kv.2)
    cases b with
    | true => exact absurd hb h
    | false => simp only [hb]

/-- C02 soundness: every counted link is one of the loaded links and is authorized -/
theorem verifiedLinks_sound (W : World) (layout : TVal) (st : Step) (rootIDs : List Str)
    (links v : List (Str × Md)) (hnp : ∀ md k, (mdVerify W md k).isPanic = false)
    (h : verifiedLinks W layout st rootIDs links = .ok v) :
    ∀ kv ∈ v, kv ∈ links ∧ Authorized W layout st rootIDs kv.1 kv.2 := by
  rw [verifiedLinks_eq_filter W layout st rootIDs links hnp] at h
  injection h with h
  subst h
  intro kv hkv
  rw [List.mem_filter, decide_eq_true_eq, linkAuthorized_iff _ _ _ _ _ _ (hnp kv.2)] at hkv
  exact hkv

/-- C02 completeness: every loaded link that is authorized is counted, whatever else was loaded -/
theorem verifiedLinks_complete (W : World) (layout : TVal) (st : Step) (rootIDs : List Str)
    (links v : List (Str × Md)) (hnp : ∀ md k, (mdVerify W md k).isPanic = false)
    (h : verifiedLinks W layout st rootIDs links = .ok v) :
    ∀ kv ∈ links, Authorized W layout st rootIDs kv.1 kv.2 → kv ∈ v := by
  rw [verifiedLinks_eq_filter W layout st rootIDs links hnp] at h
  injection h with h
  subst h
  intro kv hkv ha
  rw [List.mem_filter, decide_eq_true_eq, linkAuthorized_iff _ _ _ _ _ _ (hnp kv.2)]
  exact ⟨hkv, ha⟩

/-- distinct functionaries: the key ids of the counted links are pairwise distinct whenever those
    of the loaded links are -/
theorem verifiedLinks_nodup (W : World) (layout : TVal) (st : Step) (rootIDs : List Str)
    (links v : List (Str × Md)) (hnp : ∀ md k, (mdVerify W md k).isPanic = false)
    (h : verifiedLinks W layout st rootIDs links = .ok v) (hn : (links.map Prod.fst).Nodup) :
    (v.map Prod.fst).Nodup := by
  rw [verifiedLinks_eq_filter W layout st rootIDs links hnp] at h
  injection h with h
  subst h
  exact List.Sublist.nodup (List.Sublist.map _ List.filter_sublist) hn

/-- map iteration order: the NUMBER of counted links (what the threshold looks at) and their set do
    not depend on the order in which the loaded links are visited -/
theorem verifiedLinks_perm (W : World) (layout : TVal) (st : Step) (rootIDs : List Str)
    (l₁ l₂ v₁ v₂ : List (Str × Md)) (hp : l₁.Perm l₂) (hnp : ∀ md k, (mdVerify W md k).isPanic = false)
    (h1 : verifiedLinks W layout st rootIDs l₁ = .ok v₁) (h2 : verifiedLinks W layout st rootIDs l₂ = .ok v₂) :
    v₁.Perm v₂ := by
  rw [verifiedLinks_eq_filter W layout st rootIDs _ hnp] at h1 h2
  injection h1 with h1
  injection h2 with h2
  subst h1 h2
  exact hp.filter _

private theorem setAssoc_keys {β} (k : Str) (v : β) (l : List (Str × β)) :
    (Schema.setAssoc k v l).map Prod.fst =
      if k ∈ l.map Prod.fst then l.map Prod.fst else l.map Prod.fst ++ [k] := by
  induction l with
  | nil => simp [Schema.setAssoc]
  | cons a rest ih =>
    obtain ⟨k', v'⟩ := a
    unfold Schema.setAssoc
    by_cases h : k' = k
    · simp [h]
    · have h' : ¬ k = k' := fun e => h e.symm
      simp only [h, if_false, List.map_cons, ih, List.mem_cons, h', false_or]
      split <;> simp

private theorem setAssoc_nodup {β} (k : Str) (v : β) (l : List (Str × β))
    (h : (l.map Prod.fst).Nodup) : ((Schema.setAssoc k v l).map Prod.fst).Nodup := by
  rw [setAssoc_keys]
  split
  · exact h
  · rename_i hk
    rw [List.nodup_append]
    refine ⟨h, by simp, ?_⟩
    intro a ha b hb
    simp at hb
    subst hb
    intro e; subst e; exact hk ha

private theorem foldl_inv {α β} (P : β → Prop) (f : β → α → β) (h : ∀ b a, P b → P (f b a))
    (l : List α) (b : β) (hb : P b) : P (l.foldl f b) := by
  induction l generalizing b with
  | nil => exact hb
  | cons a rest ih => exact ih _ (h _ _ hb)

/-- the link loader files every link under a key id at most once -/
theorem loadLinksForStep_nodup (stepName : Str) (files : List (Str × Str)) :
    ((loadLinksForStep stepName files).map Prod.fst).Nodup := by
  unfold loadLinksForStep
  apply foldl_inv (β := List (Str × Md)) (P := fun acc => (acc.map Prod.fst).Nodup)
  · intro acc f h
    split
    · exact h
    · split
      · split
        · exact setAssoc_nodup _ _ _ h
        · exact h
      · exact h
  · simp

private theorem mdVerify_unsigned (W : World) (md : Md) (k : Key) (h : sigsOf md = []) :
    mdVerify W md k ≠ .ok () := by
  have hs : ∀ x, sigFor md x = none := by intro x; simp [sigFor, h]
  unfold mdVerify
  cases md with
  | legacy p s => simp [hs]
  | dsse pt pl s x =>
    simp only [h]
    cases keyUsable W k false <;> simp

/-- a link without any signature is never counted -/
theorem unsigned_not_authorized (W : World) (layout : TVal) (st : Step) (rootIDs : List Str) (signer : Str) (md : Md)
    (h : sigsOf md = []) : ¬ Authorized W layout st rootIDs signer md := by
  rintro (⟨_, k, _, hv⟩ | ⟨s, cd, hs, _⟩)
  · exact mdVerify_unsigned W md k h hv
  · simp [sigFor, h] at hs

/-! ### C05: reduction -/

private theorem reduceStep_isOk_iff (links : List (Str × LinkView)) :
    (reduceStep links).isOk = true ↔
      links ≠ [] ∧ ∀ a ∈ links, ∀ b ∈ links, a.2.materials = b.2.materials ∧ a.2.products = b.2.products := by
  unfold reduceStep
  cases links with
  | nil => simp [Outcome.isOk]
  | cons hd tl =>
    obtain ⟨k, ref⟩ := hd
    simp only
    split
    · rename_i hall
      simp only [Outcome.isOk, ne_eq, reduceCtorEq, not_false_eq_true, true_and, true_iff]
      rw [List.all_eq_true] at hall
      intro a ha b hb
      have h1 := hall a ha
      have h2 := hall b hb
      simp only [Bool.and_eq_true, beq_iff_eq] at h1 h2
      exact ⟨h1.1.trans h2.1.symm, h1.2.trans h2.2.symm⟩
    · rename_i hall
      simp only [Outcome.isOk, ne_eq, reduceCtorEq, not_false_eq_true, true_and, false_iff, Bool.false_eq_true]
      intro H
      apply hall
      rw [List.all_eq_true]
      intro a ha
      have := H a ha (k, ref) (by simp)
      simp only [Bool.and_eq_true, beq_iff_eq]
      exact this

/-- all counted links of a step report the artifacts of the reduced link -/
theorem reduceStep_ok (links : List (Str × LinkView)) (r : LinkView) (h : reduceStep links = .ok r) :
    links ≠ [] ∧ ∀ kv ∈ links, kv.2.materials = r.materials ∧ kv.2.products = r.products := by
  unfold reduceStep at h
  cases links with
  | nil => simp at h
  | cons hd tl =>
    obtain ⟨k, ref⟩ := hd
    simp only at h
    split at h
    · rename_i hall
      injection h with h
      subst h
      refine ⟨by simp, ?_⟩
      rw [List.all_eq_true] at hall
      intro a ha
      have h1 := hall a ha
      simp only [Bool.and_eq_true, beq_iff_eq] at h1
      exact h1
    · simp at h

private theorem reduceStep_ok_mem (links : List (Str × LinkView)) (r : LinkView) (h : reduceStep links = .ok r) :
    ∃ k, (k, r) ∈ links := by
  unfold reduceStep at h
  cases links with
  | nil => simp at h
  | cons hd tl =>
    obtain ⟨k, ref⟩ := hd
    simp only at h
    split at h
    · injection h with h
      subst h
      exact ⟨k, by simp⟩
    · simp at h

/-- if two counted links disagree, reduction fails -/
theorem reduceStep_disagree (links : List (Str × LinkView)) (a b : Str × LinkView)
    (ha : a ∈ links) (hb : b ∈ links)
    (hd : a.2.materials ≠ b.2.materials ∨ a.2.products ≠ b.2.products) :
    (reduceStep links).isOk = false := by
  cases h : (reduceStep links).isOk with
  | false => rfl
  | true =>
    rw [reduceStep_isOk_iff] at h
    have := h.2 a ha b hb
    rcases hd with hd | hd
    · exact absurd this.1 hd
    · exact absurd this.2 hd

/-- the reference link is irrelevant: verdict and agreed artifacts are invariant under permutation -/
theorem reduceStep_perm (l₁ l₂ : List (Str × LinkView)) (hp : l₁.Perm l₂) :
    (reduceStep l₁).isOk = (reduceStep l₂).isOk ∧
    ∀ r₁ r₂, reduceStep l₁ = .ok r₁ → reduceStep l₂ = .ok r₂ →
      r₁.materials = r₂.materials ∧ r₁.products = r₂.products := by
  constructor
  · rw [Bool.eq_iff_iff, reduceStep_isOk_iff, reduceStep_isOk_iff]
    have hne : l₁ ≠ [] ↔ l₂ ≠ [] := by
      constructor
      · intro h e; subst e; exact h hp.eq_nil
      · intro h e; subst e; exact h hp.symm.eq_nil
    rw [hne]
    constructor
    · rintro ⟨h0, h⟩
      exact ⟨h0, fun a ha b hb => h a (hp.mem_iff.2 ha) b (hp.mem_iff.2 hb)⟩
    · rintro ⟨h0, h⟩
      exact ⟨h0, fun a ha b hb => h a (hp.mem_iff.1 ha) b (hp.mem_iff.1 hb)⟩
  · intro r₁ r₂ h1 h2
    obtain ⟨k, hk⟩ := reduceStep_ok_mem l₁ r₁ h1
    exact (reduceStep_ok l₂ r₂ h2).2 (k, r₁) (hp.mem_iff.1 hk)

end InToto.PipeProofs
