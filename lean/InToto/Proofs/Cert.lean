import InToto.Model.Cert

namespace InToto.CertProofs
open InToto InToto.Cert

/-- the normalisation both sides undergo: the one-element list holding the empty string is "nothing" -/
def norm (l : List Str) : List Str := if l = [[]] then [] else l

theorem dedup_mem (l : List Str) (x : Str) : x ∈ dedup l ↔ x ∈ l := by
  induction l with
  | nil => simp [dedup]
  | cons a t ih =>
    unfold dedup
    by_cases h : a ∈ t
    · rw [if_pos h, ih]
      constructor
      · intro hx; exact List.mem_cons_of_mem _ hx
      · intro hx
        rcases List.mem_cons.mp hx with rfl | hx
        · exact h
        · exact hx
    · rw [if_neg h]; simp [ih]

theorem dedup_nodup (l : List Str) : (dedup l).Nodup := by
  induction l with
  | nil => simp [dedup]
  | cons a t ih =>
    unfold dedup
    by_cases h : a ∈ t
    · rw [if_pos h]; exact ih
    · rw [if_neg h]
      exact List.nodup_cons.mpr ⟨fun hm => h ((dedup_mem t a).mp hm), ih⟩

/-- key lemma: with a duplicate-free `unmet`, the loop succeeds iff the values enumerate it exactly -/
theorem consume_iff (vs : List Str) : ∀ (unmet : List Str), unmet.Nodup →
    (consume unmet vs = true ↔ vs.Nodup ∧ ∀ x, x ∈ vs ↔ x ∈ unmet) := by
  induction vs with
  | nil =>
    intro unmet _
    simp only [consume, List.isEmpty_iff, List.nodup_nil, List.not_mem_nil, false_iff, true_and]
    exact List.eq_nil_iff_forall_not_mem
  | cons v vs ih =>
    intro unmet hnd
    unfold consume
    by_cases hv : v ∈ unmet
    · rw [if_pos (List.contains_iff_mem.mpr hv), ih _ (hnd.erase v), List.nodup_cons]
      constructor
      · rintro ⟨hvs, hmem⟩
        refine ⟨⟨?_, hvs⟩, ?_⟩
        · intro hin
          have := ((hnd.mem_erase_iff).mp ((hmem v).mp hin)).1
          exact this rfl
        · intro x
          constructor
          · intro hx
            rcases List.mem_cons.mp hx with rfl | hx
            · exact hv
            · exact ((hnd.mem_erase_iff).mp ((hmem x).mp hx)).2
          · intro hx
            by_cases hxv : x = v
            · subst hxv; exact List.mem_cons_self
            · exact List.mem_cons_of_mem _ ((hmem x).mpr ((hnd.mem_erase_iff).mpr ⟨hxv, hx⟩))
      · rintro ⟨⟨hnin, hvs⟩, hmem⟩
        refine ⟨hvs, ?_⟩
        intro x
        constructor
        · intro hx
          have hxv : x ≠ v := fun h => hnin (h ▸ hx)
          exact (hnd.mem_erase_iff).mpr ⟨hxv, (hmem x).mp (List.mem_cons_of_mem _ hx)⟩
        · intro hx
          obtain ⟨hxv, hxu⟩ := (hnd.mem_erase_iff).mp hx
          rcases List.mem_cons.mp ((hmem x).mpr hxu) with h | h
          · exact absurd h hxv
          · exact h
    · rw [if_neg (fun h => hv (List.contains_iff_mem.mp h))]
      constructor
      · intro h; cases h
      · rintro ⟨_, hmem⟩
        exact absurd ((hmem v).mp List.mem_cons_self) hv

theorem norm_perm {l l' : List Str} (h : l.Perm l') : (norm l).Perm (norm l') := by
  unfold norm
  by_cases hl : l = [[]]
  · have hl' : l' = [[]] := by subst hl; exact (List.singleton_perm.mp h).symm
    rw [if_pos hl, if_pos hl']
  · have hl' : ¬ l' = [[]] := by
      intro h'; subst h'; exact hl (List.perm_singleton.mp h)
    rw [if_neg hl, if_neg hl']; exact h

/-- MAIN: exact-set semantics.  Unless the constraint is the single wildcard, the check passes iff
    the certificate's value list is a duplicate-free enumeration of exactly the listed values. -/
theorem attrOK_iff (cs vs : List Str) :
    attrOK cs vs = true ↔
      cs = [lit% "*"] ∨ ((norm vs).Nodup ∧ ∀ x, x ∈ norm vs ↔ x ∈ norm cs) := by
  unfold attrOK
  by_cases hw : cs = [lit% "*"]
  · simp [hw]
  · rw [if_neg hw]
    show (if (norm cs).isEmpty && !(norm vs).isEmpty then false else consume (dedup (norm cs)) (norm vs)) = true ↔ _
    by_cases hg : ((norm cs).isEmpty && !(norm vs).isEmpty) = true
    · rw [if_pos hg]
      simp only [Bool.and_eq_true, List.isEmpty_iff, Bool.not_eq_true', List.isEmpty_eq_false_iff] at hg
      obtain ⟨hc, hv⟩ := hg
      constructor
      · intro h; cases h
      · rintro (h | ⟨_, hmem⟩)
        · exact absurd h hw
        · exfalso
          apply hv
          apply List.eq_nil_iff_forall_not_mem.mpr
          intro a ha
          have := (hmem a).mp ha
          rw [hc] at this
          cases this
    · rw [if_neg hg, consume_iff _ _ (dedup_nodup _)]
      constructor
      · rintro ⟨hnd, hmem⟩
        exact Or.inr ⟨hnd, fun x => (hmem x).trans (dedup_mem _ x)⟩
      · rintro (h | ⟨hnd, hmem⟩)
        · exact absurd h hw
        · exact ⟨hnd, fun x => (hmem x).trans (dedup_mem _ x).symm⟩

/-- the verdict does not depend on the order of either list -/
theorem attrOK_perm (cs cs' vs vs' : List Str) (hc : cs.Perm cs') (hv : vs.Perm vs') :
    attrOK cs vs = attrOK cs' vs' := by
  rw [Bool.eq_iff_iff, attrOK_iff, attrOK_iff]
  have hnc := norm_perm hc
  have hnv := norm_perm hv
  have hstar : cs = [lit% "*"] ↔ cs' = [lit% "*"] := by
    constructor
    · intro h; subst h; exact (List.singleton_perm.mp hc).symm
    · intro h; subst h; exact List.perm_singleton.mp hc
  rw [hstar, hnv.nodup_iff]
  have hm : (∀ x, x ∈ norm vs ↔ x ∈ norm cs) ↔ (∀ x, x ∈ norm vs' ↔ x ∈ norm cs') := by
    constructor
    · intro h x; exact (hnv.mem_iff.symm.trans (h x)).trans hnc.mem_iff
    · intro h x; exact (hnv.mem_iff.trans (h x)).trans hnc.mem_iff.symm
  rw [hm]

/-- a certificate value that is not listed is rejected (constraint not the wildcard) -/
theorem attrOK_unexpected (cs vs : List Str) (x : Str) (hw : cs ≠ [lit% "*"])
    (hx : x ∈ norm vs) (hnot : x ∉ norm cs) : attrOK cs vs = false := by
  rw [← Bool.not_eq_true, attrOK_iff]
  rintro (h | ⟨_, hmem⟩)
  · exact hw h
  · exact hnot ((hmem x).mp hx)

/-- a listed value that the certificate lacks is rejected (constraint not the wildcard) -/
theorem attrOK_missing (cs vs : List Str) (x : Str) (hw : cs ≠ [lit% "*"])
    (hx : x ∈ norm cs) (hnot : x ∉ norm vs) : attrOK cs vs = false := by
  rw [← Bool.not_eq_true, attrOK_iff]
  rintro (h | ⟨_, hmem⟩)
  · exact hw h
  · exact hnot ((hmem x).mpr hx)

theorem attrOK_wild (vs : List Str) : attrOK [lit% "*"] vs = true := by
  exact (attrOK_iff _ vs).mpr (Or.inl rfl)

/-- an empty constraint demands that the attribute is absent -/
theorem attrOK_empty (vs : List Str) : attrOK [] vs = true ↔ norm vs = [] := by
  rw [attrOK_iff]
  have hn : norm ([] : List Str) = [] := by simp [norm]
  rw [hn]
  constructor
  · rintro (h | ⟨_, hmem⟩)
    · cases h
    · apply List.eq_nil_iff_forall_not_mem.mpr
      intro a ha
      cases (hmem a).mp ha
  · intro h
    rw [h]
    exact Or.inr ⟨List.nodup_nil, fun x => Iff.rfl⟩

theorem constraintOK_iff (c : Constraint) (ci : CertInfo) (roots : List Str) :
    constraintOK c ci roots = true ↔
      ci.chainOK = true ∧ attrOK c.roots roots = true ∧
      attrOK [c.commonName] [ci.commonName] = true ∧ attrOK c.dnsNames ci.dnsNames = true ∧
      attrOK c.emails ci.emails = true ∧ attrOK c.organizations ci.organizations = true ∧
      attrOK c.uris ci.uris = true := by
  simp only [constraintOK, Bool.and_eq_true]
  constructor
  · rintro ⟨⟨⟨⟨⟨h1, h2⟩, h3⟩, h4⟩, hch, hr⟩, h5⟩
    exact ⟨hch, hr, h1, h2, h3, h4, h5⟩
  · rintro ⟨hch, hr, h1, h2, h3, h4, h5⟩
    exact ⟨⟨⟨⟨⟨h1, h2⟩, h3⟩, h4⟩, hch, hr⟩, h5⟩

theorem stepCertOK_iff (cs : List Constraint) (ci : CertInfo) (roots : List Str) :
    stepCertOK cs ci roots = true ↔ ∃ c ∈ cs, constraintOK c ci roots = true := by
  simp [stepCertOK, List.any_eq_true]

end InToto.CertProofs
