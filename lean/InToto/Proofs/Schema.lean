import InToto.Model.Schema
import InToto.Model.Metadata

namespace InToto.SchemaProofs
open InToto InToto.Json InToto.Schema InToto.Metadata

/-- all objects inside a generic value have pairwise distinct keys (what a Go `map` can hold) -/
inductive UniqueKeys : JVal → Prop where
  | null : UniqueKeys .null
  | bool (b : Bool) : UniqueKeys (.bool b)
  | num (i : Int) : UniqueKeys (.num i)
  | frac (l : Str) : UniqueKeys (.frac l)
  | str (s : Str) : UniqueKeys (.str s)
  | arr (l : List JVal) : (∀ v ∈ l, UniqueKeys v) → UniqueKeys (.arr l)
  | obj (l : List (Str × JVal)) : (l.map Prod.fst).Nodup → (∀ kv ∈ l, UniqueKeys kv.2) → UniqueKeys (.obj l)

mutual
  /-- `WT ty v`: `v` is a Go value of type `ty` -/
  inductive WT : Ty → TVal → Prop where
    | str (s : Str) : WT .str (.str s)
    | int (i : Int) : int64Min ≤ i → i ≤ int64Max → WT .int (.int i)
    | any (v : JVal) : UniqueKeys v → WT .any (.any v)
    | listNil (t : Ty) : WT (.list t) (.list none)
    | list (t : Ty) (l : List TVal) : (∀ v ∈ l, WT t v) → WT (.list t) (.list (some l))
    | mapNil (t : Ty) : WT (.map t) (.map none)
    | map (t : Ty) (m : List (Str × TVal)) : (m.map Prod.fst).Nodup → (∀ kv ∈ m, WT t kv.2) →
        WT (.map t) (.map (some m))
    | struct (fs : List (Str × Bool × Ty)) (vs : List (Str × TVal)) : WTFields fs vs →
        WT (.struct fs) (.struct vs)
  inductive WTFields : List (Str × Bool × Ty) → List (Str × TVal) → Prop where
    | nil : WTFields [] []
    | cons (n : Str) (om : Bool) (t : Ty) (v : TVal) (fs : List (Str × Bool × Ty)) (vs : List (Str × TVal)) :
        WT t v → WTFields fs vs → WTFields ((n, om, t) :: fs) ((n, v) :: vs)
end

mutual
  /-- a struct type whose field names are pairwise distinct even after Go's case folding, recursively -/
  inductive GoodTy : Ty → Prop where
    | str : GoodTy .str
    | int : GoodTy .int
    | any : GoodTy .any
    | list (t : Ty) : GoodTy t → GoodTy (.list t)
    | map (t : Ty) : GoodTy t → GoodTy (.map t)
    | struct (fs : List (Str × Bool × Ty)) : (fs.map fun f => foldName f.1).Nodup → GoodFields fs →
        GoodTy (.struct fs)
  inductive GoodFields : List (Str × Bool × Ty) → Prop where
    | nil : GoodFields []
    | cons (f : Str × Bool × Ty) (fs : List (Str × Bool × Ty)) : GoodTy f.2.2 → GoodFields fs →
        GoodFields (f :: fs)
end

mutual
  /-- what a value looks like after a dump/load cycle: an `omitempty` field holding an empty
      (non-nil) slice or map comes back as nil (the field is simply absent in the file) -/
  def normOmit : Ty → TVal → TVal
    | .list t, .list (some l) => .list (some (normOmitList t l))
    | .map t, .map (some m) => .map (some (normOmitMap t m))
    | .struct fs, .struct vs => .struct (normOmitFields fs vs)
    | _, v => v
  def normOmitList (t : Ty) : List TVal → List TVal
    | [] => []
    | v :: rest => normOmit t v :: normOmitList t rest
  def normOmitMap (t : Ty) : List (Str × TVal) → List (Str × TVal)
    | [] => []
    | (k, v) :: rest => (k, normOmit t v) :: normOmitMap t rest
  def normOmitFields : List (Str × Bool × Ty) → List (Str × TVal) → List (Str × TVal)
    | (_, om, t) :: frest, (n, v) :: vrest =>
      (n, if om && isEmptyValue v then zero t else normOmit t v) :: normOmitFields frest vrest
    | _, _ => []
end

/-! ## helper lemmas for the round trip -/

/-! generic list lemmas -/

theorem setAssoc_append {β} (k : Str) (v : β) (acc : List (Str × β))
    (h : k ∉ acc.map Prod.fst) : setAssoc k v acc = acc ++ [(k, v)] := by
  induction acc with
  | nil => rfl
  | cons a acc ih =>
    obtain ⟨k', v'⟩ := a
    simp only [List.map_cons, List.mem_cons, not_or] at h
    simp only [setAssoc, List.cons_append]
    rw [if_neg (fun e => h.1 e.symm), ih h.2]

theorem setNth_append {α} (A : List α) (x y : α) (B : List α) :
    setNth (A ++ x :: B) A.length y = A ++ y :: B := by
  induction A with
  | nil => rfl
  | cons a A ih => simp [setNth, ih]

theorem findIdx?_append_hit {α} (p : α → Bool) (A : List α) (x : α) (B : List α)
    (hA : ∀ a ∈ A, p a = false) (hx : p x = true) :
    (A ++ x :: B).findIdx? p = some A.length := by
  induction A with
  | nil => simp [List.findIdx?_cons, hx]
  | cons a A ih =>
    have h1 : p a = false := hA a (by simp)
    have h2 := ih (fun b hb => hA b (by simp [hb]))
    simp [List.findIdx?_cons, h1, h2]

theorem findField_hit (A : List (Str × Bool × Ty)) (x : Str × Bool × Ty) (B : List (Str × Bool × Ty))
    (hA : ∀ a ∈ A, a.1 ≠ x.1) : findField (A ++ x :: B) x.1 = some A.length := by
  unfold findField
  rw [findIdx?_append_hit _ A x B (by simpa using hA) (by simp)]

/-! any -/

theorem normAnyList_id (l : List JVal) (h : ∀ v ∈ l, normAny v = v) : normAnyList l = l := by
  induction l with
  | nil => simp [normAnyList]
  | cons a l ih =>
    simp [normAnyList, h a (by simp), ih (fun v hv => h v (by simp [hv]))]

theorem normAnyMembers_id (l : List (Str × JVal)) (h : ∀ kv ∈ l, normAny kv.2 = kv.2) :
    ∀ acc : List (Str × JVal), ((acc ++ l).map Prod.fst).Nodup → normAnyMembers l acc = acc ++ l := by
  induction l with
  | nil => intro acc _; simp [normAnyMembers]
  | cons a l ih =>
    intro acc hnd
    obtain ⟨k, v⟩ := a
    have hk : k ∉ acc.map Prod.fst := by
      intro hmem
      rw [List.map_append, List.nodup_append] at hnd
      exact hnd.2.2 k hmem k (by simp) rfl
    have hv : normAny v = v := h (k, v) (by simp)
    simp only [normAnyMembers, hv]
    rw [setAssoc_append k v acc hk, ih (fun kv hkv => h kv (by simp [hkv]))]
    · simp
    · simpa using hnd

theorem normAny_id (v : JVal) (h : UniqueKeys v) : normAny v = v := by
  induction h with
  | null => simp [normAny]
  | bool b => simp [normAny]
  | num i => simp [normAny]
  | frac l => simp [normAny]
  | str s => simp [normAny]
  | arr l _ ih => simp [normAny, normAnyList_id l ih]
  | obj l hnd _ ih =>
    simp [normAny, normAnyMembers_id l ih [] (by simpa using hnd)]


/-! list / map / struct lemmas relative to an element-wise round-trip hypothesis -/

/-- round trip at type `t` -/
def RT (strict : Bool) (t : Ty) : Prop :=
  ∀ v, WT t v → decode strict t (zero t) (encode t v) = some (normOmit t v)

theorem decodeList_encodeList (strict : Bool) (t : Ty) (l : List TVal)
    (h : ∀ v ∈ l, decode strict t (zero t) (encode t v) = some (normOmit t v)) :
    decodeList strict t (encodeList t l) = some (normOmitList t l) := by
  induction l with
  | nil => simp [encodeList, decodeList, normOmitList]
  | cons a l ih =>
    simp [encodeList, decodeList, normOmitList, h a (by simp), ih (fun v hv => h v (by simp [hv]))]

theorem map_fst_normOmitMap (t : Ty) (m : List (Str × TVal)) :
    (normOmitMap t m).map Prod.fst = m.map Prod.fst := by
  induction m with
  | nil => simp [normOmitMap]
  | cons a m ih => obtain ⟨k, v⟩ := a; simp [normOmitMap, ih]

theorem decodeMap_encodeMap (strict : Bool) (t : Ty) (m : List (Str × TVal))
    (h : ∀ kv ∈ m, decode strict t (zero t) (encode t kv.2) = some (normOmit t kv.2)) :
    ∀ acc : List (Str × TVal), (acc.map Prod.fst ++ m.map Prod.fst).Nodup →
      decodeMap strict t (encodeMap t m) acc = some (acc ++ normOmitMap t m) := by
  induction m with
  | nil => intro acc _; simp [encodeMap, decodeMap, normOmitMap]
  | cons a m ih =>
    intro acc hnd
    obtain ⟨k, v⟩ := a
    have hk : k ∉ acc.map Prod.fst := by
      intro hmem
      rw [List.nodup_append] at hnd
      exact hnd.2.2 k hmem k (by simp) rfl
    have hv := h (k, v) (by simp)
    simp only at hv
    simp only [encodeMap, decodeMap, normOmitMap, hv]
    rw [setAssoc_append k _ acc hk, ih (fun kv hkv => h kv (by simp [hkv]))]
    · simp
    · simpa using hnd

theorem WTFields_names {fs vs} (h : WTFields fs vs) : vs.map Prod.fst = fs.map (fun f => f.1) := by
  induction fs generalizing vs with
  | nil => cases h; rfl
  | cons f fs ih =>
    cases h with
    | cons n om t v _ vs' hv hrest => simp [ih hrest]

theorem decodeFields_encodeFields (strict : Bool) (fs : List (Str × Bool × Ty))
    (hnd : (fs.map fun f => f.1).Nodup)
    (H : ∀ f ∈ fs, ∀ v, WT f.2.2 v →
      decode strict f.2.2 (zero f.2.2) (encode f.2.2 v) = some (normOmit f.2.2 v)) :
    ∀ (suf pre : List (Str × Bool × Ty)) (vs A : List (Str × TVal)),
      fs = pre ++ suf → A.length = pre.length → WTFields suf vs →
      decodeFields strict fs (encodeFields suf vs) (A ++ zeroFields suf)
        = some (A ++ normOmitFields suf vs) := by
  intro suf
  induction suf with
  | nil =>
    intro pre vs A _ _ hw
    cases hw
    simp [encodeFields, decodeFields, zeroFields, normOmitFields]
  | cons f suf ih =>
    intro pre vs A hfs hlen hw
    cases hw with
    | cons n om t v _ vs' hv hrest =>
    have hfs' : fs = (pre ++ [(n, om, t)]) ++ suf := by simp [hfs]
    by_cases hom : (om && isEmptyValue v) = true
    · have := ih (pre ++ [(n, om, t)]) vs' (A ++ [(n, zero t)]) hfs' (by simp [hlen]) hrest
      simp only [encodeFields, hom, if_true, zeroFields, normOmitFields]
      simpa using this
    · have hmem : (n, om, t) ∈ fs := by simp [hfs]
      have hdec := H _ hmem v hv
      simp only at hdec
      have hpre : ∀ a ∈ pre, a.1 ≠ n := by
        intro a ha e
        rw [hfs, List.map_append, List.nodup_append] at hnd
        exact hnd.2.2 a.1 (List.mem_map_of_mem ha) n (by simp) e
      have hfind : findField fs n = some A.length := by
        rw [hfs, hlen]; exact findField_hit pre (n, om, t) suf hpre
      have hfsi : fs[A.length]? = some (n, om, t) := by
        rw [hfs, hlen]; simp
      have hacci : (A ++ (n, zero t) :: zeroFields suf)[A.length]? = some (n, zero t) := by simp
      have := ih (pre ++ [(n, om, t)]) vs' (A ++ [(n, normOmit t v)]) hfs' (by simp [hlen]) hrest
      simp only [encodeFields, hom, zeroFields, normOmitFields, Bool.false_eq_true, ↓reduceIte,
        decodeFields, hfind, hfsi, hacci, hdec, setNth_append]
      simpa using this


theorem GoodFields_mem {fs : List (Str × Bool × Ty)} (h : GoodFields fs) :
    ∀ f ∈ fs, GoodTy f.2.2 := by
  induction fs with
  | nil => intro f hf; cases hf
  | cons g fs ih =>
    cases h with
    | cons _ _ hg hrest =>
      intro f hf
      rcases List.mem_cons.1 hf with rfl | hf
      · exact hg
      · exact ih hrest f hf

theorem nodup_names_of_fold (fs : List (Str × Bool × Ty))
    (h : (fs.map fun f => foldName f.1).Nodup) : (fs.map fun f => f.1).Nodup := by
  unfold List.Nodup at *
  rw [List.pairwise_map] at *
  exact h.imp (fun hab e => hab (by rw [e]))

theorem sizeOf_field_lt {fs : List (Str × Bool × Ty)} {f : Str × Bool × Ty} (hf : f ∈ fs) :
    sizeOf f.2.2 < sizeOf (Ty.struct fs) := by
  have h1 := List.sizeOf_lt_of_mem hf
  obtain ⟨n, om, t⟩ := f
  simp only [Ty.struct.sizeOf_spec, Prod.mk.sizeOf_spec] at *
  omega

theorem decode_encode_aux (strict : Bool) : ∀ (n : Nat) (ty : Ty), sizeOf ty < n → ∀ v, GoodTy ty → WT ty v →
    decode strict ty (zero ty) (encode ty v) = some (normOmit ty v) := by
  intro n
  induction n with
  | zero => intro ty h; omega
  | succ n ih =>
    intro ty hsz v hg hw
    cases hw with
    | str s => simp [encode, decode, normOmit]
    | int i h1 h2 => simp [encode, decode, normOmit, h1, h2]
    | any j hj => simp [encode, decode, normOmit, normAny_id j hj]
    | listNil t => simp [encode, decode, normOmit]
    | list t l hl =>
      cases hg with
      | list _ hgt =>
        have hlt : sizeOf t < n := by simp only [Ty.list.sizeOf_spec] at hsz; omega
        have := decodeList_encodeList strict t l (fun v hv => ih t hlt v hgt (hl v hv))
        simp [encode, decode, normOmit, this]
    | mapNil t => simp [encode, decode, normOmit]
    | map t m hnd hm =>
      cases hg with
      | map _ hgt =>
        have hlt : sizeOf t < n := by simp only [Ty.map.sizeOf_spec] at hsz; omega
        have := decodeMap_encodeMap strict t m
          (fun kv hkv => ih t hlt kv.2 hgt (hm kv hkv)) [] (by simpa using hnd)
        simp [encode, decode, normOmit, zero, this]
    | struct fs vs hf =>
      cases hg with
      | struct _ hnd hgf =>
        have := decodeFields_encodeFields strict fs (nodup_names_of_fold fs hnd)
          (fun f hfm v hv => ih f.2.2 (by have := sizeOf_field_lt hfm; omega) v (GoodFields_mem hgf f hfm) hv)
          fs [] vs [] rfl rfl hf
        simp only [List.nil_append] at this
        simp [encode, decode, normOmit, zero, this]

/-- MAIN (C12 round trip at the schema level): strictly decoding what `json.Marshal` produced for a
    well-typed value gives the value back (up to `normOmit`).  `strict` may be either. -/
theorem decode_encode (strict : Bool) (ty : Ty) (v : TVal) (hg : GoodTy ty) (hw : WT ty v) :
    decode strict ty (zero ty) (encode ty v) = some (normOmit ty v) :=
  decode_encode_aux strict (sizeOf ty + 1) ty (Nat.lt_succ_self _) v hg hw

/-! ## the schema tables, table by table -/

theorem goodTy_strs : GoodTy tyStrs := .list _ .str
theorem goodTy_rules : GoodTy tyRules := .list _ (.list _ .str)
theorem goodTy_arts : GoodTy tyArts := .map _ (.map _ .str)
theorem goodTy_mapAny : GoodTy (.map .any) := .map _ .any

theorem goodTy_keyVal : GoodTy (.struct fieldsKeyVal) := by
  refine .struct _ (by decide) ?_
  unfold fieldsKeyVal
  repeat (first | exact GoodFields.nil | apply GoodFields.cons | exact GoodTy.str)

theorem goodTy_key : GoodTy (.struct fieldsKey) := by
  refine .struct _ (by decide) ?_
  unfold fieldsKey
  repeat (first | exact GoodFields.nil | apply GoodFields.cons | exact GoodTy.str
                | exact goodTy_strs | exact goodTy_keyVal)

theorem goodTy_signature : GoodTy (.struct fieldsSignature) := by
  refine .struct _ (by decide) ?_
  unfold fieldsSignature
  repeat (first | exact GoodFields.nil | apply GoodFields.cons | exact GoodTy.str)

theorem goodTy_certConstraint : GoodTy (.struct fieldsCertConstraint) := by
  refine .struct _ (by decide) ?_
  unfold fieldsCertConstraint
  repeat (first | exact GoodFields.nil | apply GoodFields.cons | exact GoodTy.str | exact goodTy_strs)

theorem goodFields_supplyChainItem : GoodFields fieldsSupplyChainItem := by
  unfold fieldsSupplyChainItem
  repeat (first | exact GoodFields.nil | apply GoodFields.cons | exact GoodTy.str | exact goodTy_rules)

theorem goodTy_inspection : GoodTy (.struct fieldsInspection) := by
  refine .struct _ (by decide) ?_
  unfold fieldsInspection
  simp only [List.cons_append, List.nil_append]
  repeat (first | exact goodFields_supplyChainItem | apply GoodFields.cons | exact GoodTy.str
                | exact goodTy_strs)

theorem goodTy_step : GoodTy (.struct fieldsStep) := by
  refine .struct _ (by decide) ?_
  unfold fieldsStep
  simp only [List.cons_append, List.nil_append]
  repeat (first | exact goodFields_supplyChainItem | apply GoodFields.cons | exact GoodTy.str
                | exact GoodTy.int | exact goodTy_strs | exact GoodTy.list _ goodTy_certConstraint)

/-- the schema tables are good types (no two fields of a struct collide, even case-folded) -/
theorem goodTy_link : GoodTy tyLink := by
  refine .struct _ (by decide) ?_
  unfold fieldsLink
  repeat (first | exact GoodFields.nil | apply GoodFields.cons | exact GoodTy.str
                | exact goodTy_strs | exact goodTy_arts | exact goodTy_mapAny)
theorem goodTy_layout : GoodTy tyLayout := by
  refine .struct _ (by decide) ?_
  unfold fieldsLayout
  repeat (first | exact GoodFields.nil | apply GoodFields.cons | exact GoodTy.str
                | exact GoodTy.list _ goodTy_step | exact GoodTy.list _ goodTy_inspection
                | exact GoodTy.map _ goodTy_key)
theorem goodTy_sigs : GoodTy tySigs := .list _ goodTy_signature

theorem decodeFields_unknown (fs : List (Str × Bool × Ty)) (pre post : List (Str × JVal))
    (k : Str) (j : JVal) (hk : findField fs k = none) :
    ∀ acc, decodeFields true fs (pre ++ (k, j) :: post) acc = none := by
  induction pre with
  | nil => intro acc; simp [decodeFields, hk]
  | cons kv pre ih =>
    intro acc
    obtain ⟨k', j'⟩ := kv
    simp only [List.cons_append, decodeFields]
    split
    · simp
    · split
      · split
        · exact ih _
        · rfl
      · rfl

/-- C12 strictness: with DisallowUnknownFields a member whose key matches no field (not even
    case-folded) makes decoding fail, whatever else the object contains. -/
theorem unknown_field_rejected (fs : List (Str × Bool × Ty)) (pre post : List (Str × JVal))
    (k : Str) (j : JVal) (cur : TVal) (hk : findField fs k = none)
    (hpre : ∀ kv ∈ pre, findField fs kv.1 ≠ none) :
    decode true (.struct fs) cur (.obj (pre ++ (k, j) :: post)) = none := by
  have _ := hpre   -- not needed: an unmatched member of `pre` fails as well
  simp [decode, decodeFields_unknown fs pre post k j hk]

/-- C12: a value of the wrong JSON type is rejected (scalars) -/
theorem wrong_type_str (strict : Bool) (cur : TVal) (j : JVal)
    (h1 : j ≠ .null) (h2 : ∀ s, j ≠ .str s) : decode strict .str cur j = none := by
  cases j <;> simp_all [decode]
theorem wrong_type_int (strict : Bool) (cur : TVal) (j : JVal)
    (h1 : j ≠ .null) (h2 : ∀ i, j ≠ .num i) : decode strict .int cur j = none := by
  cases j <;> simp_all [decode]

/-- C12: absent or null `signed` / `signatures` part is refused by both loaders (legacy branch) -/
theorem legacy_requires_parts (l : List (Str × JVal))
    (h : nonNull (lastVal (lit% "signed") l) = false ∨ nonNull (lastVal (lit% "signatures") l) = false) :
    (loadLegacy l).isOk = false := by
  unfold loadLegacy
  rw [if_neg]
  · rfl
  · intro hc
    rcases h with h | h <;> simp [h] at hc

/-- C12: an unknown type marker is refused -/
theorem unknown_type_marker (l : List (Str × JVal)) (t : Str)
    (ht : lastVal (lit% "_type") l = some (.str t)) (h1 : t ≠ lit% "link") (h2 : t ≠ lit% "layout") :
    (loadPayload (.obj l)).isOk = false := by
  unfold loadPayload
  simp only [ht, if_neg h1, if_neg h2]
  rfl

/-- C12: a missing required (non-omitempty) top-level field of a link is refused -/
theorem link_missing_required (l : List (Str × JVal)) (f : Str)
    (ht : lastVal (lit% "_type") l = some (.str (lit% "link")))
    (hf : f ∈ requiredFields fieldsLink) (hmiss : lastVal f l = none) :
    (loadPayload (.obj l)).isOk = false := by
  have hall : ¬ ((requiredFields fieldsLink).all fun f => (lastVal f l).isSome) = true := by
    intro h
    have := List.all_eq_true.1 h f hf
    simp [hmiss] at this
  unfold loadPayload
  simp only [ht, if_true, if_neg hall]
  rfl

theorem layout_missing_required (l : List (Str × JVal)) (f : Str)
    (ht : lastVal (lit% "_type") l = some (.str (lit% "layout")))
    (hf : f ∈ requiredFields fieldsLayout) (hmiss : lastVal f l = none) :
    (loadPayload (.obj l)).isOk = false := by
  have hall : ¬ ((requiredFields fieldsLayout).all fun f => (lastVal f l).isSome) = true := by
    intro h
    have := List.all_eq_true.1 h f hf
    simp [hmiss] at this
  have hne : ¬ (lit% "layout" : Str) = lit% "link" := by decide
  unfold loadPayload
  simp only [ht, if_neg hne, if_true, if_neg hall]
  rfl

end InToto.SchemaProofs
