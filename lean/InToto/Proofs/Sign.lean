import InToto.Model.Sign
import InToto.Proofs.PipeSigs

namespace InToto.SignProofs
open InToto InToto.Json InToto.Schema InToto.Metadata InToto.Verify InToto.Sign InToto.PipeProofs

/-- the public half of a key, as handed to VerifySignature -/
def pubKey (k : Key) : Key := { k with priv := [] }

/-- no signature with this key id is present yet (legacy: the first one with the id is the one
    that is checked) and no present signature has an undecodable encoding (DSSE: aborts) -/
def NoStale (m : Md) (keyid : Str) : Prop :=
  match m with
  | .legacy _ _ => sigFor m keyid = none
  | .dsse _ _ _ _ => ∀ s ∈ sigsOf m, (B64.decodeFlex s.sig).isSome = true

/-! ### encodings round trip -/

theorem hexNib_hexDigit_fin : ∀ v : Fin 16, hexNib (Json.hexDigit v.val) = some v.val := by decide

theorem hexNib_hexDigit (v : Nat) (h : v < 16) : hexNib (Json.hexDigit v) = some v :=
  hexNib_hexDigit_fin ⟨v, h⟩

theorem byte_recombine (b : UInt8) : (b.toNat / 16 * 16 + b.toNat % 16).toUInt8 = b := by
  rw [Nat.div_add_mod']
  simp

theorem hexDecode_hexLower (bs : List UInt8) : hexDecode (hexLower bs) = some bs := by
  induction bs with
  | nil => rfl
  | cons b t ih =>
    have : hexLower (b :: t) = Json.hexDigit (b.toNat / 16) :: Json.hexDigit (b.toNat % 16) :: hexLower t := by
      simp [hexLower]
    have hb : b.toNat < 256 := b.toNat_lt
    rw [this, hexDecode, hexNib_hexDigit _ (by omega), hexNib_hexDigit _ (by omega), ih]
    simp only [byte_recombine]

theorem digit_alphaStd_fin : ∀ v : Fin 64, B64.digit false (B64.alphaStd v.val) = some v.val ∧
    B64.alphaStd v.val ≠ '=' ∧ B64.alphaStd v.val ≠ '\r' ∧ B64.alphaStd v.val ≠ '\n' := by decide



theorem decodeQ_pad1 (f : Nat) (x y z : Char) (hz : z ≠ '=') :
    B64.decodeQ false (f + 1) [x, y, z, '='] =
      match B64.digit false x, B64.digit false y, B64.digit false z with
      | some x, some y, some z =>
        let n := x * 4096 + y * 64 + z
        some [(n / 1024).toUInt8, (n / 4 % 256).toUInt8]
      | _, _, _ => none := by
  rw [B64.decodeQ]
  · rfl
  · exact hz

theorem stripNl_id (s : Str) (h : ∀ c ∈ s, c ≠ '\r' ∧ c ≠ '\n') : B64.stripNl s = s := by
  unfold B64.stripNl
  rw [List.filter_eq_self]
  intro c hc
  have := h c hc
  simp [this.1, this.2]

theorem b64_roundtrip2 (a b : UInt8) : B64.decodeFlex (B64.encode [a, b]) = some [a, b] := by
  have ha : a.toNat < 256 := a.toNat_lt
  have hb : b.toNat < 256 := b.toNat_lt
  have h1 := digit_alphaStd_fin ⟨(a.toNat * 256 + b.toNat) / 1024, by omega⟩
  have h2 := digit_alphaStd_fin ⟨(a.toNat * 256 + b.toNat) / 16 % 64, by omega⟩
  have h3 := digit_alphaStd_fin ⟨(a.toNat * 256 + b.toNat) % 16 * 4, by omega⟩
  dsimp only at h1 h2 h3
  have hs : B64.stripNl (B64.encode [a, b]) = B64.encode [a, b] := by
    apply stripNl_id
    intro c hc
    simp only [B64.encode, List.mem_cons, List.not_mem_nil, or_false] at hc
    rcases hc with rfl | rfl | rfl | rfl
    · exact h1.2.2
    · exact h2.2.2
    · exact h3.2.2
    · decide
  unfold B64.decodeFlex B64.decodeWith
  rw [hs]
  simp only [B64.encode, List.length_cons, List.length_nil]
  rw [decodeQ_pad1 _ _ _ _ h3.2.1, h1.1, h2.1, h3.1]
  dsimp only
  have e1 : ((a.toNat * 256 + b.toNat) / 1024 * 4096 + (a.toNat * 256 + b.toNat) / 16 % 64 * 64 +
          (a.toNat * 256 + b.toNat) % 16 * 4) / 1024 = a.toNat := by omega
  have e2 : ((a.toNat * 256 + b.toNat) / 1024 * 4096 + (a.toNat * 256 + b.toNat) / 16 % 64 * 64 +
          (a.toNat * 256 + b.toNat) % 16 * 4) / 4 % 256 = b.toNat := by omega
  rw [e1, e2]
  simp


/-! ### mdVerify characterised -/

theorem keyUsable_worldOf (W0 : World) (st : SState) (k : Key) (b : Bool) :
    keyUsable (worldOf W0 st) k b = keyUsable W0 k b := rfl

theorem sigsOf_addSig_legacy (p : Payload) (s : TVal) (id cert : Str) (raw : List UInt8) :
    sigsOf (addSig (.legacy p s) id cert raw) =
      sigsOf (.legacy p s) ++ [{ keyid := id, sig := hexLower raw, cert := cert }] := by
  simp [sigsOf, addSig, sigList, TVal.asList, fget, lookup, TVal.asStr]

theorem sigsOf_addSig_dsse (pt pl : Str) (s : TVal) (p : Payload) (id cert : Str) (raw : List UInt8) :
    sigsOf (addSig (.dsse pt pl s p) id cert raw) =
      sigsOf (.dsse pt pl s p) ++ [{ keyid := id, sig := B64.encode raw, cert := [] }] := by
  simp [sigsOf, addSig, sigList, TVal.asList, fget, lookup, TVal.asStr]

theorem mdVerify_legacy_iff (W : World) (p : Payload) (sg : TVal) (k : Key) :
    mdVerify W (.legacy p sg) k = .ok () ↔
      ∃ s msg raw, sigFor (.legacy p sg) k.keyid = some s ∧ keyUsable W k false = .ok () ∧
        canonPayload p = some msg ∧ hexDecode s.sig = some raw ∧
        W.sigOK k.pub msg (hexLower raw) = true := by
  constructor
  · intro h
    unfold mdVerify at h
    dsimp only at h
    split at h
    · cases h
    rename_i s hs
    split at h
    · cases h
    · cases h
    rename_i hk
    split at h
    · cases h
    rename_i msg hmsg
    split at h
    · cases h
    rename_i raw hraw
    split at h
    · rename_i hok
      exact ⟨s, msg, raw, hs, hk, hmsg, hraw, hok⟩
    · cases h
  · rintro ⟨s, msg, raw, hs, hk, hmsg, hraw, hok⟩
    unfold mdVerify
    simp only [hs, hk, hmsg, hraw, hok, if_true]

theorem mdVerify_dsse_iff (W : World) (pt pl : Str) (sg : TVal) (p : Payload) (k : Key) :
    mdVerify W (.dsse pt pl sg p) k = .ok () ↔
      keyUsable W k false = .ok () ∧ sigsOf (.dsse pt pl sg p) ≠ [] ∧
      ∃ body, bodyOf pl = some body ∧
        (∀ s ∈ sigsOf (.dsse pt pl sg p), (B64.decodeFlex s.sig).isSome = true) ∧
        ∃ s ∈ sigsOf (.dsse pt pl sg p), (s.keyid = [] ∨ (k.keyid ≠ [] ∧ s.keyid = k.keyid)) ∧
          ∃ raw, B64.decodeFlex s.sig = some raw ∧ W.sigOK k.pub (pae pt body) (hexLower raw) = true := by
  constructor
  · intro h
    unfold mdVerify at h
    dsimp only at h
    split at h
    · cases h
    · cases h
    rename_i hk
    split at h
    · cases h
    rename_i hne
    split at h
    · cases h
    rename_i bytes hbytes
    split at h
    · cases h
    rename_i body hbody
    split at h
    · cases h
    rename_i hbad
    split at h
    · rename_i hany
      rw [List.any_eq_true] at hany
      obtain ⟨s, hs, hc⟩ := hany
      rw [Bool.and_eq_true] at hc
      obtain ⟨hid, hsig⟩ := hc
      refine ⟨hk, ?_, body, ?_, ?_, s, hs, ?_, ?_⟩
      · intro h0; rw [h0] at hne; exact hne rfl
      · simp [bodyOf, hbytes, hbody]
      · intro s' hs'
        cases hd : B64.decodeFlex s'.sig with
        | some r => rfl
        | none =>
          exfalso; apply hbad
          rw [List.any_eq_true]
          exact ⟨s', hs', by rw [hd]; rfl⟩
      · simpa using hid
      · split at hsig
        · rename_i raw hraw
          exact ⟨raw, hraw, hsig⟩
        · cases hsig
    · cases h
  · rintro ⟨hk, hne, body, hbody, hall, s, hs, hid, raw, hraw, hok⟩
    unfold bodyOf at hbody
    cases hbytes : B64.decodeFlex pl with
    | none => rw [hbytes] at hbody; cases hbody
    | some bytes =>
      rw [hbytes] at hbody
      replace hbody : B64.bytesToStr bytes = some body := hbody
      unfold mdVerify
      dsimp only
      rw [hk]
      dsimp only
      rw [if_neg (by simpa using hne), hbytes]
      dsimp only
      rw [hbody]
      dsimp only
      rw [if_neg, if_pos]
      · rw [List.any_eq_true]
        refine ⟨s, hs, ?_⟩
        rw [hraw]
        simp only [hok, Bool.and_true]
        simpa using hid
      · rw [List.any_eq_true]
        rintro ⟨s', hs', hn⟩
        have := hall s' hs'
        cases hd : B64.decodeFlex s'.sig with
        | none => rw [hd] at this; cases this
        | some r => rw [hd] at hn; cases hn


/-! ### table, soundness, panic freedom -/

/-- the acceptance table only grows -/
theorem valid_mono (W0 : World) (st : SState) (op : SOp) :
    ∀ e ∈ st.valid, e ∈ (sstep W0 st op).1.valid := by
  intro e he
  unfold sstep
  cases op <;> dsimp only <;> repeat' split
  all_goals first | exact he | exact List.mem_append_left _ he

/-- every entry that a step adds to the table is (public material of the signing key, the bytes
    signed at that moment) -/
theorem valid_new_entries (W0 : World) (st : SState) (op : SOp) (e : Str × Str × Str)
    (he : e ∈ (sstep W0 st op).1.valid) (hn : e ∉ st.valid) :
    ∃ k, (op = .sign k ∨ op = .extsign k) ∧ e.1 = k.pub ∧ signedBytes st.md = some e.2.1 := by
  unfold sstep at he
  cases op with
  | sign k =>
    dsimp only at he
    split at he
    · exact absurd he hn
    · exact absurd he hn
    split at he
    · exact absurd he hn
    rename_i msg hmsg
    dsimp only at he
    rcases List.mem_append.1 he with h | h
    · exact absurd h hn
    · simp only [List.mem_singleton] at h
      subst h
      exact ⟨k, Or.inl rfl, rfl, hmsg⟩
  | extsign k =>
    dsimp only at he
    split at he
    · exact absurd he hn
    rename_i msg hmsg
    dsimp only at he
    rcases List.mem_append.1 he with h | h
    · exact absurd h hn
    · simp only [List.mem_singleton] at h
      subst h
      exact ⟨k, Or.inr rfl, rfl, hmsg⟩
  | verify k => exact absurd he hn
  | dumpload =>
    dsimp only at he
    repeat' split at he
    all_goals exact absurd he hn
  | setName s =>
    dsimp only at he
    repeat' split at he
    all_goals exact absurd he hn
  | corrupt i =>
    dsimp only at he
    repeat' split at he
    all_goals exact absurd he hn
  | poke s =>
    dsimp only at he
    repeat' split at he
    all_goals exact absurd he hn

theorem cls_ok_unit (o : Outcome Unit) (h : o.cls = "ok") : o = .ok () := by
  cases o with
  | ok a => rfl
  | err e => exact absurd h (by simp [Outcome.cls])
  | panic e => exact absurd h (by simp [Outcome.cls])

/-- C04 soundness: a successful verification exhibits an accepted signature by that key's material
    over exactly the CURRENT signed bytes -/
theorem verify_ok_sound (W0 : World) (st : SState) (k : Key)
    (h : (sstep W0 st (.verify k)).2 = "ok") :
    ∃ msg s, signedBytes st.md = some msg ∧ (k.pub, msg, s) ∈ st.valid := by
  have h1 : mdVerify (worldOf W0 st) st.md k = .ok () := cls_ok_unit _ h
  have key : ∀ msg s, (worldOf W0 st).sigOK k.pub msg s = true → (k.pub, msg, s) ∈ st.valid := by
    intro msg s hs
    simp only [worldOf, List.any_eq_true, decide_eq_true_eq] at hs
    obtain ⟨⟨a, b, c⟩, hmem, h1, h2, h3⟩ := hs
    dsimp only at h1 h2 h3
    subst h1 h2 h3
    exact hmem
  cases hm : st.md with
  | legacy p sg =>
    rw [hm] at h1
    obtain ⟨s, _, _, msg, raw, hc, _, hok⟩ := mdVerify_legacy_sound _ _ _ _ h1
    exact ⟨msg, hexLower raw, hc, key _ _ hok⟩
  | dsse pt pl sg p =>
    rw [hm] at h1
    obtain ⟨s, _, _, body, raw, hb, _, hok⟩ := mdVerify_dsse_sound _ _ _ _ _ _ h1
    refine ⟨pae pt body, hexLower raw, ?_, key _ _ hok⟩
    unfold bodyOf at hb
    simp only [signedBytes, hb, Option.map_some]

/-- "under any other key": material that never signed verifies nothing -/
theorem other_key_fails (W0 : World) (st : SState) (k : Key)
    (h : ∀ e ∈ st.valid, e.1 ≠ k.pub) : (sstep W0 st (.verify k)).2 ≠ "ok" := by
  intro hok
  obtain ⟨msg, s, _, hmem⟩ := verify_ok_sound W0 st k hok
  exact h _ hmem rfl

/-- "after any change of any signed field": if every signature of that key was made over other
    bytes than the current ones, verification fails -/
theorem changed_content_fails (W0 : World) (st : SState) (k : Key)
    (h : ∀ e ∈ st.valid, e.1 = k.pub → signedBytes st.md ≠ some e.2.1) :
    (sstep W0 st (.verify k)).2 ≠ "ok" := by
  intro hok
  obtain ⟨msg, s, hsb, hmem⟩ := verify_ok_sound W0 st k hok
  exact h _ hmem rfl hsb

/-- signing never panics in the model (key material is judged before use) -/
theorem sstep_no_panic (W0 : World) (st : SState) (op : SOp) : (sstep W0 st op).2 ≠ "panic" := by
  unfold sstep
  cases op with
  | sign k =>
    dsimp only
    have hk := keyUsable_no_panic W0 k true
    split
    · simp
    · rename_i h; rw [h] at hk; cases hk
    · split <;> simp
  | extsign k => dsimp only; split <;> simp
  | verify k =>
    dsimp only
    have hk := mdVerify_no_panic (worldOf W0 st) st.md k
    cases hv : mdVerify (worldOf W0 st) st.md k with
    | ok a => simp [Outcome.cls]
    | err e => simp [Outcome.cls]
    | panic e => rw [hv] at hk; cases hk
  | dumpload => dsimp only; repeat' split
                all_goals simp
  | setName s => dsimp only; repeat' split
                 all_goals simp
  | corrupt i => dsimp only; repeat' split
                 all_goals simp
  | poke s => dsimp only; repeat' split
              all_goals simp


/-! ### in-place change of nested content -/

/-- a poke touches neither the acceptance table nor the token counter (both wrappers) -/
theorem sstep_poke_valid_n (W0 : World) (st : SState) (s : Str) :
    (sstep W0 st (.poke s)).1.valid = st.valid ∧ (sstep W0 st (.poke s)).1.n = st.n := by
  unfold sstep
  dsimp only
  repeat' split
  all_goals exact ⟨rfl, rfl⟩

theorem sstep_poke_legacy (W0 : World) (st : SState) (p : Payload) (sg : TVal) (s : Str)
    (hmd : st.md = .legacy p sg) :
    sstep W0 st (.poke s) = ({ st with md := .legacy (pokeP p s) sg }, "ok") := by
  unfold sstep
  simp only [hmd]

/-- a small well-typed link whose command is `[cmd]` (for the non-vacuity examples of C04) -/
def pokeDemoLink (cmd : Str) : Payload :=
  .link (.struct [(lit% "_type", .str (lit% "link")), (lit% "name", .str (lit% "build")),
    (lit% "materials", .map (some [])), (lit% "products", .map (some [])),
    (lit% "byproducts", .map (some [])), (lit% "command", .list (some [.str cmd])),
    (lit% "environment", .map (some []))])

/-! ### adding a signature -/

theorem sigOK_worldOf (W0 : World) (st : SState) (p m s : Str) :
    (worldOf W0 st).sigOK p m s = true ↔ (p, m, s) ∈ st.valid := by
  simp only [worldOf, List.any_eq_true, decide_eq_true_eq]
  constructor
  · rintro ⟨⟨a, b, c⟩, hmem, h1, h2, h3⟩
    dsimp only at h1 h2 h3
    subst h1 h2 h3
    exact hmem
  · intro h
    exact ⟨_, h, rfl, rfl, rfl⟩

theorem signedBytes_addSig (m : Md) (id cert : Str) (raw : List UInt8) :
    signedBytes (addSig m id cert raw) = signedBytes m := by
  cases m <;> rfl

/-- the freshly added signature verifies -/
theorem verify_after_add (W : World) (m : Md) (k : Key) (cert msg : Str) (raw : List UInt8)
    (hk : keyUsable W k false = .ok ()) (hb : signedBytes m = some msg) (hid : k.keyid ≠ [])
    (hs : NoStale m k.keyid) (hraw : B64.decodeFlex (B64.encode raw) = some raw)
    (hok : W.sigOK k.pub msg (hexLower raw) = true) :
    mdVerify W (addSig m k.keyid cert raw) k = .ok () := by
  cases m with
  | legacy p sg =>
    have hm : addSig (.legacy p sg) k.keyid cert raw = .legacy p (.list (some (sigList sg ++ [.struct [(lit% "keyid", .str k.keyid), (lit% "sig", .str (hexLower raw)), (lit% "cert", .str cert)]]))) := rfl
    have hsigs := sigsOf_addSig_legacy p sg k.keyid cert raw
    rw [hm] at hsigs ⊢
    rw [mdVerify_legacy_iff]
    refine ⟨{ keyid := k.keyid, sig := hexLower raw, cert := cert }, msg, raw, ?_, hk, hb, hexDecode_hexLower raw, hok⟩
    unfold sigFor
    rw [hsigs, List.find?_append]
    have h0 : (sigsOf (.legacy p sg)).find? (fun s => s.keyid = k.keyid) = none := hs
    rw [h0]
    simp
  | dsse pt pl sg p =>
    have hm : addSig (.dsse pt pl sg p) k.keyid cert raw = .dsse pt pl (.list (some (sigList sg ++ [.struct [(lit% "keyid", .str k.keyid), (lit% "sig", .str (B64.encode raw))]]))) p := rfl
    have hsigs := sigsOf_addSig_dsse pt pl sg p k.keyid cert raw
    rw [hm] at hsigs ⊢
    rw [mdVerify_dsse_iff, hsigs]
    have hbody : ∃ body, bodyOf pl = some body ∧ msg = pae pt body := by
      replace hb : ((B64.decodeFlex pl).bind B64.bytesToStr).map (fun body => pae pt body) = some msg := hb
      unfold bodyOf
      cases hx : (B64.decodeFlex pl).bind B64.bytesToStr with
      | none => rw [hx] at hb; cases hb
      | some body => rw [hx] at hb; exact ⟨body, rfl, by simpa using hb.symm⟩
    obtain ⟨body, hbody, hmsg⟩ := hbody
    subst hmsg
    refine ⟨hk, by simp, body, hbody, ?_, ⟨{ keyid := k.keyid, sig := B64.encode raw, cert := [] }, by simp, Or.inr ⟨hid, rfl⟩, raw, hraw, hok⟩⟩
    intro s hs'
    rcases List.mem_append.1 hs' with h | h
    · exact hs s h
    · simp only [List.mem_singleton] at h
      subst h
      dsimp only
      rw [hraw]; rfl

/-- an added signature does not disturb a successful verification (legacy: the first signature
    with the key id is the one checked, and the new one comes last; DSSE: the new one decodes) -/
theorem verify_mono_add (W W' : World) (m : Md) (k : Key) (id cert : Str) (raw : List UInt8)
    (hku : keyUsable W' k false = keyUsable W k false)
    (hsig : ∀ p m s, W.sigOK p m s = true → W'.sigOK p m s = true)
    (hraw : (B64.decodeFlex (B64.encode raw)).isSome = true)
    (h : mdVerify W m k = .ok ()) :
    mdVerify W' (addSig m id cert raw) k = .ok () := by
  cases m with
  | legacy p sg =>
    have hm : addSig (.legacy p sg) id cert raw = .legacy p (.list (some (sigList sg ++ [.struct [(lit% "keyid", .str id), (lit% "sig", .str (hexLower raw)), (lit% "cert", .str cert)]]))) := rfl
    have hsigs := sigsOf_addSig_legacy p sg id cert raw
    rw [hm] at hsigs ⊢
    rw [mdVerify_legacy_iff] at h ⊢
    obtain ⟨s, msg, raw', hs, hk, hmsg, hraw', hok⟩ := h
    refine ⟨s, msg, raw', ?_, hku.trans hk, hmsg, hraw', hsig _ _ _ hok⟩
    unfold sigFor at hs ⊢
    rw [hsigs, List.find?_append, hs]
    rfl
  | dsse pt pl sg p =>
    have hm : addSig (.dsse pt pl sg p) id cert raw = .dsse pt pl (.list (some (sigList sg ++ [.struct [(lit% "keyid", .str id), (lit% "sig", .str (B64.encode raw))]]))) p := rfl
    have hsigs := sigsOf_addSig_dsse pt pl sg p id cert raw
    rw [hm] at hsigs ⊢
    rw [mdVerify_dsse_iff] at h ⊢
    rw [hsigs]
    obtain ⟨hk, _, body, hbody, hall, s, hs, hid, raw', hraw', hok⟩ := h
    refine ⟨hku.trans hk, by simp, body, hbody, ?_, s, List.mem_append_left _ hs, hid, raw', hraw', hsig _ _ _ hok⟩
    intro s' hs'
    rcases List.mem_append.1 hs' with h | h
    · exact hall s' h
    · simp only [List.mem_singleton] at h
      subst h
      exact hraw

/-! ### the sign step -/

theorem sstep_sign_ok (W0 : World) (st : SState) (k : Key) (msg : Str)
    (hu : keyUsable W0 k true = .ok ()) (hb : signedBytes st.md = some msg) :
    sstep W0 st (.sign k) =
      ({ md := addSig st.md k.keyid k.cert (tokenBytes (st.n + 1)),
         valid := st.valid ++ [(k.pub, msg, hexLower (tokenBytes (st.n + 1)))], n := st.n + 1 }, "ok") := by
  unfold sstep
  simp only [hu, hb]

theorem sstep_sign_ok_inv (W0 : World) (st : SState) (k : Key)
    (h : (sstep W0 st (.sign k)).2 = "ok") :
    ∃ msg, signedBytes st.md = some msg ∧ sstep W0 st (.sign k) =
      ({ md := addSig st.md k.keyid k.cert (tokenBytes (st.n + 1)),
         valid := st.valid ++ [(k.pub, msg, hexLower (tokenBytes (st.n + 1)))], n := st.n + 1 }, "ok") := by
  cases hu : keyUsable W0 k true with
  | err e => simp [sstep, hu] at h
  | panic e => simp [sstep, hu] at h
  | ok u =>
    cases u
    cases hb : signedBytes st.md with
    | none => simp [sstep, hu, hb] at h
    | some msg => exact ⟨msg, rfl, sstep_sign_ok W0 st k msg hu hb⟩

theorem tokenBytes_roundtrip (n : Nat) :
    B64.decodeFlex (B64.encode (tokenBytes n)) = some (tokenBytes n) := b64_roundtrip2 _ _

theorem sstep_verify_snd (W0 : World) (st : SState) (k : Key) :
    (sstep W0 st (.verify k)).2 = (mdVerify (worldOf W0 st) st.md k).cls := rfl

/-- C04 round trip: signing with a usable private key and then verifying with the public half
    succeeds (both wrappers), provided no stale signature with the same id is in the way -/
theorem sign_then_verify (W0 : World) (st : SState) (k : Key)
    (hu : keyUsable W0 k true = .ok ()) (hpub : keyUsable W0 (pubKey k) false = .ok ())
    (hb : (signedBytes st.md).isSome = true) (hid : k.keyid ≠ []) (hs : NoStale st.md k.keyid) :
    let st1 := (sstep W0 st (.sign k)).1
    (sstep W0 st (.sign k)).2 = "ok" ∧ (sstep W0 st1 (.verify (pubKey k))).2 = "ok" := by
  show (sstep W0 st (.sign k)).2 = "ok" ∧
    (sstep W0 (sstep W0 st (.sign k)).1 (.verify (pubKey k))).2 = "ok"
  cases hmsg : signedBytes st.md with
  | none => rw [hmsg] at hb; cases hb
  | some msg =>
    have key : ∀ st' : SState, (k.pub, msg, hexLower (tokenBytes (st.n + 1))) ∈ st'.valid →
        mdVerify (worldOf W0 st') (addSig st.md k.keyid k.cert (tokenBytes (st.n + 1))) (pubKey k) = .ok () := by
      intro st' hmem
      exact verify_after_add (worldOf W0 st') st.md (pubKey k) k.cert msg (tokenBytes (st.n + 1)) hpub hmsg hid hs
        (tokenBytes_roundtrip _) (by rw [sigOK_worldOf]; exact hmem)
    rw [sstep_sign_ok W0 st k msg hu hmsg, sstep_verify_snd]
    dsimp only
    rw [key _ (List.mem_append_right _ (List.mem_singleton.2 rfl))]
    exact ⟨rfl, rfl⟩

/-- C04 several keys in succession: a later signature by ANOTHER key id does not disturb an
    earlier successful verification -/
theorem later_signature_keeps_earlier (W0 : World) (st : SState) (k k2 : Key)
    (hv : (sstep W0 st (.verify k)).2 = "ok") (hne : k2.keyid ≠ k.keyid)
    (hs2 : (sstep W0 st (.sign k2)).2 = "ok") :
    (sstep W0 (sstep W0 st (.sign k2)).1 (.verify k)).2 = "ok" := by
  -- `hne` is not needed: the first signature with the id is the one checked, the new one comes last
  have _ := hne
  obtain ⟨msg, _, hstep⟩ := sstep_sign_ok_inv W0 st k2 hs2
  have h1 : mdVerify (worldOf W0 st) st.md k = .ok () := cls_ok_unit _ hv
  have key : ∀ st' : SState, (∀ e ∈ st.valid, e ∈ st'.valid) →
      mdVerify (worldOf W0 st') (addSig st.md k2.keyid k2.cert (tokenBytes (st.n + 1))) k = .ok () := by
    intro st' hmem
    refine verify_mono_add (worldOf W0 st) (worldOf W0 st') st.md k k2.keyid k2.cert
      (tokenBytes (st.n + 1)) rfl ?_ (by rw [tokenBytes_roundtrip]; rfl) h1
    intro p m s h
    rw [sigOK_worldOf] at h ⊢
    exact hmem _ h
  rw [hstep, sstep_verify_snd]
  dsimp only
  rw [key _ (fun e he => List.mem_append_left _ he)]
  rfl

end InToto.SignProofs
