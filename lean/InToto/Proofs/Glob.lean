import InToto.Model.Glob
import InToto.Spec.Glob
import InToto.Proofs.GlobMatches
import InToto.Proofs.GlobStar

/-!
Main correspondence between the model of `match` (`goMatchAux`, repaired star loop) and the
declarative glob specification, for ASCII patterns and names.

Structure of the development (all under `InToto/Proofs/`):
* `GlobMatches`  – lemmas on `Matches` / `matchItems` (spec only);
* `GlobSpecFuel` – `parsePatAux` is independent of its fuel;
* `GlobClass`    – bracket expressions: `parseRanges` vs `parseRangesS` via the grammar `CBody`;
* `GlobScan`     – `scanLoop` (fuel/offset independence, behaviour inside brackets);
* `GlobChunk`    – chunks as token sequences (`Tok`, `Chunk`): `matchChunk`, `parsePat`, `scan`;
* `GlobStar`     – `prefixMatch` vs `Matches`, `scanChunk`, the star loop (greedy argument);
* this file      – induction over the chunks of the pattern.
-/
namespace InToto.GlobProofs
open InToto.Glob InToto.GlobSpec

/-- The star-loop part of one iteration of `match`. -/
def starBranch (rec : Bytes → Bytes → Option Bool) (star : Bool) (chunk rest name : Bytes) :
    Option Bool :=
  let sr : StarRes :=
    if star then starLoop false chunk rest.isEmpty (name.length + 1) name else .none
  match sr with
  | .found t => rec rest t
  | .bad => Option.none
  | .none => if restValid (rest.length + 1) rest then some false else Option.none

/-- One iteration of `match` after `scanChunk`, with the recursive call abstracted. -/
def goStep (rec : Bytes → Bytes → Option Bool) (star : Bool) (chunk rest name : Bytes) :
    Option Bool :=
  if star && chunk.isEmpty then some true
  else
    let r := matchChunk chunk name
    let direct : Option Bytes :=
      match r with
      | .ok t => if t.isEmpty || !rest.isEmpty then some t else Option.none
      | _ => Option.none
    match direct with
    | some t => rec rest t
    | Option.none =>
      if r == .bad then Option.none
      else starBranch rec star chunk rest name

theorem goMatchAux_cons (f : Nat) (c : UInt8) (p0 name : Bytes) :
    goMatchAux false (f + 1) (c :: p0) name =
      goStep (goMatchAux false f) (scanChunk (c :: p0)).1 (scanChunk (c :: p0)).2.1
        (scanChunk (c :: p0)).2.2 name := by
  rfl

theorem goMatchAux_nil (f : Nat) (name : Bytes) :
    goMatchAux false (f + 1) [] name = some name.isEmpty := by
  rfl

theorem goStep_bad (rec : Bytes → Bytes → Option Bool) (star : Bool) (chunk rest name : Bytes)
    (h : goStep rec star chunk rest name = some true) (hne : ¬ (star && chunk.isEmpty) = true) :
    matchChunk chunk name ≠ .bad := by
  intro hbad
  simp [goStep, hne, hbad] at h

theorem goStep_chunk (rec : Bytes → Bytes → Option Bool) (star : Bool) {chunk : Bytes}
    {its : List Item} (hch : Chunk false chunk its) (rest name : Bytes) (hn : Ascii name) :
    goStep rec star chunk rest name =
      if star && chunk.isEmpty then some true
      else
        match prefixMatch its name with
        | some t =>
          if t.isEmpty || !rest.isEmpty then rec rest t
          else starBranch rec star chunk rest name
        | none => starBranch rec star chunk rest name := by
  unfold goStep
  split
  · rfl
  · rw [matchChunk_chunk hch name hn]
    simp only [chunkRes, Bool.false_eq_true, ↓reduceIte]
    cases prefixMatch its name with
    | none => simp
    | some t =>
      by_cases hc : (t.isEmpty || !rest.isEmpty) = true
      · simp [hc]
      · simp [hc]

theorem starBranch_true {rec : Bytes → Bytes → Option Bool} {star : Bool}
    {chunk rest name : Bytes} (h : starBranch rec star chunk rest name = some true) :
    star = true ∧ ∃ t, starLoop false chunk rest.isEmpty (name.length + 1) name = .found t ∧
      rec rest t = some true := by
  unfold starBranch at h
  cases star with
  | false =>
    simp only [Bool.false_eq_true, ↓reduceIte] at h
    split at h <;> simp at h
  | true =>
    simp only [↓reduceIte] at h
    split at h
    · rename_i t ht
      exact ⟨rfl, t, ht, h⟩
    · cases h
    · split at h <;> simp at h

theorem starBranch_found {rec : Bytes → Bytes → Option Bool} {chunk rest name t : Bytes}
    (h : starLoop false chunk rest.isEmpty (name.length + 1) name = .found t) :
    starBranch rec true chunk rest name = rec rest t := by
  simp [starBranch, h]

/-! ### soundness -/

theorem matches_stars_intro (k : Nat) (is : List Item) (pre n' : Bytes)
    (hk : pre ≠ [] → 0 < k) (h : Matches is (nat n')) :
    Matches (List.replicate k Item.star ++ is) (nat (pre ++ n')) := by
  rw [matches_stars_iff]
  split
  · rename_i hk0
    have : pre = [] := by
      by_cases hp : pre = []
      · exact hp
      · have := hk hp; omega
    subst this
    simpa using h
  · exact ⟨nat pre, nat n', by simp [nat], h⟩

theorem goMatchAux_sound : ∀ (fuel : Nat) (p n : Bytes), Ascii p → Ascii n →
    goMatchAux false fuel p n = some true →
    ∃ is, parsePat (nat p) = some is ∧ Matches is (nat n) := by
  intro fuel
  induction fuel with
  | zero => intro p n _ _ h; simp [goMatchAux] at h
  | succ f ih =>
    intro p n hp hn h
    cases p with
    | nil =>
      rw [goMatchAux_nil] at h
      have : n = [] := by simpa using h
      subst this
      exact ⟨[], rfl, Matches.nil⟩
    | cons c p0 =>
      rw [goMatchAux_cons] at h
      obtain ⟨k, p', hsplit, hnostar, hsc⟩ := scanChunk_spec (c :: p0)
      rw [hsc] at h
      simp only at h
      have hp' : Ascii p' := by rw [hsplit] at hp; exact hp.append_right
      have hstop := scan_stop p'.length p' (Nat.le_refl _) false
      have htd : p'.take (scan p' false) ++ p'.drop (scan p' false) = p' := List.take_append_drop _ _
      generalize hchunk : p'.take (scan p' false) = chunk at h htd
      generalize hrest : p'.drop (scan p' false) = rest at h htd hstop
      have hchA : Ascii chunk := by rw [← htd] at hp'; exact hp'.append_left
      have hrestA : Ascii rest := by rw [← htd] at hp'; exact hp'.append_right
      rw [hsplit, parsePat_stars]
      by_cases hse : (decide (0 < k) && chunk.isEmpty) = true
      · -- pattern consists of stars only
        simp only [Bool.and_eq_true, decide_eq_true_eq, List.isEmpty_iff] at hse
        obtain ⟨hk, hce⟩ := hse
        subst hce
        have hp'nil : p' = [] := by
          rcases List.take_eq_nil_iff.1 hchunk with h0 | h0
          · rw [h0, List.drop_zero] at hrest
            rcases hstop.2 with h1 | ⟨r, h1⟩
            · rw [hrest, h1]
            · exact absurd (hrest.trans h1) (hnostar r)
          · exact h0
        subst hp'nil
        refine ⟨List.replicate k Item.star ++ [], by simp [nat, parsePat_nil], ?_⟩
        have := matches_stars_intro k [] n [] (fun _ => hk) (by simpa [nat] using Matches.nil)
        simpa using this
      · have hbad := goStep_bad _ _ _ _ _ h hse
        obtain ⟨its, hch1⟩ := matchChunkAux_inv _ chunk hchA n false hbad
        have hch : Chunk false chunk its := by
          apply chunk_no_top_star hch1 rest
          rw [htd, ← hchunk, List.length_take]
          exact Nat.min_le_left _ _
        rw [goStep_chunk _ _ hch rest n hn] at h
        simp only [hse, Bool.false_eq_true, ↓reduceIte] at h
        have hparse : ∀ is', parsePat (nat rest) = some is' →
            parsePat (nat p') = some (its ++ is') := by
          intro is' hr
          rw [← htd]
          have : nat (chunk ++ rest) = nat chunk ++ nat rest := by simp [nat]
          rw [this, parsePat_chunk hch, hr]; rfl
        -- the two ways to succeed
        have hdirect : ∀ t, prefixMatch its n = some t → goMatchAux false f rest t = some true →
            ∃ is, Option.map (fun x => List.replicate k Item.star ++ x) (parsePat (nat p')) =
              some is ∧ Matches is (nat n) := by
          intro t hpm hrec
          have htA : Ascii t := Ascii.suffix (prefixMatch_suffix _ _ _ hpm).1 hn
          obtain ⟨is', hr, hm⟩ := ih rest t hrestA htA hrec
          refine ⟨List.replicate k Item.star ++ (its ++ is'), by rw [hparse is' hr]; rfl, ?_⟩
          have := matches_of_prefixMatch its hch.no_star n t is' hpm hm
          simpa using matches_stars_intro k _ [] n (fun h => absurd rfl h) this
        have hstar : starBranch (goMatchAux false f) (decide (0 < k)) chunk rest n = some true →
            ∃ is, Option.map (fun x => List.replicate k Item.star ++ x) (parsePat (nat p')) =
              some is ∧ Matches is (nat n) := by
          intro hsb
          obtain ⟨hk, t, hsl, hrec⟩ := starBranch_true hsb
          simp only [decide_eq_true_eq] at hk
          obtain ⟨n', hsuf, hpm⟩ := starLoop_sound hch _ _ n hn t hsl
          have hn'A : Ascii n' := Ascii.suffix hsuf hn
          have htA : Ascii t := Ascii.suffix (prefixMatch_suffix _ _ _ hpm).1 hn'A
          obtain ⟨is', hr, hm⟩ := ih rest t hrestA htA hrec
          refine ⟨List.replicate k Item.star ++ (its ++ is'), by rw [hparse is' hr]; rfl, ?_⟩
          have := matches_of_prefixMatch its hch.no_star n' t is' hpm hm
          obtain ⟨pre, rfl⟩ := hsuf
          exact matches_stars_intro k _ pre n' (fun _ => hk) this
        split at h
        · rename_i t hpm
          split at h
          · exact hdirect t hpm h
          · exact hstar h
        · exact hstar h

/-! ### completeness -/

theorem goMatchAux_complete : ∀ (fuel : Nat) (p n : Bytes), Ascii p → Ascii n → p.length < fuel →
    ∀ is, parsePat (nat p) = some is → Matches is (nat n) →
    goMatchAux false fuel p n = some true := by
  intro fuel
  induction fuel with
  | zero => intro p n _ _ h; omega
  | succ f ih =>
    intro p n hp hn hfuel is hparse hm
    cases p with
    | nil =>
      rw [goMatchAux_nil]
      simp only [nat, List.map_nil, parsePat_nil, Option.some.injEq] at hparse
      subst hparse
      have := nat_eq_nil (matches_nil_inv hm)
      subst this
      rfl
    | cons c p0 =>
      rw [goMatchAux_cons]
      obtain ⟨k, p', hsplit, hnostar, hsc⟩ := scanChunk_spec (c :: p0)
      rw [hsc]
      simp only
      have hp' : Ascii p' := by rw [hsplit] at hp; exact hp.append_right
      rw [hsplit, parsePat_stars] at hparse
      obtain ⟨is1, hparse1, his⟩ := Option.map_eq_some_iff.1 hparse
      subst his
      obtain ⟨chunk, its, rest, is', hp'split, hch, his1, hparseR, hform⟩ :=
        parsePat_chunk_inv p'.length p' (Nat.le_refl _) hp' is1 hparse1
      subst his1
      have hchA : Ascii chunk := by rw [hp'split] at hp'; exact hp'.append_left
      have hrestA : Ascii rest := by rw [hp'split] at hp'; exact hp'.append_right
      have hscan : scan p' false = chunk.length := by
        rw [hp'split, scan_chunk hch]
        rcases hform with rfl | ⟨r, rfl⟩
        · simp [scan_nil]
        · simp [scan_star]
      have htake : p'.take (scan p' false) = chunk := by rw [hscan, hp'split]; simp
      have hdrop : p'.drop (scan p' false) = rest := by rw [hscan, hp'split]; simp
      rw [htake, hdrop, goStep_chunk _ _ hch rest n hn]
      split
      · rfl
      · rename_i hse
        -- the rest of the pattern is strictly shorter
        have hlen : rest.length < f := by
          have h1 := congrArg List.length hsplit
          have h2 := congrArg List.length hp'split
          simp only [List.length_cons, List.length_append, List.length_replicate] at h1 h2 hfuel
          by_cases hk : 0 < k
          · omega
          · have hk0 : k = 0 := by omega
            have hcne : chunk ≠ [] := by
              intro hce
              subst hce hk0
              simp only [List.replicate_zero, List.nil_append] at hsplit hp'split
              rcases hform with rfl | ⟨r, rfl⟩
              · rw [hp'split] at hsplit; cases hsplit
              · exact hnostar r hp'split
            have : 0 < chunk.length := List.length_pos_iff.2 hcne
            omega
        have hrec : ∀ t, Ascii t → Matches is' (nat t) → goMatchAux false f rest t = some true :=
          fun t htA hmt => ih rest t hrestA htA hlen is' hparseR hmt
        -- shape of the remaining items
        have hshape : (rest = [] ∧ is' = []) ∨ (rest ≠ [] ∧ ∃ is'', is' = Item.star :: is'') := by
          rcases hform with rfl | ⟨r, rfl⟩
          · left
            simp only [nat, List.map_nil, parsePat_nil, Option.some.injEq] at hparseR
            exact ⟨rfl, hparseR.symm⟩
          · right
            refine ⟨by simp, ?_⟩
            have : nat (Glob.cStar :: r) = GlobSpec.cStar :: nat r := by
              simp [nat, Glob.cStar, GlobSpec.cStar]
            rw [this, parsePat_star] at hparseR
            obtain ⟨is'', _, h2⟩ := Option.map_eq_some_iff.1 hparseR
            exact ⟨is'', h2.symm⟩
        rw [matches_stars_iff] at hm
        split at hm
        · -- no star in front of the chunk: the chunk must match at position 0
          obtain ⟨t, hpm, hmt⟩ := prefixMatch_of_matches its hch.no_star n is' hm
          have htA : Ascii t := Ascii.suffix (prefixMatch_suffix _ _ _ hpm).1 hn
          have hcond : (t.isEmpty || !rest.isEmpty) = true := by
            rcases hshape with ⟨_, rfl⟩ | ⟨hr, _⟩
            · have := nat_eq_nil (matches_nil_inv hmt)
              subst this; rfl
            · cases rest with
              | nil => exact absurd rfl hr
              | cons _ _ => simp
          simp only [hpm, hcond, ↓reduceIte]
          exact hrec t htA hmt
        · rename_i hk
          have hk' : decide (0 < k) = true := by simp; omega
          obtain ⟨s, t0, hnst, hm0⟩ := hm
          obtain ⟨pre, n', rfl, -, rfl⟩ := nat_eq_append hnst
          obtain ⟨t', hpm', hmt'⟩ := prefixMatch_of_matches its hch.no_star n' is' hm0
          have hn'A : Ascii n' := hn.append_right
          rw [hk']
          rcases hshape with ⟨rfl, rfl⟩ | ⟨hr, is'', rfl⟩
          · -- final chunk: must match at the very end of the name
            have ht' := nat_eq_nil (matches_nil_inv hmt')
            subst ht'
            have hfin : goMatchAux false f [] [] = some true := hrec [] ascii_nil hmt'
            by_cases hpre : pre = []
            · subst hpre
              simp only [List.nil_append, hpm']
              simpa using hfin
            · have hsl := starLoop_complete_last hch n' hpm' pre hpre ((pre ++ n').length + 1) hn
                (Nat.le_succ _)
              have hsb : starBranch (goMatchAux false f) true chunk [] (pre ++ n') = some true := by
                rw [starBranch_found (by simpa using hsl)]; exact hfin
              cases hpm : prefixMatch its (pre ++ n') with
              | none => simpa using hsb
              | some t =>
                cases t with
                | nil => simpa using hfin
                | cons a t => simpa using hsb
          · -- non-final chunk: the leftmost match is at least as good
            have hrne : rest.isEmpty = false := by
              cases rest with
              | nil => exact absurd rfl hr
              | cons _ _ => rfl
            cases hpm : prefixMatch its (pre ++ n') with
            | some t =>
              have htA : Ascii t := Ascii.suffix (prefixMatch_suffix _ _ _ hpm).1 hn
              have hsuf : t' <:+ t := prefixMatch_mono (List.suffix_append _ _) hpm' hpm
              simp only [hrne, Bool.not_false, Bool.or_true, ↓reduceIte]
              exact hrec t htA (matches_suffix hsuf hmt')
            | none =>
              have hpre : pre ≠ [] := by
                intro h; subst h
                simp only [List.nil_append] at hpm
                rw [hpm'] at hpm; cases hpm
              obtain ⟨n2, t2, h1, h2, h3, h4⟩ := starLoop_complete_first hch n' t' hpm' pre hpre
                ((pre ++ n').length + 1) hn (Nat.le_succ _)
              have hn2A : Ascii n2 := Ascii.suffix h1 hn
              have ht2A : Ascii t2 := Ascii.suffix (prefixMatch_suffix _ _ _ h3).1 hn2A
              have hsuf : t' <:+ t2 := prefixMatch_mono h2 hpm' h3
              simp only
              rw [starBranch_found (by rw [hrne]; exact h4)]
              exact hrec t2 ht2A (matches_suffix hsuf hmt')

/-! ### the three theorems -/

theorem matchItems_iff (is : List Item) (n : List Nat) :
    matchItems is n = true ↔ Matches is n :=
  matchItems_iff_matches is n

theorem filterHas_iff (p n : Bytes) :
    filterHas false p n = true ↔ goMatchAux false (p.length + 1) p n = some true := by
  simp [filterHas, goMatch]

theorem correct_ascii (p n : Bytes) (hp : ∀ x ∈ p, x < 128) (hn : ∀ x ∈ n, x < 128) :
    filterHas false p n = true ↔
      ∃ is, parsePat (p.map UInt8.toNat) = some is ∧ Matches is (n.map UInt8.toNat) := by
  rw [filterHas_iff]
  constructor
  · exact goMatchAux_sound _ p n hp hn
  · rintro ⟨is, h1, h2⟩
    exact goMatchAux_complete _ p n hp hn (Nat.lt_succ_self _) is h1 h2

theorem malformed (p n : Bytes) (hp : ∀ x ∈ p, x < 128) (hn : ∀ x ∈ n, x < 128)
    (h : parsePat (p.map UInt8.toNat) = none) : filterHas false p n = false := by
  cases hf : filterHas false p n with
  | false => rfl
  | true =>
    obtain ⟨is, h1, _⟩ := (correct_ascii p n hp hn).1 hf
    rw [h] at h1
    cases h1

end InToto.GlobProofs
