/-
Proofs about the several-writers model of command capture (InToto/Model/PipesMulti.lean).
-/
import InToto.Model.PipesMulti
import InToto.Proofs.Pipes

namespace InToto.PipesMultiProofs
open InToto.Pipes (Stream Discipline upTo progBytes)
open InToto.PipesProofs (mem_upTo)
open InToto.PipesMulti

/-! ### sums over writer lists -/

/-- total number of remaining actions -/
def progLen : List Writer → Nat
  | [] => 0
  | w :: rest => w.prog.length + progLen rest

/-- number of writers that have not exited -/
def alive : List Writer → Nat
  | [] => 0
  | w :: rest => (if w.exited then 0 else 1) + alive rest

/-- has the command itself (writer 0) exited? -/
def cmdExited : List Writer → Bool
  | [] => false
  | w :: _ => w.exited

/-- the recorded status: the command's own once it has exited, none before -/
def statusOf (code : Nat) : Bool → Option Nat
  | true => some code
  | false => none

theorem remaining_append (s : Stream) (a b : List Writer) :
    remaining s (a ++ b) = remaining s a + remaining s b := by
  induction a with
  | nil => simp [remaining]
  | cons w a ih => simp [remaining, ih]; omega

theorem progLen_append (a b : List Writer) : progLen (a ++ b) = progLen a + progLen b := by
  induction a with
  | nil => simp [progLen]
  | cons w a ih => simp [progLen, ih]; omega

theorem alive_append (a b : List Writer) : alive (a ++ b) = alive a + alive b := by
  induction a with
  | nil => simp [alive]
  | cons w a ih => simp [alive, ih]; omega

theorem remaining_init (s : Stream) (progs : List (List (Stream × Nat))) :
    remaining s (progs.map fun p => ({ prog := p, exited := false } : Writer)) = totalBytes s progs := by
  induction progs with
  | nil => simp [remaining, totalBytes]
  | cons p rest ih => simp [remaining, totalBytes, ih]

/-! ### case analysis of a step -/

theorem writerMoves_cases {cap : Nat} {st : MState} {w : Writer} {m : Writer × Stream × Nat}
    (h : m ∈ writerMoves cap st w) :
    w.exited = false ∧
    ((w.prog = [] ∧ m = ({ w with exited := true }, .out, 0)) ∨
     (∃ s rest, w.prog = (s, 0) :: rest ∧ m = ({ w with prog := rest }, s, 0)) ∨
     (∃ s n rest k, w.prog = (s, n) :: rest ∧ n ≠ 0 ∧ 1 ≤ k ∧ k ≤ n ∧ k ≤ cap - buf st s ∧
       m = ({ w with prog := if n - k = 0 then rest else (s, n - k) :: rest }, s, k))) := by
  unfold writerMoves at h
  split at h
  · simp at h
  · rename_i hex
    have hex' : w.exited = false := by simpa using hex
    refine ⟨hex', ?_⟩
    split at h
    · rename_i hp
      rw [List.mem_singleton] at h
      exact Or.inl ⟨hp, h⟩
    · rename_i s n rest hp
      split at h
      · rename_i hn
        subst hn
        rw [List.mem_singleton] at h
        exact Or.inr (Or.inl ⟨s, rest, hp, h⟩)
      · rename_i hn
        rw [List.mem_map] at h
        obtain ⟨k, hk, rfl⟩ := h
        rw [mem_upTo] at hk
        exact Or.inr (Or.inr ⟨s, n, rest, k, hp, hn, hk.1, by omega, by omega, rfl⟩)

theorem mem_writerStepsAux {cap code : Nat} {st st' : MState} :
    ∀ (ws pre : List Writer), st' ∈ writerStepsAux cap code st pre ws →
      ∃ p w q m, ws = p ++ w :: q ∧ m ∈ writerMoves cap st w ∧ st' = applyMove code st (pre ++ p) q m := by
  intro ws
  induction ws with
  | nil => intro pre h; simp [writerStepsAux] at h
  | cons w post ih =>
    intro pre h
    unfold writerStepsAux at h
    rw [List.mem_append] at h
    rcases h with h | h
    · rw [List.mem_map] at h
      obtain ⟨m, hm, rfl⟩ := h
      exact ⟨[], w, post, m, rfl, hm, by simp⟩
    · obtain ⟨p, w', q, m, hpost, hm, rfl⟩ := ih (pre ++ [w]) h
      exact ⟨w :: p, w', q, m, by simp [hpost], hm, by simp⟩

theorem writerStepsAux_mem {cap code : Nat} {st : MState} {w : Writer} {q : List Writer}
    {m : Writer × Stream × Nat} (hm : m ∈ writerMoves cap st w) :
    ∀ (p pre : List Writer), applyMove code st (pre ++ p) q m ∈ writerStepsAux cap code st pre (p ++ w :: q) := by
  intro p
  induction p with
  | nil =>
    intro pre
    simp only [List.nil_append, List.append_nil]
    unfold writerStepsAux
    exact List.mem_append.mpr (Or.inl (List.mem_map.mpr ⟨m, hm, rfl⟩))
  | cons a p ih =>
    intro pre
    have h := ih (pre ++ [a])
    simp only [List.cons_append]
    unfold writerStepsAux
    refine List.mem_append.mpr (Or.inr ?_)
    simpa using h

/-- complete case analysis of a step -/
theorem step_cases {d : Discipline} {cap code : Nat} {st st' : MState} (hs : Step d cap code st st') :
    (∃ p w q, st.writers = p ++ w :: q ∧ w.exited = false ∧ w.prog = [] ∧
      st' = { st with writers := p ++ { w with exited := true } :: q,
                      status := if p.isEmpty then some code else st.status }) ∨
    (∃ p w q s rest, st.writers = p ++ w :: q ∧ w.exited = false ∧ w.prog = (s, 0) :: rest ∧
      st' = { st with writers := p ++ { w with prog := rest } :: q }) ∨
    (∃ p w q s n rest k, st.writers = p ++ w :: q ∧ w.exited = false ∧ w.prog = (s, n) :: rest ∧
      n ≠ 0 ∧ 1 ≤ k ∧ k ≤ n ∧ k ≤ cap - buf st s ∧
      st' = addBuf { st with writers := p ++ { w with prog := if n - k = 0 then rest else (s, n - k) :: rest } :: q } s k) ∨
    (st.waited = false ∧ st.outEOF = true ∧ st.errEOF = true ∧ st' = { st with waited := true }) ∨
    (∃ k, st.waited = false ∧ st.outEOF = false ∧ 1 ≤ k ∧ k ≤ st.outBuf ∧
      st' = { st with outBuf := st.outBuf - k, outGot := st.outGot + k }) ∨
    (st.waited = false ∧ st.outEOF = false ∧ st.outBuf = 0 ∧ allExited st = true ∧
      st' = { st with outEOF := true }) ∨
    (∃ k, st.waited = false ∧ st.errEOF = false ∧ 1 ≤ k ∧ k ≤ st.errBuf ∧
      st' = { st with errBuf := st.errBuf - k, errGot := st.errGot + k }) ∨
    (st.waited = false ∧ st.errEOF = false ∧ st.errBuf = 0 ∧ allExited st = true ∧
      st' = { st with errEOF := true }) := by
  have hout : st' ∈ readSteps st .out →
      (∃ k, st.outEOF = false ∧ 1 ≤ k ∧ k ≤ st.outBuf ∧
        st' = { st with outBuf := st.outBuf - k, outGot := st.outGot + k }) ∨
      (st.outEOF = false ∧ st.outBuf = 0 ∧ allExited st = true ∧ st' = { st with outEOF := true }) := by
    intro h
    unfold readSteps at h
    simp only at h
    split at h
    · simp at h
    · split at h
      · rw [List.mem_map] at h
        obtain ⟨k, hk, rfl⟩ := h
        rw [mem_upTo] at hk
        exact Or.inl ⟨k, by simp_all, hk.1, hk.2, rfl⟩
      · split at h
        · rw [List.mem_singleton] at h
          exact Or.inr ⟨by simp_all, by omega, by assumption, h⟩
        · simp at h
  have herr : st' ∈ readSteps st .err →
      (∃ k, st.errEOF = false ∧ 1 ≤ k ∧ k ≤ st.errBuf ∧
        st' = { st with errBuf := st.errBuf - k, errGot := st.errGot + k }) ∨
      (st.errEOF = false ∧ st.errBuf = 0 ∧ allExited st = true ∧ st' = { st with errEOF := true }) := by
    intro h
    unfold readSteps at h
    simp only at h
    split at h
    · simp at h
    · split at h
      · rw [List.mem_map] at h
        obtain ⟨k, hk, rfl⟩ := h
        rw [mem_upTo] at hk
        exact Or.inl ⟨k, by simp_all, hk.1, hk.2, rfl⟩
      · split at h
        · rw [List.mem_singleton] at h
          exact Or.inr ⟨by simp_all, by omega, by assumption, h⟩
        · simp at h
  unfold Step stepsFrom at hs
  rw [List.mem_append] at hs
  rcases hs with hc | hp
  · unfold writerSteps at hc
    obtain ⟨p, w, q, m, hw, hm, rfl⟩ := mem_writerStepsAux _ _ hc
    obtain ⟨hex, hm⟩ := writerMoves_cases hm
    rcases hm with ⟨hp, rfl⟩ | ⟨s, rest, hp, rfl⟩ | ⟨s, n, rest, k, hp, hn, k1, k2, k3, rfl⟩
    · refine Or.inl ⟨p, w, q, hw, hex, hp, ?_⟩
      simp [applyMove, addBuf]
    · refine Or.inr (Or.inl ⟨p, w, q, s, rest, hw, hex, hp, ?_⟩)
      cases s <;> simp [applyMove, addBuf, hex]
    · refine Or.inr (Or.inr (Or.inl ⟨p, w, q, s, n, rest, k, hw, hex, hp, hn, k1, k2, k3, ?_⟩))
      cases s <;> simp [applyMove, addBuf, hex]
  · unfold parentSteps at hp
    split at hp
    · simp at hp
    · rename_i hw
      have hw' : st.waited = false := by simpa using hw
      split at hp
      · rename_i he
        rw [List.mem_singleton] at hp
        simp at he
        exact Or.inr (Or.inr (Or.inr (Or.inl ⟨hw', he.1, he.2, hp⟩)))
      · have key : st' ∈ readSteps st .out ∨ st' ∈ readSteps st .err := by
          cases d
          · simp only at hp
            split at hp
            · exact Or.inl hp
            · exact Or.inr hp
          · simp only at hp
            exact List.mem_append.mp hp
        rcases key with h | h
        · rcases hout h with ⟨k, h1, h2, h3, h4⟩ | ⟨h1, h2, h3, h4⟩
          · exact Or.inr (Or.inr (Or.inr (Or.inr (Or.inl ⟨k, hw', h1, h2, h3, h4⟩))))
          · exact Or.inr (Or.inr (Or.inr (Or.inr (Or.inr (Or.inl ⟨hw', h1, h2, h3, h4⟩)))))
        · rcases herr h with ⟨k, h1, h2, h3, h4⟩ | ⟨h1, h2, h3, h4⟩
          · exact Or.inr (Or.inr (Or.inr (Or.inr (Or.inr (Or.inr (Or.inl ⟨k, hw', h1, h2, h3, h4⟩))))))
          · exact Or.inr (Or.inr (Or.inr (Or.inr (Or.inr (Or.inr (Or.inr ⟨hw', h1, h2, h3, h4⟩))))))

/-! ### invariant -/

theorem not_allExited {st : MState} {p q : List Writer} {w : Writer}
    (hw : st.writers = p ++ w :: q) (hex : w.exited = false) : allExited st = false := by
  simp [allExited, hw, hex]

/-- pipes never hold more than their capacity; EOF is only seen on an empty pipe after EVERY writer
    has exited; a writer exits only when its program is finished; the status is recorded exactly
    when the command itself (writer 0) has exited -/
def Inv (cap code : Nat) (st : MState) : Prop :=
  st.outBuf ≤ cap ∧ st.errBuf ≤ cap ∧
  (st.outEOF = true → st.outBuf = 0 ∧ allExited st = true) ∧
  (st.errEOF = true → st.errBuf = 0 ∧ allExited st = true) ∧
  (∀ w ∈ st.writers, w.exited = true → w.prog = []) ∧
  (st.waited = true → st.outEOF = true ∧ st.errEOF = true) ∧
  st.status = statusOf code (cmdExited st.writers)

theorem status_replace {code : Nat} {st : MState} {p q : List Writer} {w w' : Writer}
    (hw : st.writers = p ++ w :: q) (he : w'.exited = w.exited)
    (h7 : st.status = statusOf code (cmdExited st.writers)) :
    st.status = statusOf code (cmdExited (p ++ w' :: q)) := by
  rw [h7, hw]
  cases p <;> simp [cmdExited, he]

theorem status_exit {code : Nat} {st : MState} {p q : List Writer} {w : Writer}
    (hw : st.writers = p ++ w :: q)
    (h7 : st.status = statusOf code (cmdExited st.writers)) :
    (if p.isEmpty then some code else st.status) =
      statusOf code (cmdExited (p ++ { w with exited := true } :: q)) := by
  cases p with
  | nil => simp [cmdExited, statusOf]
  | cons a p => rw [h7, hw]; simp [cmdExited]

theorem inv_init (cap code : Nat) (progs : List (List (Stream × Nat))) : Inv cap code (init code progs) := by
  refine ⟨by simp [init], by simp [init], by simp [init], by simp [init], ?_, by simp [init], ?_⟩
  · intro w hw
    simp only [init, List.mem_map] at hw
    obtain ⟨p, _, rfl⟩ := hw
    simp
  · cases progs <;> simp [init, cmdExited, statusOf]

theorem inv_step (d : Discipline) (cap code : Nat) (st st' : MState) (h : Inv cap code st)
    (hs : Step d cap code st st') : Inv cap code st' := by
  obtain ⟨h1, h2, h3, h4, h5, h6, h7⟩ := h
  have eofFalse : ∀ {p q : List Writer} {w : Writer}, st.writers = p ++ w :: q → w.exited = false →
      st.outEOF = false ∧ st.errEOF = false ∧ st.waited = false := by
    intro p q w hw hex
    have hna := not_allExited hw hex
    have ho : st.outEOF = false := by
      cases hh : st.outEOF
      · rfl
      · have := (h3 hh).2; simp [hna] at this
    have he : st.errEOF = false := by
      cases hh : st.errEOF
      · rfl
      · have := (h4 hh).2; simp [hna] at this
    refine ⟨ho, he, ?_⟩
    cases hh : st.waited
    · rfl
    · have := (h6 hh).1; simp [ho] at this
  rcases step_cases hs with ⟨p, w, q, hw, hex, hp, rfl⟩ | ⟨p, w, q, s, rest, hw, hex, hp, rfl⟩ |
    ⟨p, w, q, s, n, rest, k, hw, hex, hp, hn, k1, k2, k3, rfl⟩ |
    ⟨a, b, c, rfl⟩ | ⟨k, a, b, k1, k2, rfl⟩ | ⟨a, b, c, e, rfl⟩ | ⟨k, a, b, k1, k2, rfl⟩ | ⟨a, b, c, e, rfl⟩
  · -- a writer exits
    obtain ⟨eo, ee, ew⟩ := eofFalse hw hex
    refine ⟨h1, h2, by simp [eo], by simp [ee], ?_, by simp [ew], ?_⟩
    · intro x hx hxe
      simp only [List.mem_append, List.mem_cons] at hx
      rcases hx with hx | rfl | hx
      · exact h5 x (by simp [hw, hx]) hxe
      · exact hp
      · exact h5 x (by simp [hw, hx]) hxe
    · exact status_exit hw h7
  · -- a writer skips an empty action
    obtain ⟨eo, ee, ew⟩ := eofFalse hw hex
    refine ⟨h1, h2, by simp [eo], by simp [ee], ?_, by simp [ew], ?_⟩
    · intro x hx hxe
      simp only [List.mem_append, List.mem_cons] at hx
      rcases hx with hx | rfl | hx
      · exact h5 x (by simp [hw, hx]) hxe
      · simp [hex] at hxe
      · exact h5 x (by simp [hw, hx]) hxe
    · exact status_replace (st := st) hw rfl h7
  · -- a writer writes k bytes
    obtain ⟨eo, ee, ew⟩ := eofFalse hw hex
    have h5' : ∀ x ∈ p ++ { w with prog := if n - k = 0 then rest else (s, n - k) :: rest } :: q,
        x.exited = true → x.prog = [] := by
      intro x hx hxe
      simp only [List.mem_append, List.mem_cons] at hx
      rcases hx with hx | rfl | hx
      · exact h5 x (by simp [hw, hx]) hxe
      · simp [hex] at hxe
      · exact h5 x (by simp [hw, hx]) hxe
    have h7' : st.status = statusOf code
        (cmdExited (p ++ { w with prog := if n - k = 0 then rest else (s, n - k) :: rest } :: q)) :=
      status_replace (st := st) hw rfl h7
    cases s
    · refine ⟨?_, h2, by simp [addBuf, eo], by simp [addBuf, ee], h5', by simp [addBuf, ew], h7'⟩
      simp [addBuf, buf] at k3 ⊢; omega
    · refine ⟨h1, ?_, by simp [addBuf, eo], by simp [addBuf, ee], h5', by simp [addBuf, ew], h7'⟩
      simp [addBuf, buf] at k3 ⊢; omega
  · exact ⟨h1, h2, h3, h4, h5, fun _ => ⟨b, c⟩, h7⟩
  · refine ⟨?_, h2, by simp [b], h4, h5, by simpa using h6, h7⟩
    simp; omega
  · refine ⟨h1, h2, fun _ => ⟨c, e⟩, h4, h5, by simp [a], h7⟩
  · refine ⟨h1, ?_, h3, by simp [b], h5, by simpa using h6, h7⟩
    simp; omega
  · refine ⟨h1, h2, h3, fun _ => ⟨c, e⟩, h5, by simp [a], h7⟩

/-! ### conservation and progress -/

/-- nothing is lost or invented by a step: received + buffered + still to be written (summed over
    all writers) is constant, per stream -/
theorem conservation_step (d : Discipline) (cap code : Nat) (st st' : MState) (hs : Step d cap code st st') :
    st'.outGot + st'.outBuf + remaining .out st'.writers = st.outGot + st.outBuf + remaining .out st.writers ∧
    st'.errGot + st'.errBuf + remaining .err st'.writers = st.errGot + st.errBuf + remaining .err st.writers := by
  rcases step_cases hs with ⟨p, w, q, hw, hex, hp, rfl⟩ | ⟨p, w, q, s, rest, hw, hex, hp, rfl⟩ |
    ⟨p, w, q, s, n, rest, k, hw, hex, hp, hn, k1, k2, k3, rfl⟩ |
    ⟨a, b, c, rfl⟩ | ⟨k, a, b, k1, k2, rfl⟩ | ⟨a, b, c, e, rfl⟩ | ⟨k, a, b, k1, k2, rfl⟩ | ⟨a, b, c, e, rfl⟩
  · simp [hw, remaining_append, remaining]
  · simp [hw, remaining_append, remaining, hp, progBytes]
  · cases s <;> by_cases h0 : n - k = 0 <;>
      simp [addBuf, hw, remaining_append, remaining, hp, progBytes, h0] <;> omega
  · simp
  · simp; omega
  · simp
  · simp; omega
  · simp

/-- every step makes progress (so every run is finite: at most `measure` steps) -/
def measure (st : MState) : Nat :=
  2 * (remaining .out st.writers + remaining .err st.writers) + 2 * progLen st.writers + st.outBuf + st.errBuf +
  alive st.writers + (if st.outEOF then 0 else 1) + (if st.errEOF then 0 else 1) + (if st.waited then 0 else 1)

theorem step_decreases (d : Discipline) (cap code : Nat) (st st' : MState) (hs : Step d cap code st st') :
    measure st' < measure st := by
  rcases step_cases hs with ⟨p, w, q, hw, hex, hp, rfl⟩ | ⟨p, w, q, s, rest, hw, hex, hp, rfl⟩ |
    ⟨p, w, q, s, n, rest, k, hw, hex, hp, hn, k1, k2, k3, rfl⟩ |
    ⟨a, b, c, rfl⟩ | ⟨k, a, b, k1, k2, rfl⟩ | ⟨a, b, c, e, rfl⟩ | ⟨k, a, b, k1, k2, rfl⟩ | ⟨a, b, c, e, rfl⟩
  · simp [measure, hw, remaining_append, remaining, progLen_append, progLen, alive_append, alive, hex]
  · simp [measure, hw, remaining_append, remaining, progLen_append, progLen, alive_append, alive, hp, progBytes]
  · cases s <;> by_cases h0 : n - k = 0 <;>
      simp [measure, addBuf, hw, remaining_append, remaining, progLen_append, progLen, alive_append, alive,
        hp, progBytes, h0] <;> omega
  · simp [measure, a]
  · simp [measure]; omega
  · simp [measure, b]
  · simp [measure]; omega
  · simp [measure, b]

/-! ### liveness of the concurrent discipline -/

theorem readOut_nonempty (st : MState) (he : st.outEOF = false)
    (h : 0 < st.outBuf ∨ allExited st = true) : ∃ st', st' ∈ readSteps st .out := by
  unfold readSteps
  simp only [he]
  by_cases hb : st.outBuf > 0
  · refine ⟨{ st with outBuf := st.outBuf - 1, outGot := st.outGot + 1 }, ?_⟩
    simp only [hb, Bool.false_eq_true, if_false, if_true]
    exact List.mem_map.mpr ⟨1, (mem_upTo _ _).mpr ⟨Nat.le_refl _, hb⟩, by simp [he]⟩
  · have hx : allExited st = true := by
      rcases h with h | h
      · exact absurd h hb
      · exact h
    exact ⟨{ st with outEOF := true }, by simp [hb, hx]⟩

theorem readErr_nonempty (st : MState) (he : st.errEOF = false)
    (h : 0 < st.errBuf ∨ allExited st = true) : ∃ st', st' ∈ readSteps st .err := by
  unfold readSteps
  simp only [he]
  by_cases hb : st.errBuf > 0
  · refine ⟨{ st with errBuf := st.errBuf - 1, errGot := st.errGot + 1 }, ?_⟩
    simp only [hb, Bool.false_eq_true, if_false, if_true]
    exact List.mem_map.mpr ⟨1, (mem_upTo _ _).mpr ⟨Nat.le_refl _, hb⟩, by simp [he]⟩
  · have hx : allExited st = true := by
      rcases h with h | h
      · exact absurd h hb
      · exact h
    exact ⟨{ st with errEOF := true }, by simp [hb, hx]⟩

/-- some writer has not exited: pick one -/
theorem exists_alive {st : MState} (h : allExited st = false) :
    ∃ p w q, st.writers = p ++ w :: q ∧ w.exited = false := by
  unfold allExited at h
  rw [List.all_eq_false] at h
  obtain ⟨w, hw, hx⟩ := h
  obtain ⟨p, q, hpq⟩ := List.append_of_mem hw
  exact ⟨p, w, q, hpq, by simpa using hx⟩

/-- a move of the writer standing between `p` and `q` is a step of the system -/
theorem writer_move_is_step {d : Discipline} {cap code : Nat} {st : MState} {p q : List Writer} {w : Writer}
    {m : Writer × Stream × Nat} (hw : st.writers = p ++ w :: q) (hm : m ∈ writerMoves cap st w) :
    Step d cap code st (applyMove code st p q m) := by
  unfold Step stepsFrom writerSteps
  refine List.mem_append.mpr (Or.inl ?_)
  rw [hw]
  have := writerStepsAux_mem (code := code) (q := q) hm p []
  simpa using this

/-- liveness of the concurrent discipline with several writers: with a pipe capacity > 0, NO state
    satisfying the invariant short of the end is stuck -/
theorem conc_never_stuck (cap code : Nat) (hc : 0 < cap) (st : MState) (hi : Inv cap code st)
    (hf : final st = false) : ∃ st', Step .conc cap code st st' := by
  obtain ⟨h1, h2, h3, h4, h5, h6, h7⟩ := hi
  have hw : st.waited = false := hf
  by_cases hE : (st.outEOF && st.errEOF) = true
  · exact ⟨{ st with waited := true }, List.mem_append.mpr (Or.inr (by simp [parentSteps, hw, hE]))⟩
  · have hpar : parentSteps .conc st = readSteps st .out ++ readSteps st .err := by
      simp [parentSteps, hw, hE]
    have outOK : st.outEOF = false → (0 < st.outBuf ∨ allExited st = true) →
        ∃ st', Step .conc cap code st st' := by
      intro a b
      obtain ⟨x, hx⟩ := readOut_nonempty st a b
      refine ⟨x, List.mem_append.mpr (Or.inr ?_)⟩
      rw [hpar]
      exact List.mem_append.mpr (Or.inl hx)
    have errOK : st.errEOF = false → (0 < st.errBuf ∨ allExited st = true) →
        ∃ st', Step .conc cap code st st' := by
      intro a b
      obtain ⟨x, hx⟩ := readErr_nonempty st a b
      refine ⟨x, List.mem_append.mpr (Or.inr ?_)⟩
      rw [hpar]
      exact List.mem_append.mpr (Or.inr hx)
    by_cases hex : allExited st = true
    · by_cases ho : st.outEOF = true
      · have he : st.errEOF = false := by
          cases hh : st.errEOF
          · rfl
          · exact absurd (by simp [ho, hh]) hE
        exact errOK he (Or.inr hex)
      · exact outOK (by simpa using ho) (Or.inr hex)
    · have hex' : allExited st = false := by simpa using hex
      obtain ⟨p, w, q, hws, hwe⟩ := exists_alive hex'
      cases hp : w.prog with
      | nil =>
        exact ⟨_, writer_move_is_step (m := ({ w with exited := true }, .out, 0)) hws
          (by simp [writerMoves, hwe, hp])⟩
      | cons a rest =>
        obtain ⟨s, n⟩ := a
        by_cases hn : n = 0
        · exact ⟨_, writer_move_is_step (m := ({ w with prog := rest }, s, 0)) hws
            (by simp [writerMoves, hwe, hp, hn])⟩
        · by_cases hfree : 0 < cap - buf st s
          · refine ⟨_, writer_move_is_step
              (m := ({ w with prog := if n - 1 = 0 then rest else (s, n - 1) :: rest }, s, 1)) hws ?_⟩
            unfold writerMoves
            simp only [hwe, hp, hn, Bool.false_eq_true, if_false]
            exact List.mem_map.mpr ⟨1, (mem_upTo _ _).mpr ⟨Nat.le_refl _, by omega⟩, rfl⟩
          · cases s with
            | out =>
              have hb : 0 < st.outBuf := by simp [buf] at hfree; omega
              have he : st.outEOF = false := by
                cases hh : st.outEOF
                · rfl
                · have := (h3 hh).1; omega
              exact outOK he (Or.inl hb)
            | err =>
              have hb : 0 < st.errBuf := by simp [buf] at hfree; omega
              have he : st.errEOF = false := by
                cases hh : st.errEOF
                · rfl
                · have := (h4 hh).1; omega
              exact errOK he (Or.inl hb)

/-! ### what holds when the call has returned -/

theorem remaining_allExited (s : Stream) (ws : List Writer)
    (h5 : ∀ w ∈ ws, w.exited = true → w.prog = []) (ha : ws.all (·.exited) = true) : remaining s ws = 0 := by
  induction ws with
  | nil => simp [remaining]
  | cons w rest ih =>
    simp only [List.all_cons, Bool.and_eq_true] at ha
    have hp : w.prog = [] := h5 w (by simp) ha.1
    have := ih (fun x hx => h5 x (by simp [hx])) ha.2
    simp [remaining, hp, progBytes, this]

/-- when the call has returned: both pipes are empty, EVERY writer has exited (having written its
    whole program), and — if there is a writer 0 — the status is the command's own -/
theorem final_complete (cap code : Nat) (st : MState) (hi : Inv cap code st) (hf : final st = true) :
    st.outBuf = 0 ∧ st.errBuf = 0 ∧ allExited st = true ∧
    remaining .out st.writers = 0 ∧ remaining .err st.writers = 0 ∧
    (st.writers ≠ [] → st.status = some code) := by
  obtain ⟨h1, h2, h3, h4, h5, h6, h7⟩ := hi
  have hw : st.waited = true := hf
  obtain ⟨e1, e2⟩ := h6 hw
  obtain ⟨b1, x1⟩ := h3 e1
  obtain ⟨b2, _⟩ := h4 e2
  refine ⟨b1, b2, x1, remaining_allExited _ _ h5 x1, remaining_allExited _ _ h5 x1, ?_⟩
  intro hne
  rw [h7]
  unfold allExited at x1
  cases hws : st.writers with
  | nil => exact absurd hws hne
  | cons w rest =>
    rw [hws] at x1
    simp only [List.all_cons, Bool.and_eq_true] at x1
    simp [cmdExited, x1.1, statusOf]

/-! ### reachable states -/

theorem reach_inv (d : Discipline) (cap code : Nat) (progs : List (List (Stream × Nat))) (st : MState)
    (hr : Reachable d cap code progs st) :
    Inv cap code st ∧ st.writers.length = progs.length ∧
      st.outGot + st.outBuf + remaining .out st.writers = totalBytes .out progs ∧
      st.errGot + st.errBuf + remaining .err st.writers = totalBytes .err progs := by
  induction hr with
  | init =>
    exact ⟨inv_init cap code progs, by simp [init], by simp [init, remaining_init],
      by simp [init, remaining_init]⟩
  | step a b _ hs ih =>
    obtain ⟨hi, hl, ho, he⟩ := ih
    obtain ⟨co, ce⟩ := conservation_step d cap code a b hs
    refine ⟨inv_step d cap code a b hi hs, ?_, by omega, by omega⟩
    rw [← hl]
    rcases step_cases hs with ⟨p, w, q, hw, hex, hp, rfl⟩ | ⟨p, w, q, s, rest, hw, hex, hp, rfl⟩ |
      ⟨p, w, q, s, n, rest, k, hw, hex, hp, hn, k1, k2, k3, rfl⟩ |
      ⟨a, b, c, rfl⟩ | ⟨k, a, b, k1, k2, rfl⟩ | ⟨a, b, c, e, rfl⟩ | ⟨k, a, b, k1, k2, rfl⟩ | ⟨a, b, c, e, rfl⟩
    · simp [hw]
    · simp [hw]
    · cases s <;> simp [addBuf, hw]
    all_goals rfl

/-! ### the theorems -/

/-- 1. in every reachable state, for each stream: received + buffered + still to be written (summed
    over all writers) is everything the writers' programs write to it -/
theorem multi_conservation (d : Discipline) (cap code : Nat) (progs : List (List (Stream × Nat))) (st : MState)
    (hr : Reachable d cap code progs st) (s : Stream) :
    got st s + buf st s + remaining s st.writers = totalBytes s progs := by
  obtain ⟨_, _, ho, he⟩ := reach_inv d cap code progs st hr
  cases s
  · exact ho
  · exact he

/-- 2. a reachable state in which the call has returned has received every byte ALL writers wrote,
    on both streams; every writer has exited (and no writer was lost or added); the recorded status
    is the command's own.  `progs ≠ []` (there IS a command) is needed for the status only. -/
theorem multi_returned_means_complete (d : Discipline) (cap code : Nat) (progs : List (List (Stream × Nat)))
    (hne : progs ≠ []) (st : MState) (hr : Reachable d cap code progs st) (hf : final st = true) :
    st.outGot = totalBytes .out progs ∧ st.errGot = totalBytes .err progs ∧
    (∀ w ∈ st.writers, w.exited = true) ∧ st.writers.length = progs.length ∧ st.status = some code := by
  obtain ⟨hi, hl, ho, he⟩ := reach_inv d cap code progs st hr
  obtain ⟨b1, b2, hx, r1, r2, hs⟩ := final_complete cap code st hi hf
  refine ⟨by omega, by omega, ?_, hl, hs ?_⟩
  · intro w hw
    unfold allExited at hx
    rw [List.all_eq_true] at hx
    exact hx w hw
  · intro hnil
    rw [hnil] at hl
    cases progs with
    | nil => exact hne rfl
    | cons a b => simp at hl

/-- 3. under concurrent draining, with any pipe capacity > 0, no reachable state short of the return
    is stuck — however many writers hold the pipes, whatever they write, however steps interleave -/
theorem multi_concurrent_never_stuck (cap code : Nat) (hc : 0 < cap) (progs : List (List (Stream × Nat)))
    (st : MState) (hr : Reachable .conc cap code progs st) (hf : final st = false) :
    ∃ st', Step .conc cap code st st' :=
  conc_never_stuck cap code hc st (reach_inv .conc cap code progs st hr).1 hf

/-- 4. every step strictly decreases a natural-number measure, so every run is finite -/
theorem multi_every_run_is_finite (d : Discipline) (cap code : Nat) (st st' : MState)
    (hs : Step d cap code st st') : measure st' < measure st :=
  step_decreases d cap code st st' hs

/-- 5. the call returns only after EVERY holder of the write ends has closed them -/
theorem multi_returns_only_after_every_holder_closed (d : Discipline) (cap code : Nat)
    (progs : List (List (Stream × Nat))) (st : MState) (hr : Reachable d cap code progs st)
    (hf : final st = true) : ∀ w ∈ st.writers, w.exited = true := by
  obtain ⟨hi, _⟩ := reach_inv d cap code progs st hr
  obtain ⟨_, _, hx, _⟩ := final_complete cap code st hi hf
  intro w hw
  unfold allExited at hx
  rw [List.all_eq_true] at hx
  exact hx w hw

/-- the state of the witness below: the command (writer 0) wrote its byte to stdout and exited with
    status 7, the parent has collected that byte; a descendant that will write one byte to stderr
    is still alive -/
def heldOpen : MState :=
  { writers := [{ prog := [], exited := true }, { prog := [(.err, 1)], exited := false }],
    status := some 7, outBuf := 0, errBuf := 0, outGot := 1, errGot := 0,
    outEOF := false, errEOF := false, waited := false }

/-- 5, witness: a reachable state in which the command itself has exited (its status is recorded),
    a descendant has not, the call has not returned and the parent cannot move at all — no `waited`
    step, not even an EOF: only the descendant can move -/
theorem descendant_holds_the_call_open :
    Reachable .conc 2 7 [[(.out, 1)], [(.err, 1)]] heldOpen ∧
    heldOpen.writers.head?.map (·.exited) = some true ∧ heldOpen.status = some 7 ∧
    (∃ w ∈ heldOpen.writers, w.exited = false) ∧
    final heldOpen = false ∧ parentSteps .conc heldOpen = [] ∧
    (∀ st' ∈ stepsFrom .conc 2 7 heldOpen, st'.waited = false) ∧ stepsFrom .conc 2 7 heldOpen ≠ [] := by
  refine ⟨?_, by decide, by decide, by decide, by decide, by decide, by decide, by decide⟩
  have s1 : Step .conc 2 7 (init 7 [[(.out, 1)], [(.err, 1)]])
      { writers := [{ prog := [], exited := false }, { prog := [(.err, 1)], exited := false }],
        status := none, outBuf := 1, errBuf := 0, outGot := 0, errGot := 0,
        outEOF := false, errEOF := false, waited := false } := by
    unfold Step; decide
  have s2 : Step .conc 2 7
      { writers := [{ prog := [], exited := false }, { prog := [(.err, 1)], exited := false }],
        status := none, outBuf := 1, errBuf := 0, outGot := 0, errGot := 0,
        outEOF := false, errEOF := false, waited := false }
      { writers := [{ prog := [], exited := true }, { prog := [(.err, 1)], exited := false }],
        status := some 7, outBuf := 1, errBuf := 0, outGot := 0, errGot := 0,
        outEOF := false, errEOF := false, waited := false } := by
    unfold Step; decide
  have s3 : Step .conc 2 7
      { writers := [{ prog := [], exited := true }, { prog := [(.err, 1)], exited := false }],
        status := some 7, outBuf := 1, errBuf := 0, outGot := 0, errGot := 0,
        outEOF := false, errEOF := false, waited := false } heldOpen := by
    unfold Step; decide
  exact Reachable.step _ _ (Reachable.step _ _ (Reachable.step _ _ Reachable.init s1) s2) s3

/-- 6. with exactly one writer the several-writers model agrees with the single-writer model
    (`InToto.Pipes`): a run that has returned has received exactly what that program wrote, which is
    what every returned run of the single-writer model has received -/
theorem single_writer_agrees (d d' : Discipline) (cap cap' code : Nat) (prog : List (Stream × Nat))
    (st : MState) (hr : Reachable d cap code [prog] st) (hf : final st = true)
    (st1 : Pipes.PState) (hr1 : PipesProofs.Reach d' cap' (Pipes.init prog) st1) (hf1 : Pipes.final st1 = true) :
    st.outGot = progBytes .out prog ∧ st.errGot = progBytes .err prog ∧
    st.outGot = st1.outGot ∧ st.errGot = st1.errGot ∧ st.status = some code := by
  obtain ⟨a, b, _, _, c⟩ := multi_returned_means_complete d cap code [prog] (by simp) st hr hf
  obtain ⟨a1, b1⟩ := PipesProofs.conc_capture_complete d' cap' prog st1 hr1 hf1
  simp only [totalBytes, Nat.add_zero] at a b
  exact ⟨a, b, by omega, by omega, c⟩

/-- the recorded status never changes: once it is there (the command has exited), no step of a
    descendant or of the parent touches it -/
theorem status_stable (d : Discipline) (cap code : Nat) (st st' : MState) (hi : Inv cap code st)
    (hs : Step d cap code st st') (c : Nat) (h : st.status = some c) : st'.status = some c := by
  obtain ⟨_, _, _, _, _, _, h7⟩ := hi
  rcases step_cases hs with ⟨p, w, q, hw, hex, hp, rfl⟩ | ⟨p, w, q, s, rest, hw, hex, hp, rfl⟩ |
    ⟨p, w, q, s, n, rest, k, hw, hex, hp, hn, k1, k2, k3, rfl⟩ |
    ⟨a, b, c, rfl⟩ | ⟨k, a, b, k1, k2, rfl⟩ | ⟨a, b, c, e, rfl⟩ | ⟨k, a, b, k1, k2, rfl⟩ | ⟨a, b, c, e, rfl⟩
  · cases p with
    | nil =>
      rw [h7, hw] at h
      simp [cmdExited, hex, statusOf] at h
    | cons a p => simpa using h
  · exact h
  · cases s <;> exact h
  all_goals exact h

/-- the sequential discipline deadlocks in a NEW way with descendants: the command itself has
    exited (status recorded) and wrote nothing, a descendant has filled the stderr pipe (capacity 2,
    3 bytes to write) and is blocked; the parent waits for EOF on stdout, which needs the descendant
    to exit -/
theorem seq_can_deadlock_after_command_exit :
    ∃ st, Reachable .seq 2 0 [[], [(.err, 3)]] st ∧ st.status = some 0 ∧ final st = false ∧
      stepsFrom .seq 2 0 st = [] := by
  refine ⟨{ writers := [{ prog := [], exited := true }, { prog := [(.err, 1)], exited := false }],
            status := some 0, outBuf := 0, errBuf := 2, outGot := 0, errGot := 0,
            outEOF := false, errEOF := false, waited := false }, ?_, by decide, by decide, by decide⟩
  have s1 : Step .seq 2 0 (init 0 [[], [(.err, 3)]])
      { writers := [{ prog := [], exited := true }, { prog := [(.err, 3)], exited := false }],
        status := some 0, outBuf := 0, errBuf := 0, outGot := 0, errGot := 0,
        outEOF := false, errEOF := false, waited := false } := by
    unfold Step; decide
  refine Reachable.step _ _ (Reachable.step _ _ Reachable.init s1) ?_
  unfold Step; decide

end InToto.PipesMultiProofs
