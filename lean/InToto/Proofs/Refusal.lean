import InToto.Model.Sign
import InToto.Proofs.Json
import InToto.Proofs.Schema

/-!
C11 / C04 ("content that cannot be represented is refused with an error rather than signed
approximately" — and the envelope stays as it was).
-/

namespace InToto.RefusalProofs
open InToto InToto.Json InToto.Schema InToto.Metadata InToto.Sign InToto.JsonProofs InToto.SchemaProofs


/-! ### helper lemmas -/

/-- the value contains a non-integral number somewhere -/
inductive HasFrac : JVal → Prop where
  | frac (l : Str) : HasFrac (.frac l)
  | arr (l : List JVal) (v : JVal) : v ∈ l → HasFrac v → HasFrac (.arr l)
  | obj (l : List (Str × JVal)) (kv : Str × JVal) : kv ∈ l → HasFrac kv.2 → HasFrac (.obj l)

theorem not_renderable_of_hasFrac (v : JVal) (h : HasFrac v) : ¬ Renderable v := by
  induction h with
  | frac l => intro hr; cases hr
  | arr l v hm _ ih => intro hr; exact ih ((renderable_arr_iff l).1 hr v hm)
  | obj l kv hm _ ih => intro hr; exact ih ((renderable_obj_iff l).1 hr kv hm)

private theorem mem_insertSorted' {α} (lt : α → α → Bool) (x y : α) (l : List α) :
    y ∈ insertSorted lt x l ↔ y = x ∨ y ∈ l := by
  induction l with
  | nil => simp [insertSorted]
  | cons z zs ih =>
    simp only [insertSorted]
    split
    · simp
    · simp only [List.mem_cons, ih]
      constructor
      · rintro (h | h | h)
        · exact Or.inr (Or.inl h)
        · exact Or.inl h
        · exact Or.inr (Or.inr h)
      · rintro (h | h | h)
        · exact Or.inr (Or.inl h)
        · exact Or.inl h
        · exact Or.inr (Or.inr h)

private theorem mem_sortBy' {α} (lt : α → α → Bool) (y : α) (l : List α) : y ∈ sortBy lt l ↔ y ∈ l := by
  induction l with
  | nil => simp [sortBy]
  | cons z zs ih =>
    have : sortBy lt (z :: zs) = insertSorted lt z (sortBy lt zs) := rfl
    rw [this, mem_insertSorted', ih]; simp

private theorem mem_sortKeysList (l : List JVal) (v : JVal) (h : v ∈ l) : sortKeys v ∈ sortKeysList l := by
  induction l with
  | nil => cases h
  | cons a l ih =>
    simp only [sortKeysList, List.mem_cons]
    rcases List.mem_cons.1 h with rfl | h
    · exact Or.inl rfl
    · exact Or.inr (ih h)

private theorem mem_sortKeysMembers (l : List (Str × JVal)) (kv : Str × JVal) (h : kv ∈ l) :
    (kv.1, sortKeys kv.2) ∈ sortKeysMembers l := by
  induction l with
  | nil => cases h
  | cons a l ih =>
    obtain ⟨k, w⟩ := a
    simp only [sortKeysMembers, List.mem_cons]
    rcases List.mem_cons.1 h with rfl | h
    · exact Or.inl rfl
    · exact Or.inr (ih h)

/-- sorting the keys keeps a non-integral number where it is -/
theorem hasFrac_sortKeys (v : JVal) (h : HasFrac v) : HasFrac (sortKeys v) := by
  induction h with
  | frac l => simp only [sortKeys]; exact HasFrac.frac l
  | arr l v hm _ ih =>
    simp only [sortKeys]
    exact HasFrac.arr _ _ (mem_sortKeysList l v hm) ih
  | obj l kv hm _ ih =>
    simp only [sortKeys]
    exact HasFrac.obj _ (kv.1, sortKeys kv.2) ((mem_sortBy' _ _ _).2 (mem_sortKeysMembers l kv hm)) ih

theorem render_sortKeys_none_of_hasFrac (esc : Bool) (v : JVal) (h : HasFrac v) :
    render esc false (sortKeys v) = none := by
  have hn : ¬ Renderable (sortKeys v) := not_renderable_of_hasFrac _ (hasFrac_sortKeys v h)
  rw [← render_isSome_iff esc] at hn
  cases hr : render esc false (sortKeys v) with
  | none => rfl
  | some s => rw [hr] at hn; exact absurd rfl hn

/-- the encoding of a well-typed link with the fractional by-product contains a non-integral number -/
theorem hasFrac_setFrac (v : TVal) (hv : WT tyLink v) : HasFrac (setFracP (.link v)).toJ := by
  unfold tyLink fieldsLink at hv
  cases hv with
  | struct _ vs h =>
  cases h with
  | cons _ _ _ v1 _ vs h1 h =>
  cases h with
  | cons _ _ _ v2 _ vs h2 h =>
  cases h with
  | cons _ _ _ v3 _ vs h3 h =>
  cases h with
  | cons _ _ _ v4 _ vs h4 h =>
  cases h with
  | cons _ _ _ v5 _ vs h5 h =>
  cases h with
  | cons _ _ _ v6 _ vs h6 h =>
  cases h with
  | cons _ _ _ v7 _ vs h7 h =>
  cases h
  simp only [setFracP, Payload.toJ, Payload.ty, Payload.tval, fset, tyLink, fieldsLink, List.map_cons,
    List.map_nil]
  simp only [encode, encodeFields, encodeMap, Bool.false_and, Bool.false_eq_true,
    List.cons.injEq, Char.reduceEq, false_and, and_false, ↓reduceIte]
  refine HasFrac.obj _ (lit% "byproducts", .obj [(lit% "frac", .frac (lit% "0.5"))]) (by simp) ?_
  exact HasFrac.obj _ (lit% "frac", .frac (lit% "0.5")) (by simp) (HasFrac.frac _)

/-- a by-product with a non-integral number has no canonical bytes: for every well-typed link,
    putting such a by-product into it makes both the signed bytes of the Metablock wrapper and the
    payload bytes of the envelope undefined -/
theorem frac_has_no_bytes (v : TVal) (hv : WT tyLink v) :
    canonPayload (setFracP (.link v)) = none ∧ payloadBytes (setFracP (.link v)) = none := by
  have h := hasFrac_setFrac v hv
  exact ⟨render_sortKeys_none_of_hasFrac false _ h, render_sortKeys_none_of_hasFrac true _ h⟩

/-- `SetPayload` REFUSES such content … -/
theorem setPayload_refuses_fraction (v : TVal) (hv : WT tyLink v) :
    (setPayload (setFracP (.link v))).isOk = false := by
  unfold setPayload
  rw [(frac_has_no_bytes v hv).2]
  rfl

/-- … and an envelope that is offered it stays exactly as it was: same payload type, payload bytes,
    signatures and decoded payload; the caller sees an error -/
theorem envelope_unchanged_by_refused_content (st : SState) (pt pl : Str) (sigs : TVal) (v : TVal)
    (hmd : st.md = .dsse pt pl sigs (.link v)) (hv : WT tyLink v) :
    trySetFrac st = (st, "err:same") := by
  unfold trySetFrac
  rw [hmd]
  simp only [setPayload, (frac_has_no_bytes v hv).2]

/-- a Metablock is a plain struct: the assignment goes through, but nothing can be signed afterwards -/
theorem metablock_with_fraction_cannot_be_signed (W0 : Verify.World) (st : SState) (sg : TVal) (v : TVal) (k : Verify.Key)
    (hmd : st.md = .legacy (.link v) sg) (hv : WT tyLink v) :
    (sstep W0 (trySetFrac st).1 (.sign k)).2 ≠ "ok" := by
  have hst : (trySetFrac st).1.md = .legacy (setFracP (.link v)) sg := by
    unfold trySetFrac
    rw [hmd]
  have hsb : signedBytes (trySetFrac st).1.md = none := by
    rw [hst]
    exact (frac_has_no_bytes v hv).1
  unfold sstep
  simp only [hsb]
  split <;> simp

end InToto.RefusalProofs
