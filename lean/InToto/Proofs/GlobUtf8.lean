import InToto.Proofs.Glob
import InToto.Proofs.GlobUMain

/-!
C17 for ALL valid UTF-8 patterns and names (the ASCII theorem `correct_ascii` generalised): the
byte-level matcher of the implementation agrees with the documented grammar read over CODE POINTS.
-/

namespace InToto.GlobUtf8
open InToto.Glob InToto.GlobSpec

/-- decoding a whole byte string as UTF-8, rune by rune as Go's `utf8.DecodeRuneInString` does;
    `none` if some position does not start a valid encoding (a validly encoded U+FFFD has width 3) -/
def decodeAll : Nat → Bytes → Option (List Nat)
  | 0, _ => none
  | _ + 1, [] => some []
  | fuel + 1, b :: rest =>
    let d := decodeRune (b :: rest)
    if d.1 == runeError && d.2 == 1 then none
    else (decodeAll fuel ((b :: rest).drop d.2)).map (d.1 :: ·)

/-- the code points of a valid UTF-8 byte string -/
def utf8Runes (b : Bytes) : Option (List Nat) := decodeAll (b.length + 1) b


/-! ### `decodeAll` versus `encs` -/

/-- A byte string decodes to `rs` only if it is the concatenation of the encodings of the scalar
    values `rs`. -/
theorem decodeAll_encs : ∀ (fuel : Nat) (b : Bytes) (rs : List Nat),
    decodeAll fuel b = some rs → b = encs rs ∧ AllSc rs := by
  intro fuel
  induction fuel with
  | zero => intro b rs h; simp [decodeAll] at h
  | succ f ih =>
    intro b rs h
    cases b with
    | nil =>
      simp only [decodeAll, Option.some.injEq] at h
      subst h
      exact ⟨rfl, allSc_nil⟩
    | cons b0 rest =>
      simp only [decodeAll] at h
      split at h
      · cases h
      · rename_i hv
        obtain ⟨c, r, hsc, he, hdec⟩ := decodeRune_roundtrip b0 rest (by simpa using hv)
        rw [hdec] at h
        simp only at h
        rw [he, drop_enc] at h
        obtain ⟨rs', h1, h2⟩ := Option.map_eq_some_iff.1 h
        obtain ⟨h3, h4⟩ := ih r rs' h1
        subst h2
        exact ⟨by rw [he, h3]; rfl, allSc_cons hsc h4⟩

/-- Conversely the encoding of a sequence of scalar values decodes to that sequence. -/
theorem decodeAll_of_encs : ∀ (rs : List Nat), AllSc rs → ∀ (fuel : Nat),
    (encs rs).length < fuel → decodeAll fuel (encs rs) = some rs := by
  intro rs
  induction rs with
  | nil =>
    intro _ fuel hf
    cases fuel with
    | zero => simp at hf
    | succ f => rfl
  | cons c rs ih =>
    intro hsc fuel hf
    cases fuel with
    | zero => simp at hf
    | succ f =>
      obtain ⟨b, tl, he, _, _, _⟩ := enc_head c hsc.cons.1
      have hX : encs (c :: rs) = b :: (tl ++ encs rs) := by simp [he]
      have hdec : decodeRune (b :: (tl ++ encs rs)) = (c, (enc c).length) := by
        rw [← List.cons_append, ← he]; exact decodeRune_enc c hsc.cons.1 _
      have hdrop : (b :: (tl ++ encs rs)).drop (enc c).length = encs rs := by
        rw [← List.cons_append, ← he]; exact drop_enc c _
      have hlen : (encs rs).length < f := by
        have := enc_length_pos c
        simp only [encs_cons, List.length_append] at hf; omega
      rw [hX]
      simp only [decodeAll, hdec, herr_false, Bool.false_eq_true, ↓reduceIte, hdrop,
        ih hsc.cons.2 f hlen, Option.map_some]

/-- `utf8Runes b = some rs` says exactly that `b` is the UTF-8 encoding of the scalar values
    `rs`. -/
theorem utf8Runes_iff (b : Bytes) (rs : List Nat) :
    utf8Runes b = some rs ↔ b = encs rs ∧ AllSc rs := by
  constructor
  · exact decodeAll_encs _ b rs
  · rintro ⟨rfl, h⟩
    exact decodeAll_of_encs rs h _ (Nat.lt_succ_self _)

theorem ascii_encs (b : Bytes) (h : ∀ x ∈ b, x < 128) :
    b = encs (b.map UInt8.toNat) ∧ AllSc (b.map UInt8.toNat) := by
  induction b with
  | nil => exact ⟨rfl, allSc_nil⟩
  | cons x b ih =>
    have hx : x.toNat < 128 := by
      have := h x (by simp)
      rw [UInt8.lt_iff_toNat_lt] at this
      simpa using this
    obtain ⟨h1, h2⟩ := ih (fun y hy => h y (by simp [hy]))
    refine ⟨?_, allSc_cons (Or.inl (by omega)) h2⟩
    simp only [List.map_cons, encs_cons, enc_ascii x hx, List.cons_append, List.nil_append]
    rw [← h1]

/-- ASCII strings are valid UTF-8 and their code points are their bytes -/
theorem ascii_is_utf8 (b : Bytes) (h : ∀ x ∈ b, x < 128) : utf8Runes b = some (b.map UInt8.toNat) := by
  exact (utf8Runes_iff b _).2 (ascii_encs b h)

/-- C17 (all of UTF-8, unbounded lengths): for a valid UTF-8 pattern and a valid UTF-8 name, the
    name is in `Set.Filter(pattern)` exactly when the pattern, read as a sequence of code points, is
    well-formed under the documented grammar and matches the whole name, read as a sequence of
    code points: `*` any sequence of characters, `?` exactly ONE character (however many bytes),
    classes and ranges over code points, backslash escapes, every other character itself -/
theorem correct_utf8 (p n : Bytes) (rp rn : List Nat) (hp : utf8Runes p = some rp) (hn : utf8Runes n = some rn) :
    filterHas false p n = true ↔ ∃ is, parsePat rp = some is ∧ Matches is rn := by
  obtain ⟨rfl, hpA⟩ := (utf8Runes_iff p rp).1 hp
  obtain ⟨rfl, hnA⟩ := (utf8Runes_iff n rn).1 hn
  rw [InToto.GlobProofs.filterHas_iff]
  constructor
  · exact goMatchAux_sound _ rp rn hpA hnA
  · rintro ⟨is, h1, h2⟩
    exact goMatchAux_complete _ rp rn hpA hnA (Nat.lt_succ_self _) is h1 h2

/-- a malformed pattern matches nothing -/
theorem malformed_utf8 (p n : Bytes) (rp rn : List Nat) (hp : utf8Runes p = some rp) (hn : utf8Runes n = some rn)
    (h : parsePat rp = none) : filterHas false p n = false := by
  cases hf : filterHas false p n with
  | false => rfl
  | true =>
    obtain ⟨is, h1, _⟩ := (correct_utf8 p n rp rn hp hn).1 hf
    rw [h] at h1
    cases h1

/-! ### consequences and sanity checks -/

/-- `?` matches exactly the names that consist of ONE code point, however many bytes it has. -/
theorem quest_one_code_point (n : Bytes) (rn : List Nat) (hn : utf8Runes n = some rn) :
    filterHas false [Glob.cQuest] n = true ↔ rn.length = 1 := by
  have hp : utf8Runes [Glob.cQuest] = some [GlobSpec.cQuest] := by decide
  rw [correct_utf8 _ n _ rn hp hn]
  have hparse : parsePat [GlobSpec.cQuest] = some [Item.any] := by decide
  constructor
  · rintro ⟨is, h1, h2⟩
    rw [hparse] at h1
    cases h1
    have := (InToto.GlobProofs.matchItems_iff_matches _ _).2 h2
    cases rn with
    | nil => simp [matchItems] at this
    | cons c t =>
      cases t with
      | nil => rfl
      | cons d t => simp [matchItems, itemMatches] at this
  · intro h
    refine ⟨[Item.any], hparse, ?_⟩
    cases rn with
    | nil => simp at h
    | cons c t =>
      cases t with
      | nil => exact Matches.one _ _ _ _ (by simp) rfl Matches.nil
      | cons d t => simp at h

-- "é" = C3 A9 is one code point (U+00E9)
example : utf8Runes [0xC3, 0xA9] = some [0xE9] := by decide
-- a validly encoded U+FFFD is an ordinary character, a stray continuation byte is invalid
example : utf8Runes [0xEF, 0xBF, 0xBD] = some [0xFFFD] := by decide
example : utf8Runes [0x80] = none := by decide
-- `?` against "é", `[à-ï]` against "é", literal "é" against "é" and against "è" (C3 A8)
example : filterHas false [0x3F] [0xC3, 0xA9] = true := by decide
example : filterHas false [0x5B, 0xC3, 0xA0, 0x2D, 0xC3, 0xAF, 0x5D] [0xC3, 0xA9] = true := by decide
example : filterHas false [0xC3, 0xA9] [0xC3, 0xA9] = true := by decide
example : filterHas false [0xC3, 0xA9] [0xC3, 0xA8] = false := by decide

end InToto.GlobUtf8
