import InToto.Proofs.GlobUClass

/-!
Chunk level over UTF-8: a chunk is a sequence of tokens over CODE POINTS (`TokU`, `ChunkU`), each
of which denotes one non-star item.  `matchChunkAux` (model, run on the ENCODED chunk and the
ENCODED name), `parsePat` (spec, on code points) and `scan` are characterised on such sequences.
The new ingredient compared with the ASCII development is the byte-by-byte comparison of a
multi-byte literal (`litrun_*`): it succeeds iff the name starts with the same encoding, i.e.
(prefix-freeness) iff the next code point of the name is that literal.
-/
namespace InToto.GlobUtf8
open InToto.Glob InToto.GlobSpec InToto.GlobProofs

/-! ### literal runs (byte level) -/

/-- Once the match has failed the remaining name is irrelevant. -/
theorem matchChunkAux_failed_irrel : ∀ (F : Nat) (c s s' : Bytes),
    matchChunkAux F c s true = matchChunkAux F c s' true := by
  intro F
  induction F with
  | zero => intro c s s'; rfl
  | succ F ih =>
    intro c s s'
    cases c with
    | nil => rfl
    | cons x crest =>
      rw [matchChunkAux_cons, matchChunkAux_cons]
      simp only [Bool.true_or, Bool.not_true, Bool.false_eq_true, ↓reduceIte]
      split
      · split
        · rfl
        · exact ih _ _ _
      · split
        · exact ih _ _ _
        · split
          · rfl
          · exact ih _ _ _

/-- Bytes that `matchChunk` treats as literals. -/
def PlainB (b : UInt8) : Prop := b ≠ Glob.cLBr ∧ b ≠ Glob.cQuest ∧ b ≠ Glob.cBsl

theorem plainB_of_high {x : UInt8} (h : 128 ≤ x.toNat) : PlainB x := by
  obtain ⟨_, h2, h3, _, _, _, h7⟩ := high_ne_special h
  exact ⟨h3, h2, h7⟩

/-- One literal byte of the pattern against the state `(s, f)`. -/
theorem matchChunkAux_plain (F : Nat) (b : UInt8) (hb : PlainB b) (c s : Bytes) (f : Bool) :
    matchChunkAux (F + 1) (b :: c) s f =
      if f then matchChunkAux F c s true
      else
        match s with
        | x :: xs => matchChunkAux F c xs (b != x)
        | [] => matchChunkAux F c [] true := by
  obtain ⟨h1, h2, h3⟩ := hb
  rw [matchChunkAux_cons]
  cases f with
  | true => simp [h1, h2, h3]
  | false =>
    cases s with
    | nil => simp [h1, h2, h3]
    | cons x xs => simp [h1, h2, h3]

/-- An escaped byte of the pattern against the state `(s, f)`. -/
theorem matchChunkAux_escB (F : Nat) (b : UInt8) (c s : Bytes) (f : Bool) :
    matchChunkAux (F + 1) (Glob.cBsl :: b :: c) s f =
      if f then matchChunkAux F c s true
      else
        match s with
        | x :: xs => matchChunkAux F c xs (b != x)
        | [] => matchChunkAux F c [] true := by
  rw [matchChunkAux_cons]
  cases f with
  | true => simp [Glob.cBsl, Glob.cLBr, Glob.cQuest]
  | false =>
    cases s with
    | nil => simp [Glob.cBsl, Glob.cLBr, Glob.cQuest]
    | cons x xs => simp [Glob.cBsl, Glob.cLBr, Glob.cQuest]

theorem litrun_failed (l : Bytes) (hl : ∀ b ∈ l, PlainB b) (F : Nat) (c s : Bytes) :
    matchChunkAux (F + l.length) (l ++ c) s true = matchChunkAux F c s true := by
  induction l with
  | nil => rfl
  | cons b l ih =>
    rw [List.cons_append, List.length_cons, ← Nat.add_assoc,
      matchChunkAux_plain _ b (hl b (by simp))]
    simp only [↓reduceIte]
    exact ih (fun z hz => hl z (by simp [hz]))

theorem litrun_match (l : Bytes) (hl : ∀ b ∈ l, PlainB b) (F : Nat) (c xs : Bytes) :
    matchChunkAux (F + l.length) (l ++ c) (l ++ xs) false = matchChunkAux F c xs false := by
  induction l with
  | nil => rfl
  | cons b l ih =>
    rw [List.cons_append, List.length_cons, ← Nat.add_assoc,
      matchChunkAux_plain _ b (hl b (by simp))]
    simp only [Bool.false_eq_true, ↓reduceIte, List.cons_append, bne_self_eq_false]
    exact ih (fun z hz => hl z (by simp [hz]))

theorem litrun_mismatch (l : Bytes) (hl : ∀ b ∈ l, PlainB b) (F : Nat) (c : Bytes) :
    ∀ (s : Bytes), ¬ l <+: s →
      matchChunkAux (F + l.length) (l ++ c) s false = matchChunkAux F c s true := by
  induction l with
  | nil => intro s h; exact absurd (List.nil_prefix) h
  | cons b l ih =>
    intro s h
    have hl' : ∀ z ∈ l, PlainB z := fun z hz => hl z (by simp [hz])
    rw [List.cons_append, List.length_cons, ← Nat.add_assoc,
      matchChunkAux_plain _ b (hl b (by simp))]
    simp only [Bool.false_eq_true, ↓reduceIte]
    cases s with
    | nil => exact litrun_failed l hl' F c []
    | cons x xs =>
      simp only
      by_cases hbx : b = x
      · subst hbx
        simp only [bne_self_eq_false]
        have : ¬ l <+: xs := fun hp => h (by
          obtain ⟨w, rfl⟩ := hp
          exact ⟨w, rfl⟩)
        rw [ih hl' xs this]
        exact matchChunkAux_failed_irrel _ _ _ _
      · have : (b != x) = true := by simpa using hbx
        rw [this, litrun_failed l hl' F c xs]
        exact matchChunkAux_failed_irrel _ _ _ _

/-! ### tokens and chunks over code points -/

/-- One token of a chunk (a sequence of code points) and the item it denotes.  With `st = true`
    an unescaped `*` is allowed as a literal (this is how `matchChunk` treats it; `scanChunk`
    never produces such chunks). -/
inductive TokU (st : Bool) : List Nat → Item → Prop where
  | any : TokU st [GlobSpec.cQuest] Item.any
  | lit (c : Nat) : Sc c → c ≠ GlobSpec.cQuest → c ≠ GlobSpec.cLBr → c ≠ GlobSpec.cBsl →
      (c = GlobSpec.cStar → st = true) → TokU st [c] (Item.lit c)
  | esc (x : Nat) : Sc x → TokU st [GlobSpec.cBsl, x] (Item.lit x)
  | cls {body : List Nat} {rs : List (Nat × Nat)} : CBodyU false body rs →
      (∀ tl, body ≠ GlobSpec.cCaret :: tl) → TokU st (GlobSpec.cLBr :: body) (Item.cls false rs)
  | ncls {body : List Nat} {rs : List (Nat × Nat)} : CBodyU false body rs →
      TokU st (GlobSpec.cLBr :: GlobSpec.cCaret :: body) (Item.cls true rs)

inductive ChunkU (st : Bool) : List Nat → List Item → Prop where
  | nil : ChunkU st [] []
  | cons {t : List Nat} {it : Item} {c : List Nat} {its : List Item} :
      TokU st t it → ChunkU st c its → ChunkU st (t ++ c) (it :: its)

theorem TokU.ne_star {st : Bool} {t : List Nat} {it : Item} (h : TokU st t it) :
    it ≠ Item.star := by
  cases h <;> simp

theorem TokU.length_pos {st : Bool} {t : List Nat} {it : Item} (h : TokU st t it) :
    0 < t.length := by
  cases h <;> simp

theorem ChunkU.no_star {st : Bool} {c : List Nat} {its : List Item} (h : ChunkU st c its) :
    ∀ it ∈ its, it ≠ Item.star := by
  induction h with
  | nil => intro it h; cases h
  | cons ht _ ih =>
    intro it hit
    rcases List.mem_cons.1 hit with h | h
    · exact h ▸ ht.ne_star
    · exact ih it h

/-! ### model -/

/-- Effect of one item on the state `(remaining name as code points, failed)` of `matchChunk`. -/
def stepResU (it : Item) (s : List Nat) (f : Bool) : List Nat × Bool :=
  if f then (s, true)
  else
    match s with
    | [] => ([], true)
    | x :: xs => (xs, !itemMatches it x)

theorem stepResU_sc (it : Item) (s : List Nat) (f : Bool) (hs : AllSc s) :
    AllSc (stepResU it s f).1 := by
  unfold stepResU
  split
  · exact hs
  · split
    · exact allSc_nil
    · exact hs.cons.2

/-- Reading one rune of the encoded name. -/
theorem name_step (x : Nat) (xs : List Nat) (hx : Sc x) :
    ∃ b R k, encs (x :: xs) = b :: R ∧ decodeRune (b :: R) = (x, k) ∧
      (b :: R).drop k = encs xs := by
  obtain ⟨b, tl, he, _, _, _⟩ := enc_head x hx
  refine ⟨b, tl ++ encs xs, (enc x).length, by simp [he], ?_, ?_⟩
  · rw [← List.cons_append, ← he]; exact decodeRune_enc x hx _
  · rw [← List.cons_append, ← he]; exact drop_enc x _

/-- The comparison of the literal `d` (first byte already selected, remaining bytes plain) with
    the encoded name: it succeeds iff the next code point of the name is `d`. -/
theorem litfirst (d : Nat) (hd : Sc d) (b : UInt8) (tl : Bytes) (he : enc d = b :: tl)
    (htl : ∀ z ∈ tl, PlainB z) (F : Nat) (c : Bytes) (s : List Nat) (hs : AllSc s) (f : Bool) :
    (if f then matchChunkAux (F + tl.length) (tl ++ c) (encs s) true
      else
        match encs s with
        | x :: xs => matchChunkAux (F + tl.length) (tl ++ c) xs (b != x)
        | [] => matchChunkAux (F + tl.length) (tl ++ c) [] true) =
      matchChunkAux F c (encs (stepResU (Item.lit d) s f).1) (stepResU (Item.lit d) s f).2 := by
  cases f with
  | true =>
    simp only [↓reduceIte, stepResU]
    exact litrun_failed tl htl F c _
  | false =>
    simp only [Bool.false_eq_true, ↓reduceIte]
    cases s with
    | nil =>
      simp only [encs_nil, stepResU, Bool.false_eq_true, ↓reduceIte]
      exact litrun_failed tl htl F c _
    | cons x xs =>
      obtain ⟨b', tl', he', _, _, _⟩ := enc_head x hs.cons.1
      simp only [encs_cons, he', List.cons_append, stepResU, Bool.false_eq_true, ↓reduceIte,
        itemMatches]
      by_cases hdx : d = x
      · subst hdx
        rw [he] at he'
        obtain ⟨rfl, rfl⟩ := List.cons.inj he'
        simp only [bne_self_eq_false, beq_self_eq_true, Bool.not_true]
        exact litrun_match tl htl F c _
      · have hne : (d == x) = false := by simpa using hdx
        simp only [hne, Bool.not_false]
        by_cases hbb : b = b'
        · subst hbb
          simp only [bne_self_eq_false]
          have hnp : ¬ tl <+: tl' ++ encs xs := by
            rintro ⟨w, hw⟩
            apply hdx
            apply enc_prefix_free hd hs.cons.1 (t1 := w) (t2 := encs xs)
            rw [he, he', List.cons_append, List.cons_append, hw]
          rw [litrun_mismatch tl htl F c _ hnp]
          exact matchChunkAux_failed_irrel _ _ _ _
        · have : (b != b') = true := by simpa using hbb
          rw [this, litrun_failed tl htl F c _]
          exact matchChunkAux_failed_irrel _ _ _ _

theorem high_plain {tl : Bytes} (h : ∀ x ∈ tl, 128 ≤ x.toNat) : ∀ z ∈ tl, PlainB z :=
  fun z hz => plainB_of_high (h z hz)

/-- A literal rune of the pattern against the encoded name. -/
theorem matchChunkAux_lit (d : Nat) (hd : Sc d) (h1 : d ≠ GlobSpec.cQuest) (h2 : d ≠ GlobSpec.cLBr)
    (h3 : d ≠ GlobSpec.cBsl) (F : Nat) (c : Bytes) (s : List Nat) (hs : AllSc s) (f : Bool) :
    matchChunkAux (F + (enc d).length) (enc d ++ c) (encs s) f =
      matchChunkAux F c (encs (stepResU (Item.lit d) s f).1) (stepResU (Item.lit d) s f).2 := by
  obtain ⟨b, tl, he, hdb, htl, _⟩ := enc_head d hd
  have hb : PlainB b :=
    ⟨fun h => h2 (hdb.eq_cLBr.1 h), fun h => h1 (hdb.eq_cQuest.1 h), fun h => h3 (hdb.eq_cBsl.1 h)⟩
  rw [← litfirst d hd b tl he (high_plain htl) F c s hs f, he, List.cons_append,
    List.length_cons, ← Nat.add_assoc, matchChunkAux_plain _ b hb]

/-- An escaped rune of the pattern against the encoded name. -/
theorem matchChunkAux_esc (d : Nat) (hd : Sc d) (F : Nat) (c : Bytes) (s : List Nat)
    (hs : AllSc s) (f : Bool) :
    matchChunkAux (F + (enc d).length) (Glob.cBsl :: (enc d ++ c)) (encs s) f =
      matchChunkAux F c (encs (stepResU (Item.lit d) s f).1) (stepResU (Item.lit d) s f).2 := by
  obtain ⟨b, tl, he, hdb, htl, _⟩ := enc_head d hd
  rw [← litfirst d hd b tl he (high_plain htl) F c s hs f, he, List.cons_append,
    List.length_cons, ← Nat.add_assoc, matchChunkAux_escB]

/-- `?` against the encoded name: exactly one code point is consumed. -/
theorem matchChunkAux_any (F : Nat) (c : Bytes) (s : List Nat) (hs : AllSc s) (f : Bool) :
    matchChunkAux (F + 1) (Glob.cQuest :: c) (encs s) f =
      matchChunkAux F c (encs (stepResU Item.any s f).1) (stepResU Item.any s f).2 := by
  rw [matchChunkAux_cons]
  cases f with
  | true => simp [stepResU, Glob.cQuest, Glob.cLBr]
  | false =>
    cases s with
    | nil => simp [stepResU, Glob.cQuest, Glob.cLBr]
    | cons x xs =>
      obtain ⟨b, R, k, hX, hdec, hdrop⟩ := name_step x xs hs.cons.1
      rw [hX]
      simp [stepResU, Glob.cQuest, Glob.cLBr, hdec, hdrop, itemMatches]

/-- A class against the encoded name: the class is tested on the next code point. -/
theorem matchChunkAux_class (neg : Bool) (crest : Bytes) (body : List Nat)
    {rs : List (Nat × Nat)} (hb : CBodyU false body rs) (c : Bytes)
    (hcs : classStart crest = (neg, encs body ++ c))
    (F : Nat) (s : List Nat) (hs : AllSc s) (f : Bool) :
    matchChunkAux (F + 1) (Glob.cLBr :: crest) (encs s) f =
      matchChunkAux F c (encs (stepResU (Item.cls neg rs) s f).1)
        (stepResU (Item.cls neg rs) s f).2 := by
  rw [matchChunkAux_cons]
  have hpr : ∀ r, parseRanges ((encs body ++ c).length + 1) (encs body ++ c) r false 0 =
      some (inRanges rs r, c) := by
    intro r
    have := parseRanges_cbody hb ((encs body ++ c).length + 1) c r false 0 (by simp)
      (by have := length_le_encs body; simp only [List.length_append]; omega)
    simpa using this
  simp only [hcs, hpr, beq_self_eq_true, ↓reduceIte]
  cases f with
  | true => simp [stepResU]
  | false =>
    cases s with
    | nil => simp [stepResU]
    | cons x xs =>
      obtain ⟨b, R, k, hX, hdec, hdrop⟩ := name_step x xs hs.cons.1
      rw [hX]
      simp only [stepResU, hdec, hdrop, itemMatches]
      cases hir : inRanges rs x <;> cases neg <;> simp [hir]

/-- Model on one token: the token costs `k` iterations (one per byte of a literal, one for `?` or
    a whole class) and acts on the name as its item acts on the next code point. -/
theorem matchChunkAux_tok {st : Bool} {t : List Nat} {it : Item} (h : TokU st t it) :
    ∃ k, 0 < k ∧ k ≤ (encs t).length ∧ ∀ (F : Nat) (c : Bytes) (s : List Nat) (f : Bool),
      AllSc s →
      matchChunkAux (F + k) (encs t ++ c) (encs s) f =
        matchChunkAux F c (encs (stepResU it s f).1) (stepResU it s f).2 := by
  cases h with
  | any =>
    refine ⟨1, by omega, by simp, ?_⟩
    intro F c s f hs
    have := matchChunkAux_any F c s hs f
    simpa using this
  | lit d hd h1 h2 h3 h4 =>
    refine ⟨(enc d).length, enc_length_pos d, by simp, ?_⟩
    intro F c s f hs
    have := matchChunkAux_lit d hd h1 h2 h3 F c s hs f
    simpa using this
  | esc d hd =>
    refine ⟨(enc d).length, enc_length_pos d, by simp, ?_⟩
    intro F c s f hs
    have := matchChunkAux_esc d hd F c s hs f
    simpa using this
  | @cls body rs hb hne =>
    refine ⟨1, by omega, by simp, ?_⟩
    intro F c s f hs
    have hcs : classStart (encs body ++ c) = (false, encs body ++ c) := by
      obtain ⟨d, tl, rfl, _, _⟩ := hb.head
      obtain ⟨b, R, hX, hd⟩ := encs_head hb.sc.cons.1 tl c
      have : b ≠ Glob.cCaret := fun h => hne tl (by rw [hd.eq_cCaret.1 h])
      rw [hX]
      simp [classStart, this]
    have := matchChunkAux_class false (encs body ++ c) body hb c hcs F s hs f
    simpa using this
  | @ncls body rs hb =>
    refine ⟨1, by omega, by simp, ?_⟩
    intro F c s f hs
    have hcs : classStart (Glob.cCaret :: (encs body ++ c)) = (true, encs body ++ c) := by
      simp [classStart]
    have := matchChunkAux_class true (Glob.cCaret :: (encs body ++ c)) body hb c hcs F s hs f
    simpa using this

/-- Item-wise matching of a prefix of the name (code points); returns the unconsumed rest. -/
def prefixMatchU : List Item → List Nat → Option (List Nat)
  | [], s => some s
  | _ :: _, [] => none
  | it :: its, x :: xs => if itemMatches it x then prefixMatchU its xs else none

def chunkResU (its : List Item) (s : List Nat) (f : Bool) : ChunkRes :=
  if f then .nomatch
  else
    match prefixMatchU its s with
    | some t => .ok (encs t)
    | none => .nomatch

theorem chunkResU_step (it : Item) (its : List Item) (s : List Nat) (f : Bool) :
    chunkResU its (stepResU it s f).1 (stepResU it s f).2 = chunkResU (it :: its) s f := by
  cases f with
  | true => simp [stepResU, chunkResU]
  | false =>
    cases s with
    | nil => simp [stepResU, chunkResU, prefixMatchU]
    | cons x xs =>
      cases h : itemMatches it x <;> simp [stepResU, chunkResU, prefixMatchU, h]

/-- Model on a well-formed chunk: the encoded chunk is matched item by item against the code
    points of the name. -/
theorem matchChunkAux_chunk {st : Bool} {c : List Nat} {its : List Item} (h : ChunkU st c its) :
    ∀ (F : Nat) (s : List Nat) (f : Bool), AllSc s → (encs c).length < F →
      matchChunkAux F (encs c) (encs s) f = chunkResU its s f := by
  induction h with
  | nil =>
    intro F s f _ hF
    cases F with
    | zero => simp at hF
    | succ F =>
      rw [encs_nil, matchChunkAux_nil]
      cases f <;> simp [chunkResU, prefixMatchU]
  | @cons t it c its ht _ ih =>
    intro F s f hs hF
    obtain ⟨k, hk0, hk, hstep⟩ := matchChunkAux_tok ht
    simp only [encs_append, List.length_append] at hF
    obtain ⟨F', rfl⟩ : ∃ F', F = F' + k := ⟨F - k, by omega⟩
    rw [encs_append, hstep F' (encs c) s f hs,
      ih F' _ _ (stepResU_sc it s f hs) (by omega), chunkResU_step]

theorem matchChunk_chunk {st : Bool} {c : List Nat} {its : List Item} (h : ChunkU st c its)
    (s : List Nat) (hs : AllSc s) : matchChunk (encs c) (encs s) = chunkResU its s false :=
  matchChunkAux_chunk h _ s false hs (Nat.lt_succ_self _)

/-! ### spec -/

theorem parsePat_tok {t : List Nat} {it : Item} (h : TokU false t it) (z : List Nat) :
    parsePat (t ++ z) = (parsePat z).map (it :: ·) := by
  cases h with
  | any =>
    simp [parsePat_cons, GlobSpec.cQuest, GlobSpec.cStar]
  | lit a ha h1 h2 h3 h4 =>
    have h5 : a ≠ GlobSpec.cStar := fun h => by simpa using h4 h
    simp [parsePat_cons, h1, h2, h3, h5]
  | esc a ha =>
    simp [parsePat_cons, GlobSpec.cBsl, GlobSpec.cQuest, GlobSpec.cStar, GlobSpec.cLBr]
  | @cls body rs hb hne =>
    have hcs : classStartS (body ++ z) = (false, body ++ z) := by
      obtain ⟨d, tl, rfl, _, _⟩ := hb.head
      have : d ≠ GlobSpec.cCaret := fun h => hne tl (by rw [h])
      simp [classStartS, this]
    have hpr := parseRangesS_cbody hb ((body ++ z).length + 1) z [] (by simp)
      (by simp only [List.length_append]; omega)
    rw [List.cons_append, parsePat_cons]
    simp only [hcs, hpr]
    simp [GlobSpec.cLBr, GlobSpec.cStar, GlobSpec.cQuest]
  | @ncls body rs hb =>
    have hcs : classStartS (GlobSpec.cCaret :: (body ++ z)) = (true, body ++ z) := by
      simp [classStartS]
    have hpr := parseRangesS_cbody hb ((body ++ z).length + 1) z [] (by simp)
      (by simp only [List.length_append]; omega)
    rw [List.cons_append, List.cons_append, parsePat_cons]
    simp only [hcs, hpr]
    simp [GlobSpec.cLBr, GlobSpec.cStar, GlobSpec.cQuest]

theorem parsePat_chunk {c : List Nat} {its : List Item} (h : ChunkU false c its) (z : List Nat) :
    parsePat (c ++ z) = (parsePat z).map (its ++ ·) := by
  induction h with
  | nil => simp
  | @cons t it c its ht _ ih =>
    rw [List.append_assoc, parsePat_tok ht, ih]
    cases parsePat z <;> simp

/-! ### scan -/

theorem scan_tok {t : List Nat} {it : Item} (h : TokU false t it) (y : Bytes) :
    scan (encs t ++ y) false = (encs t).length + scan y false := by
  cases h with
  | any => simp [scan_cons, Glob.cQuest, Glob.cBsl, Glob.cLBr, Glob.cRBr, Glob.cStar]
  | lit a ha h1 h2 h3 h4 =>
    have h5 : a ≠ GlobSpec.cStar := fun h => by simpa using h4 h
    have := scan_enc_out a ha h5 h2 h3 y
    simpa using this
  | esc a ha =>
    have := scan_esc a ha y false
    simpa [Nat.add_comm] using this
  | @cls body rs hb hne =>
    have h0 : encs (GlobSpec.cLBr :: body) ++ y = Glob.cLBr :: (encs body ++ y) := by simp
    rw [h0, scan_cons]
    have e1 : (Glob.cLBr == Glob.cBsl) = false := by decide
    simp only [e1, Bool.false_eq_true, ↓reduceIte, beq_self_eq_true]
    rw [scan_cbody hb]
    simp only [encs_cons, enc_cLBr, List.length_append, List.length_cons, List.length_nil]
    omega
  | @ncls body rs hb =>
    have h0 : encs (GlobSpec.cLBr :: GlobSpec.cCaret :: body) ++ y =
        Glob.cLBr :: Glob.cCaret :: (encs body ++ y) := by simp
    rw [h0, scan_cons]
    have e0 : (Glob.cLBr == Glob.cBsl) = false := by decide
    simp only [e0, Bool.false_eq_true, ↓reduceIte, beq_self_eq_true]
    rw [scan_cons]
    have e1 : (Glob.cCaret == Glob.cBsl) = false := by decide
    have e2 : (Glob.cCaret == Glob.cLBr) = false := by decide
    have e3 : (Glob.cCaret == Glob.cRBr) = false := by decide
    have e4 : (Glob.cCaret == Glob.cStar) = false := by decide
    simp only [e1, e2, e3, e4, Bool.false_eq_true, ↓reduceIte]
    rw [scan_cbody hb]
    simp only [encs_cons, enc_cLBr, enc_cCaret, List.length_append, List.length_cons,
      List.length_nil]
    omega

theorem scan_chunk {c : List Nat} {its : List Item} (h : ChunkU false c its) (y : Bytes) :
    scan (encs c ++ y) false = (encs c).length + scan y false := by
  induction h with
  | nil => simp
  | @cons t it c its ht _ ih =>
    rw [encs_append, List.append_assoc, scan_tok ht, ih, List.length_append]; omega

/-! ### converses -/

/-- If `matchChunk` survives a run of literal bytes it survives on what follows. -/
theorem litrun_notbad (l : Bytes) (hl : ∀ b ∈ l, PlainB b) : ∀ (F : Nat) (c s : Bytes) (f : Bool),
    matchChunkAux F (l ++ c) s f ≠ .bad → ∃ F' s' f', matchChunkAux F' c s' f' ≠ .bad := by
  induction l with
  | nil => intro F c s f h; exact ⟨F, s, f, h⟩
  | cons b l ih =>
    intro F c s f h
    have hl' : ∀ z ∈ l, PlainB z := fun z hz => hl z (by simp [hz])
    cases F with
    | zero => exact absurd rfl h
    | succ F =>
      rw [List.cons_append, matchChunkAux_plain F b (hl b (by simp))] at h
      split at h
      · exact ih hl' _ _ _ _ h
      · split at h
        · exact ih hl' _ _ _ _ h
        · exact ih hl' _ _ _ _ h

theorem encs_caret_inv {crest : List Nat} (hc : AllSc crest) {t : Bytes}
    (h : encs crest = Glob.cCaret :: t) : ∃ crest2, crest = GlobSpec.cCaret :: crest2 ∧
      t = encs crest2 := by
  cases crest with
  | nil => simp at h
  | cons y crest2 =>
    obtain ⟨b, tl, he, hd, _, hasc⟩ := enc_head y hc.cons.1
    simp only [encs_cons, he, List.cons_append, List.cons.injEq] at h
    have hy : y = GlobSpec.cCaret := hd.eq_cCaret.1 h.1
    have htl : tl = [] := hasc (by rw [hy]; decide)
    subst htl
    exact ⟨crest2, by rw [hy], by simpa using h.2.symm⟩

/-- Model, converse: whatever `matchChunkAux` does not reject on an encoded sequence is a chunk
    (with `*` allowed as a literal). -/
theorem matchChunkAux_inv : ∀ (n : Nat) (c : List Nat), c.length ≤ n → AllSc c →
    ∀ (F : Nat) (s : Bytes) (f : Bool),
    matchChunkAux F (encs c) s f ≠ .bad → ∃ its, ChunkU true c its := by
  intro n
  induction n with
  | zero =>
    intro c hn _ F s f _
    have : c = [] := List.eq_nil_of_length_eq_zero (by omega)
    subst this
    exact ⟨[], ChunkU.nil⟩
  | succ n ih =>
    intro c hn hc F s f h
    cases c with
    | nil => exact ⟨[], ChunkU.nil⟩
    | cons x crest =>
      have hx := hc.cons.1
      have hcrest := hc.cons.2
      simp only [List.length_cons] at hn
      obtain ⟨b, tl, he, hd, htl, hasc⟩ := enc_head x hx
      cases F with
      | zero => exact absurd rfl h
      | succ F =>
      have hfold : encs (x :: crest) = b :: (tl ++ encs crest) := by simp [he]
      rw [hfold, matchChunkAux_cons] at h
      dsimp only at h
      split at h
      · rename_i hl
        simp only [beq_iff_eq] at hl
        have hxl : x = GlobSpec.cLBr := hd.eq_cLBr.1 hl
        have htl0 : tl = [] := hasc (by rw [hxl]; decide)
        subst htl0
        simp only [List.nil_append] at h
        split at h
        · exact absurd rfl h
        · rename_i m chunk2 hpr
          rcases classStart_spec (encs crest) with ⟨t, ht, hcs⟩ | ⟨hne, hcs⟩
          · rw [hcs] at hpr h
            obtain ⟨crest2, rfl, rfl⟩ := encs_caret_inv hcrest ht
            obtain ⟨body, rs, q', hb, hc2, hcb, _⟩ :=
              parseRanges_inv _ _ hcrest.cons.2 _ _ _ _ _ hpr
            subst hc2
            have hq' : AllSc q' := by
              have := hcrest.cons.2; rw [hb] at this; exact this.append_right
            have hlen : q'.length ≤ n := by
              have := congrArg List.length hb
              simp only [List.length_cons, List.length_append] at this hn
              omega
            obtain ⟨its, hch⟩ := ih q' hlen hq' _ _ _ h
            refine ⟨Item.cls true rs :: its, ?_⟩
            have := ChunkU.cons (TokU.ncls (st := true) (by simpa using hcb)) hch
            rw [hxl, hb]
            simpa using this
          · rw [hcs] at hpr h
            obtain ⟨body, rs, q', hb, hc2, hcb, _⟩ := parseRanges_inv _ _ hcrest _ _ _ _ _ hpr
            subst hc2
            have hq' : AllSc q' := by
              have := hcrest; rw [hb] at this; exact this.append_right
            have hlen : q'.length ≤ n := by
              have := congrArg List.length hb
              simp only [List.length_append] at this
              omega
            obtain ⟨its, hch⟩ := ih q' hlen hq' _ _ _ h
            refine ⟨Item.cls false rs :: its, ?_⟩
            have hne' : ∀ tl, body ≠ GlobSpec.cCaret :: tl := by
              intro tl hbt
              exact hne (encs tl ++ encs q') (by rw [hb, hbt]; simp)
            have := ChunkU.cons (TokU.cls (st := true) (by simpa using hcb) hne') hch
            rw [hxl, hb]
            simpa using this
      · rename_i hl
        simp only [beq_iff_eq] at hl
        have hxl : x ≠ GlobSpec.cLBr := fun h => hl (hd.eq_cLBr.2 h)
        split at h
        · rename_i hq
          simp only [beq_iff_eq] at hq
          have hxq : x = GlobSpec.cQuest := hd.eq_cQuest.1 hq
          have htl0 : tl = [] := hasc (by rw [hxq]; decide)
          subst htl0
          simp only [List.nil_append] at h
          obtain ⟨its, hch⟩ := ih crest (by omega) hcrest _ _ _ h
          rw [hxq]
          exact ⟨Item.any :: its, by simpa using ChunkU.cons (TokU.any (st := true)) hch⟩
        · rename_i hq
          simp only [beq_iff_eq] at hq
          have hxq : x ≠ GlobSpec.cQuest := fun h => hq (hd.eq_cQuest.2 h)
          by_cases hb : b = Glob.cBsl
          · have hxb : x = GlobSpec.cBsl := hd.eq_cBsl.1 hb
            have htl0 : tl = [] := hasc (by rw [hxb]; decide)
            subst htl0
            subst hb
            simp only [beq_self_eq_true, ↓reduceIte, List.nil_append] at h
            cases crest with
            | nil => exact absurd rfl h
            | cons d crest2 =>
              obtain ⟨b', tl', he', _, htl', _⟩ := enc_head d hcrest.cons.1
              have hfold' : encs (d :: crest2) = b' :: (tl' ++ encs crest2) := by simp [he']
              rw [hfold'] at h
              have hrec : ∃ F' s' f', matchChunkAux F' (tl' ++ encs crest2) s' f' ≠ .bad := by
                dsimp only at h
                split at h
                · split at h
                  · exact ⟨_, _, _, h⟩
                  · exact ⟨_, _, _, h⟩
                · exact ⟨_, _, _, h⟩
              obtain ⟨F', s', f', h'⟩ := hrec
              obtain ⟨F'', s'', f'', h''⟩ := litrun_notbad tl' (high_plain htl') _ _ _ _ h'
              simp only [List.length_cons] at hn
              obtain ⟨its, hch⟩ := ih crest2 (by omega) hcrest.cons.2 _ _ _ h''
              rw [hxb]
              exact ⟨Item.lit d :: its,
                by simpa using ChunkU.cons (TokU.esc (st := true) d hcrest.cons.1) hch⟩
          · have hxb : x ≠ GlobSpec.cBsl := fun h => hb (hd.eq_cBsl.2 h)
            have hbf : (b == Glob.cBsl) = false := by simpa using hb
            simp only [hbf, Bool.false_eq_true, ↓reduceIte] at h
            have hrec : ∃ F' s' f', matchChunkAux F' (tl ++ encs crest) s' f' ≠ .bad := by
              split at h
              · split at h
                · exact ⟨_, _, _, h⟩
                · exact ⟨_, _, _, h⟩
              · exact ⟨_, _, _, h⟩
            obtain ⟨F', s', f', h'⟩ := hrec
            obtain ⟨F'', s'', f'', h''⟩ := litrun_notbad tl (high_plain htl) _ _ _ _ h'
            obtain ⟨its, hch⟩ := ih crest (by omega) hcrest _ _ _ h''
            exact ⟨Item.lit x :: its,
              by simpa using ChunkU.cons (TokU.lit (st := true) x hx hxq hxl hxb (fun _ => rfl)) hch⟩

/-- A chunk that `scan` traverses completely has no top-level star. -/
theorem chunk_no_top_star {c : List Nat} {its : List Item} (h : ChunkU true c its) :
    ∀ (y : Bytes), (encs c).length ≤ scan (encs c ++ y) false → ChunkU false c its := by
  induction h with
  | nil => intro _ _; exact ChunkU.nil
  | @cons t it c its ht hc ih =>
    intro y hy
    have htok : TokU false t it := by
      cases ht with
      | any => exact TokU.any
      | lit a ha h1 h2 h3 h4 =>
        refine TokU.lit a ha h1 h2 h3 ?_
        intro hs
        subst hs
        simp only [List.cons_append, List.nil_append, encs_cons, enc_cStar, scan_star,
          List.length_cons] at hy
        omega
      | esc a ha => exact TokU.esc a ha
      | cls hb hne => exact TokU.cls hb hne
      | ncls hb => exact TokU.ncls hb
    refine ChunkU.cons htok (ih y ?_)
    rw [encs_append, List.append_assoc, scan_tok htok] at hy
    simp only [List.length_append] at hy
    omega

theorem classStartS_spec (crest : List Nat) :
    (∃ t, crest = GlobSpec.cCaret :: t ∧ classStartS crest = (true, t)) ∨
    ((∀ t, crest ≠ GlobSpec.cCaret :: t) ∧ classStartS crest = (false, crest)) := by
  cases crest with
  | nil => right; simp [classStartS]
  | cons x t =>
    by_cases hx : x = GlobSpec.cCaret
    · left; exact ⟨t, by rw [hx], by simp [classStartS, hx]⟩
    · right
      refine ⟨?_, by simp [classStartS, hx]⟩
      intro t' h
      exact hx (List.cons.inj h).1

/-- Spec, converse, one token. -/
theorem parsePat_tok_inv (x : Nat) (p1 : List Nat) (hp : AllSc (x :: p1))
    (hx : x ≠ GlobSpec.cStar) (is : List Item) (h : parsePat (x :: p1) = some is) :
    ∃ t it z is1, x :: p1 = t ++ z ∧ TokU false t it ∧ parsePat z = some is1 ∧
      is = it :: is1 := by
  have hx1 := hp.cons.1
  have hp1 := hp.cons.2
  rw [parsePat_cons] at h
  simp only [hx, ↓reduceIte] at h
  split at h
  · rename_i hq
    subst hq
    obtain ⟨is1, h1, h2⟩ := Option.map_eq_some_iff.1 h
    exact ⟨[GlobSpec.cQuest], Item.any, p1, is1, rfl, TokU.any, h1, h2.symm⟩
  · rename_i hq
    split at h
    · rename_i hl
      subst hl
      split at h
      · cases h
      · rename_i rs rest' hpr
        obtain ⟨is1, h1, h2⟩ := Option.map_eq_some_iff.1 h
        rcases classStartS_spec p1 with ⟨t, rfl, hcs⟩ | ⟨hne, hcs⟩
        · rw [hcs] at hpr h2
          obtain ⟨body, rs0, hb, hcb, hrs⟩ := parseRangesS_inv _ _ hp1.cons.2 _ _ _ hpr
          simp only [List.reverse_nil, List.nil_append] at hrs
          subst hrs
          refine ⟨GlobSpec.cLBr :: GlobSpec.cCaret :: body, Item.cls true rs, rest', is1,
            by simp [hb], TokU.ncls (by simpa using hcb), h1, h2.symm⟩
        · rw [hcs] at hpr h2
          obtain ⟨body, rs0, hb, hcb, hrs⟩ := parseRangesS_inv _ _ hp1 _ _ _ hpr
          simp only [List.reverse_nil, List.nil_append] at hrs
          subst hrs
          have hne' : ∀ tl, body ≠ GlobSpec.cCaret :: tl := by
            intro tl hbt
            exact hne (tl ++ rest') (by rw [hb, hbt]; simp)
          refine ⟨GlobSpec.cLBr :: body, Item.cls false rs, rest', is1, by simp [hb],
            TokU.cls (by simpa using hcb) hne', h1, h2.symm⟩
    · rename_i hl
      split at h
      · rename_i hb
        subst hb
        cases p1 with
        | nil => simp at h
        | cons d r =>
          simp only at h
          obtain ⟨is1, h1, h2⟩ := Option.map_eq_some_iff.1 h
          exact ⟨[GlobSpec.cBsl, d], Item.lit d, r, is1, rfl, TokU.esc d hp1.cons.1, h1,
            h2.symm⟩
      · rename_i hb
        obtain ⟨is1, h1, h2⟩ := Option.map_eq_some_iff.1 h
        exact ⟨[x], Item.lit x, p1, is1, rfl,
          TokU.lit x hx1 hq hl hb (fun h => absurd h hx), h1, h2.symm⟩

/-- Spec, converse: a well-formed pattern splits into a first chunk and a rest that is empty or
    begins with a star. -/
theorem parsePat_chunk_inv : ∀ (n : Nat) (p : List Nat), p.length ≤ n → AllSc p →
    ∀ (is : List Item), parsePat p = some is →
    ∃ c its rest is', p = c ++ rest ∧ ChunkU false c its ∧ is = its ++ is' ∧
      parsePat rest = some is' ∧ (rest = [] ∨ ∃ rest', rest = GlobSpec.cStar :: rest') := by
  intro n
  induction n with
  | zero =>
    intro p hn _ is h
    have : p = [] := List.eq_nil_of_length_eq_zero (by omega)
    subst this
    exact ⟨[], [], [], is, rfl, ChunkU.nil, rfl, h, Or.inl rfl⟩
  | succ n ih =>
    intro p hn hp is h
    cases p with
    | nil => exact ⟨[], [], [], is, rfl, ChunkU.nil, rfl, h, Or.inl rfl⟩
    | cons x p1 =>
      by_cases hx : x = GlobSpec.cStar
      · subst hx
        exact ⟨[], [], GlobSpec.cStar :: p1, is, rfl, ChunkU.nil, rfl, h, Or.inr ⟨p1, rfl⟩⟩
      · obtain ⟨t, it, z, is1, hsplit, htok, hz, his⟩ := parsePat_tok_inv x p1 hp hx is h
        have hzlen : z.length ≤ n := by
          have := congrArg List.length hsplit
          have := htok.length_pos
          simp only [List.length_cons, List.length_append] at *
          omega
        have hza : AllSc z := by rw [hsplit] at hp; exact hp.append_right
        obtain ⟨c, its, rest, is', hc, hch, hits, hrest, hform⟩ := ih z hzlen hza is1 hz
        refine ⟨t ++ c, it :: its, rest, is', ?_, ChunkU.cons htok hch, ?_, hrest, hform⟩
        · rw [hsplit, hc]; simp
        · rw [his, hits]; simp

/-! ### `scan` cuts at rune boundaries -/

theorem scan_enc_other (c : Nat) (hc : Sc c) (h1 : c ≠ GlobSpec.cStar) (h2 : c ≠ GlobSpec.cLBr)
    (h3 : c ≠ GlobSpec.cRBr) (h4 : c ≠ GlobSpec.cBsl) (y : Bytes) (inr : Bool) :
    scan (enc c ++ y) inr = (enc c).length + scan y inr := by
  cases inr with
  | true => exact scan_enc_in c hc h3 h4 y
  | false => exact scan_enc_out c hc h1 h2 h4 y

/-- The byte-wise `Scan:` loop ends the chunk at a rune boundary of the pattern (the cut points
    are the ASCII byte `*` outside brackets, or the end), although it skips the byte after a
    backslash blindly. -/
theorem scan_aligned : ∀ (n : Nat) (p : List Nat), p.length ≤ n → AllSc p → ∀ (inr : Bool),
    ∃ rc rr, p = rc ++ rr ∧ scan (encs p) inr = (encs rc).length ∧
      (rr = [] ∨ ∃ r, rr = GlobSpec.cStar :: r) := by
  intro n
  induction n with
  | zero =>
    intro p hp _ inr
    have : p = [] := List.eq_nil_of_length_eq_zero (by omega)
    subst this
    exact ⟨[], [], rfl, by simp [scan_nil], Or.inl rfl⟩
  | succ n ih =>
    intro p hp hsc inr
    cases p with
    | nil => exact ⟨[], [], rfl, by simp [scan_nil], Or.inl rfl⟩
    | cons c rest =>
      simp only [List.length_cons] at hp
      have hc := hsc.cons.1
      have hrest := hsc.cons.2
      have step : ∀ b, scan (encs (c :: rest)) inr = (enc c).length + scan (encs rest) b →
          ∃ rc rr, c :: rest = rc ++ rr ∧ scan (encs (c :: rest)) inr = (encs rc).length ∧
            (rr = [] ∨ ∃ r, rr = GlobSpec.cStar :: r) := by
        intro b hb
        obtain ⟨rc, rr, h1, h2, h3⟩ := ih rest (by omega) hrest b
        refine ⟨c :: rc, rr, by rw [h1]; rfl, ?_, h3⟩
        rw [hb, h2]; simp
      by_cases hbsl : c = GlobSpec.cBsl
      · subst hbsl
        cases rest with
        | nil =>
          refine ⟨[GlobSpec.cBsl], [], rfl, ?_, Or.inl rfl⟩
          simp [scan_cons]
        | cons x rest' =>
          simp only [List.length_cons] at hp
          obtain ⟨rc, rr, h1, h2, h3⟩ := ih rest' (by omega) hrest.cons.2 inr
          refine ⟨GlobSpec.cBsl :: x :: rc, rr, by rw [h1]; rfl, ?_, h3⟩
          have := scan_esc x hrest.cons.1 (encs rest') inr
          simp only [encs_cons, enc_cBsl, List.cons_append, List.nil_append, List.length_cons,
            List.length_append] at this ⊢
          rw [this, h2]; omega
      · by_cases hlbr : c = GlobSpec.cLBr
        · subst hlbr
          apply step true
          simp [scan_cons, Glob.cLBr, Glob.cBsl]
        · by_cases hrbr : c = GlobSpec.cRBr
          · subst hrbr
            apply step false
            simp [scan_cons, Glob.cLBr, Glob.cBsl, Glob.cRBr]
          · by_cases hstar : c = GlobSpec.cStar
            · subst hstar
              cases inr with
              | false =>
                refine ⟨[], GlobSpec.cStar :: rest, rfl, ?_, Or.inr ⟨rest, rfl⟩⟩
                simp [scan_star]
              | true =>
                apply step true
                simp [scan_cons, Glob.cLBr, Glob.cBsl, Glob.cRBr, Glob.cStar]
            · apply step inr
              exact scan_enc_other c hc hstar hlbr hrbr hbsl _ inr

end InToto.GlobUtf8
