import InToto.Proofs.Rules

/-!
C10 / finding F20: the clean-up of artifact names that `verifyMatchRule` performs on the source and
the destination artifact map (`Rules.cleanArts`, Go `cleanArtifactPaths`) does not depend on the order
in which the Go map hands out its entries.
-/

namespace InToto.CleanOrder
open InToto InToto.Rules

abbrev keyLt {β} (a b : Str × β) : Bool := Json.strLt a.1 b.1

/-- `Json.strLt` (code-point lexicographic order = Go `sort.Strings` on valid UTF-8) is a strict total order -/
theorem strLt_irrefl (a : Str) : Json.strLt a a = false := by
  induction a with
  | nil => rfl
  | cons x xs ih => simp [Json.strLt, ih]
theorem strLt_trans (a b c : Str) (h1 : Json.strLt a b = true) (h2 : Json.strLt b c = true) :
    Json.strLt a c = true := by
  induction a generalizing b c with
  | nil =>
    cases b with
    | nil => simp [Json.strLt] at h1
    | cons y ys =>
      cases c with
      | nil => simp [Json.strLt] at h2
      | cons z zs => simp [Json.strLt]
  | cons x xs ih =>
    cases b with
    | nil => simp [Json.strLt] at h1
    | cons y ys =>
      cases c with
      | nil => simp [Json.strLt] at h2
      | cons z zs =>
        simp only [Json.strLt] at h1 h2 ⊢
        split at h1
        · split at h2
          · have : x.toNat < z.toNat := by omega
            simp [this]
          · split at h2
            · simp at h2
            · have : x.toNat < z.toNat := by omega
              simp [this]
        · split at h1
          · simp at h1
          · split at h2
            · have : x.toNat < z.toNat := by omega
              simp [this]
            · split at h2
              · simp at h2
              · have h3 : ¬ x.toNat < z.toNat := by omega
                have h4 : ¬ z.toNat < x.toNat := by omega
                simp only [h3, h4, if_false]
                exact ih ys zs h1 h2
theorem strLt_total (a b : Str) : Json.strLt a b = true ∨ a = b ∨ Json.strLt b a = true := by
  induction a generalizing b with
  | nil =>
    cases b with
    | nil => simp
    | cons y ys => simp [Json.strLt]
  | cons x xs ih =>
    cases b with
    | nil => simp [Json.strLt]
    | cons y ys =>
      simp only [Json.strLt]
      by_cases h1 : x.toNat < y.toNat
      · simp [h1]
      · by_cases h2 : y.toNat < x.toNat
        · simp [h1, h2]
        · have hxy : x = y := by
            apply Char.ext; apply UInt32.toNat_inj.mp
            simp only [Char.toNat] at h1 h2; omega
          subst hxy
          simp only [Nat.lt_irrefl, if_false, List.cons.injEq, true_and]
          exact ih ys

theorem insertSorted_perm {α} (lt : α → α → Bool) (x : α) (l : List α) :
    (insertSorted lt x l).Perm (x :: l) := by
  induction l with
  | nil => exact List.Perm.refl _
  | cons y ys ih =>
    simp only [insertSorted]
    split
    · exact List.Perm.refl _
    · exact (List.Perm.cons y ih).trans (List.Perm.swap x y ys)

theorem sortBy_perm {α} (lt : α → α → Bool) (l : List α) : (sortBy lt l).Perm l := by
  induction l with
  | nil => exact List.Perm.refl _
  | cons x xs ih =>
    show (insertSorted lt x (sortBy lt xs)).Perm (x :: xs)
    exact (insertSorted_perm lt x _).trans (List.Perm.cons x ih)

theorem insertSorted_pairwise {β} (x : Str × β) (l : List (Str × β))
    (hs : l.Pairwise (fun a b => Json.strLt a.1 b.1 = true)) (hx : ∀ y ∈ l, y.1 ≠ x.1) :
    (insertSorted keyLt x l).Pairwise (fun a b => Json.strLt a.1 b.1 = true) := by
  induction l with
  | nil => simp [insertSorted]
  | cons y ys ih =>
    simp only [insertSorted]
    rw [List.pairwise_cons] at hs
    split
    · rename_i hlt
      refine List.Pairwise.cons ?_ (List.Pairwise.cons hs.1 hs.2)
      intro z hz
      rcases List.mem_cons.mp hz with rfl | hz
      · exact hlt
      · exact strLt_trans _ _ _ hlt (hs.1 z hz)
    · rename_i hlt
      have hyx : Json.strLt y.1 x.1 = true := by
        rcases strLt_total x.1 y.1 with h | h | h
        · exact absurd h hlt
        · exact absurd h.symm (hx y List.mem_cons_self)
        · exact h
      refine List.Pairwise.cons ?_ (ih hs.2 (fun z hz => hx z (List.mem_cons_of_mem _ hz)))
      intro z hz
      rcases List.mem_cons.mp ((insertSorted_perm keyLt x ys).subset hz) with rfl | hz
      · exact hyx
      · exact hs.1 z hz

theorem sortBy_pairwise {β} (l : List (Str × β)) (hn : (l.map Prod.fst).Nodup) :
    (sortBy keyLt l).Pairwise (fun a b => Json.strLt a.1 b.1 = true) := by
  induction l with
  | nil => exact List.Pairwise.nil
  | cons x xs ih =>
    rw [List.map_cons, List.nodup_cons] at hn
    show (insertSorted keyLt x (sortBy keyLt xs)).Pairwise _
    refine insertSorted_pairwise x _ (ih hn.2) ?_
    intro y hy hxy
    exact hn.1 (hxy ▸ List.mem_map_of_mem ((sortBy_perm keyLt xs).subset hy))

/-- sorting by key does not depend on the order of the input when the keys are pairwise distinct
    (a Go map has no two entries with one key) -/
theorem sortBy_key_perm {β} (l₁ l₂ : List (Str × β)) (hp : l₁.Perm l₂) (hn : (l₁.map Prod.fst).Nodup) :
    sortBy keyLt l₁ = sortBy keyLt l₂ := by
  have hn2 : (l₂.map Prod.fst).Nodup := (hp.map Prod.fst).nodup_iff.mp hn
  refine List.Perm.eq_of_pairwise ?_ (sortBy_pairwise l₁ hn) (sortBy_pairwise l₂ hn2)
    ((sortBy_perm keyLt l₁).trans (hp.trans (sortBy_perm keyLt l₂).symm))
  intro a b _ _ h1 h2
  have := strLt_trans _ _ _ h1 h2
  rw [strLt_irrefl] at this
  cases this

/-! ### lookups, and one step of the clean-up loop -/

theorem lookup_mem {β} (k : Str) (v : β) (l : List (Str × β)) (h : lookup k l = some v) : (k, v) ∈ l := by
  induction l with
  | nil => simp [lookup] at h
  | cons x xs ih =>
    obtain ⟨k', v'⟩ := x
    simp only [lookup] at h
    split at h
    · rename_i hk; subst hk; cases h; exact List.mem_cons_self
    · exact List.mem_cons_of_mem _ (ih h)

theorem lookup_none_iff {β} (k : Str) (l : List (Str × β)) : lookup k l = none ↔ ∀ x ∈ l, x.1 ≠ k := by
  induction l with
  | nil => simp [lookup]
  | cons x xs ih =>
    obtain ⟨k', v'⟩ := x
    simp only [lookup]
    split
    · rename_i hk; simp [hk]
    · rename_i hk; simp [ih, hk]

theorem lookup_of_mem {β} (k : Str) (v : β) (l : List (Str × β)) (hn : (l.map Prod.fst).Nodup)
    (h : (k, v) ∈ l) : lookup k l = some v := by
  induction l with
  | nil => cases h
  | cons x xs ih =>
    obtain ⟨k', v'⟩ := x
    rw [List.map_cons, List.nodup_cons] at hn
    simp only [lookup]
    rcases List.mem_cons.mp h with h | h
    · cases h; simp
    · have : k' ≠ k := fun e => hn.1 (List.mem_map.mpr ⟨(k, v), h, e.symm⟩)
      simp only [this, if_false]
      exact ih hn.2 h

theorem lookup_perm {β} (k : Str) (l₁ l₂ : List (Str × β)) (hp : l₁.Perm l₂) (hn : (l₁.map Prod.fst).Nodup) :
    lookup k l₁ = lookup k l₂ := by
  have hn2 : (l₂.map Prod.fst).Nodup := (hp.map Prod.fst).nodup_iff.mp hn
  cases h : lookup k l₁ with
  | some v => exact (lookup_of_mem k v l₂ hn2 (hp.subset (lookup_mem k v l₁ h))).symm
  | none =>
    symm
    rw [lookup_none_iff] at h ⊢
    exact fun x hx => h x (hp.symm.subset hx)

theorem lookup_append {β} (k : Str) (a b : List (Str × β)) :
    lookup k (a ++ b) = (lookup k a).or (lookup k b) := by
  induction a with
  | nil => simp [lookup]
  | cons x xs ih =>
    obtain ⟨k', v'⟩ := x
    simp only [List.cons_append, lookup]
    split
    · simp
    · exact ih

theorem lookup_filter_ne {β} (c c' : Str) (l : List (Str × β)) (h : c' ≠ c) :
    lookup c (l.filter fun e => e.1 ≠ c') = lookup c l := by
  induction l with
  | nil => rfl
  | cons x xs ih =>
    obtain ⟨k', v'⟩ := x
    by_cases hk : k' = c'
    · subst hk
      rw [List.filter_cons_of_neg (by simp)]
      simp only [lookup, h, if_false]
      exact ih
    · rw [List.filter_cons_of_pos (by simp [hk])]
      simp only [lookup]
      split
      · rfl
      · exact ih

theorem lookup_filter_self {β} (c : Str) (l : List (Str × β)) :
    lookup c (l.filter fun e => e.1 ≠ c) = none := by
  rw [lookup_none_iff]
  intro x hx
  simpa using (List.mem_filter.mp hx).2

/-- one iteration of the loop of `cleanArtifactPaths` -/
abbrev step (acc : List (Str × HashObj)) (kv : Str × HashObj) : List (Str × HashObj) :=
  (acc.filter fun e => e.1 ≠ Path.clean kv.1) ++ [(Path.clean kv.1, kv.2)]

theorem cleanArts_some (l : List (Str × HashObj)) :
    cleanArts (some l) = some ((sortBy keyLt (l.filter fun kv => Path.clean kv.1 ≠ kv.1)).foldl step
      (l.filter fun kv => Path.clean kv.1 = kv.1)) := rfl

theorem lookup_step (c : Str) (acc : List (Str × HashObj)) (kv : Str × HashObj) :
    lookup c (step acc kv) = if Path.clean kv.1 = c then some kv.2 else lookup c acc := by
  simp only [step, lookup_append]
  split
  · rename_i h; subst h; rw [lookup_filter_self]; simp [lookup]
  · rename_i h
    rw [lookup_filter_ne c _ acc h]
    simp [lookup, h]

theorem lookup_foldl (c : Str) (m acc : List (Str × HashObj)) :
    lookup c (m.foldl step acc) =
      m.foldl (fun o kv => if Path.clean kv.1 = c then some kv.2 else o) (lookup c acc) := by
  induction m generalizing acc with
  | nil => rfl
  | cons x xs ih => simp only [List.foldl_cons]; rw [ih, lookup_step]

theorem foldl_none (c : Str) (m : List (Str × HashObj)) (o : Option HashObj)
    (h : ∀ x ∈ m, Path.clean x.1 ≠ c) :
    m.foldl (fun o kv => if Path.clean kv.1 = c then some kv.2 else o) o = o := by
  induction m generalizing o with
  | nil => rfl
  | cons x xs ih =>
    simp only [List.foldl_cons, h x List.mem_cons_self, if_false]
    exact ih o fun y hy => h y (List.mem_cons_of_mem _ hy)

theorem foldl_last (c : Str) (pre post : List (Str × HashObj)) (kv : Str × HashObj) (o : Option HashObj)
    (hk : Path.clean kv.1 = c) (h : ∀ x ∈ post, Path.clean x.1 ≠ c) :
    (pre ++ kv :: post).foldl (fun o kv => if Path.clean kv.1 = c then some kv.2 else o) o = some kv.2 := by
  rw [List.foldl_append, List.foldl_cons]
  simp only [hk, if_true]
  exact foldl_none c post _ h

theorem last_decomp (c : Str) (m : List (Str × HashObj)) :
    (∀ x ∈ m, Path.clean x.1 ≠ c) ∨
    ∃ pre kv post, m = pre ++ kv :: post ∧ Path.clean kv.1 = c ∧ ∀ x ∈ post, Path.clean x.1 ≠ c := by
  induction m with
  | nil => left; intro x hx; cases hx
  | cons x xs ih =>
    rcases ih with h | ⟨pre, kv, post, he, hk, hp⟩
    · by_cases hx : Path.clean x.1 = c
      · right; exact ⟨[], x, xs, rfl, hx, h⟩
      · left; intro y hy
        rcases List.mem_cons.mp hy with rfl | hy
        · exact hx
        · exact h y hy
    · right; exact ⟨x :: pre, kv, post, by rw [he]; rfl, hk, hp⟩

theorem filter_keys_nodup {β} (p : Str × β → Bool) (l : List (Str × β)) (hn : (l.map Prod.fst).Nodup) :
    ((l.filter p).map Prod.fst).Nodup :=
  List.Nodup.sublist (List.Sublist.map _ List.filter_sublist) hn

theorem mem_moved (l : List (Str × HashObj)) (x : Str × HashObj) :
    x ∈ sortBy keyLt (l.filter fun kv => Path.clean kv.1 ≠ kv.1) ↔ x ∈ l ∧ Path.clean x.1 ≠ x.1 := by
  rw [(sortBy_perm keyLt _).mem_iff, List.mem_filter]
  simp

/-- WHO SURVIVES the clean-up under the clean name `c`:
    either the entry moved there from the not-clean name that sorts LAST among all not-clean names
    cleaning to `c`, or — when no not-clean name cleans to `c` — the entry recorded under `c` itself. -/
def Survivor (l : List (Str × HashObj)) (c : Str) (v : HashObj) : Prop :=
  (∃ k, (k, v) ∈ l ∧ Path.clean k ≠ k ∧ Path.clean k = c ∧
      ∀ k' v', (k', v') ∈ l → Path.clean k' ≠ k' → Path.clean k' = c → k' = k ∨ Json.strLt k' k = true)
  ∨ ((c, v) ∈ l ∧ Path.clean c = c ∧ ∀ k' v', (k', v') ∈ l → Path.clean k' = c → k' = c)

/-- the cleaned map, as a function: `m[c]` after the clean-up is `v` iff `(c, v)` is the survivor -/
theorem cleanArts_lookup_iff (l : List (Str × HashObj)) (hn : (l.map Prod.fst).Nodup) (c : Str) (v : HashObj) :
    (∃ r, cleanArts (some l) = some r ∧ lookup c r = some v) ↔ Survivor l c v := by
  have hsorted := sortBy_pairwise (l.filter fun kv => Path.clean kv.1 ≠ kv.1) (filter_keys_nodup _ l hn)
  have hmem := mem_moved l
  have hck : ((l.filter fun kv => Path.clean kv.1 = kv.1).map Prod.fst).Nodup := filter_keys_nodup _ l hn
  rw [cleanArts_some]
  generalize sortBy keyLt (l.filter fun kv => Path.clean kv.1 ≠ kv.1) = m at hsorted hmem
  constructor
  · rintro ⟨r, hr, hl⟩
    cases hr
    rw [lookup_foldl] at hl
    rcases last_decomp c m with hnone | ⟨pre, kv, post, he, hk, hpost⟩
    · rw [foldl_none c m _ hnone] at hl
      have hcv := List.mem_filter.mp (lookup_mem c v _ hl)
      right
      refine ⟨hcv.1, by simpa using hcv.2, ?_⟩
      intro k' v' hkv hc
      by_cases hcl : Path.clean k' = k'
      · rw [← hcl, hc]
      · exact absurd hc (hnone (k', v') ((hmem _).mpr ⟨hkv, hcl⟩))
    · subst he
      rw [foldl_last c pre post kv _ hk hpost] at hl
      cases hl
      have hkv := (hmem kv).mp (by simp)
      left
      refine ⟨kv.1, hkv.1, hkv.2, hk, ?_⟩
      intro k' v' hkv' hcl hc
      have := (hmem (k', v')).mpr ⟨hkv', hcl⟩
      rw [List.pairwise_append] at hsorted
      rcases List.mem_append.mp this with hin | hin
      · right; exact hsorted.2.2 _ hin kv List.mem_cons_self
      · rcases List.mem_cons.mp hin with heq | hin
        · left; rw [← heq]
        · exact absurd hc (hpost _ hin)
  · intro hs
    refine ⟨_, rfl, ?_⟩
    rw [lookup_foldl]
    rcases hs with ⟨k, hkv, hcl, hc, hmax⟩ | ⟨hcv, hcl, hall⟩
    · have hkm := (hmem (k, v)).mpr ⟨hkv, hcl⟩
      rcases last_decomp c m with hnone | ⟨pre, kv, post, he, hk, hpost⟩
      · exact absurd hc (hnone _ hkm)
      · subst he
        rw [foldl_last c pre post kv _ hk hpost]
        have hkv' := (hmem kv).mp (by simp)
        have hkeq : kv.1 = k := by
          rcases hmax kv.1 kv.2 hkv'.1 hkv'.2 hk with h | h
          · exact h
          · exfalso
            rw [List.pairwise_append] at hsorted
            rcases List.mem_append.mp hkm with hin | hin
            · have h2 := hsorted.2.2 _ hin kv List.mem_cons_self
              have := strLt_trans _ _ _ h h2
              rw [strLt_irrefl] at this; cases this
            · rcases List.mem_cons.mp hin with heq | hin
              · rw [← heq] at h; simp only at h
                rw [strLt_irrefl] at h; cases h
              · exact hpost _ hin hc
        have h1 := lookup_of_mem kv.1 kv.2 l hn hkv'.1
        have h2 := lookup_of_mem k v l hn hkv
        rw [hkeq, h2] at h1
        exact h1.symm
    · have hnone : ∀ x ∈ m, Path.clean x.1 ≠ c := by
        intro x hx hxc
        have hx' := (hmem x).mp hx
        have := hall x.1 x.2 hx'.1 hxc
        exact hx'.2 (by rw [this]; exact hcl)
      rw [foldl_none c m _ hnone]
      exact lookup_of_mem c v _ hck (List.mem_filter.mpr ⟨hcv, by simpa using hcl⟩)

theorem step_nodup (acc : List (Str × HashObj)) (kv : Str × HashObj) (hn : (acc.map Prod.fst).Nodup) :
    ((step acc kv).map Prod.fst).Nodup := by
  simp only [step, List.map_append, List.map_cons, List.map_nil]
  rw [List.nodup_append]
  refine ⟨filter_keys_nodup _ acc hn, by simp, ?_⟩
  intro a ha b hb
  rw [List.mem_singleton] at hb; subst hb
  obtain ⟨x, hx, rfl⟩ := List.mem_map.mp ha
  simpa using (List.mem_filter.mp hx).2

theorem foldl_step_nodup (m acc : List (Str × HashObj)) (hn : (acc.map Prod.fst).Nodup) :
    ((m.foldl step acc).map Prod.fst).Nodup := by
  induction m generalizing acc with
  | nil => exact hn
  | cons x xs ih => exact ih _ (step_nodup acc x hn)

theorem foldl_step_perm (m acc₁ acc₂ : List (Str × HashObj)) (hp : acc₁.Perm acc₂) :
    (m.foldl step acc₁).Perm (m.foldl step acc₂) := by
  induction m generalizing acc₁ acc₂ with
  | nil => exact hp
  | cons x xs ih => exact ih _ _ ((hp.filter _).append_right _)

/-- the cleaned map is a map again (no two entries with one name) and all its names are clean
    PROVIDED path.Clean is idempotent on the names involved (hypothesis `hidem`; Path.clean_idem or a
    similar lemma may already exist in InToto/Proofs — use it to discharge the hypothesis if so and
    drop the hypothesis) -/
theorem cleanArts_keys_nodup (l : List (Str × HashObj)) (hn : (l.map Prod.fst).Nodup) :
    ∀ r, cleanArts (some l) = some r → (r.map Prod.fst).Nodup := by
  intro r hr
  rw [cleanArts_some] at hr
  cases hr
  exact foldl_step_nodup _ _ (filter_keys_nodup _ l hn)

/-- ORDER INDEPENDENCE: two listings of one Go map (permutations of each other, keys pairwise distinct)
    are cleaned to two listings of one map: permutations of each other, every lookup equal -/
theorem cleanArts_perm (l₁ l₂ : List (Str × HashObj)) (hp : l₁.Perm l₂) (hn : (l₁.map Prod.fst).Nodup) :
    ∃ r₁ r₂, cleanArts (some l₁) = some r₁ ∧ cleanArts (some l₂) = some r₂ ∧ r₁.Perm r₂ ∧
      ∀ k, lookup k r₁ = lookup k r₂ := by
  refine ⟨_, _, cleanArts_some l₁, cleanArts_some l₂, ?_, ?_⟩
  · rw [sortBy_key_perm _ _ (hp.filter _) (filter_keys_nodup _ l₁ hn)]
    exact foldl_step_perm _ _ _ (hp.filter _)
  · intro k
    rw [sortBy_key_perm _ _ (hp.filter _) (filter_keys_nodup _ l₁ hn), lookup_foldl, lookup_foldl,
      lookup_perm k _ _ (hp.filter _) (filter_keys_nodup _ l₁ hn)]

theorem cleanArts_get_perm (l₁ l₂ : List (Str × HashObj)) (hp : l₁.Perm l₂) (hn : (l₁.map Prod.fst).Nodup) (k : Str) :
    artsGet (cleanArts (some l₁)) k = artsGet (cleanArts (some l₂)) k ∧
    artsHas (cleanArts (some l₁)) k = artsHas (cleanArts (some l₂)) k := by
  obtain ⟨r₁, r₂, h1, h2, _, hl⟩ := cleanArts_perm l₁ l₂ hp hn
  rw [h1, h2]
  simp only [artsGet, artsHas, hl k, and_self]

/-- non-vacuity / the witness of finding F20: `./d/a` (hash x), `./d/a/.` (hash x), `d/a/` (hash y):
    whatever the order of the listing, `d/a` holds y afterwards (`d/a/` sorts last). -/
example :
    let x : HashObj := some [("sha256".toList, "".toList)]
    let y : HashObj := some [("sha256".toList, "1".toList)]
    cleanArts (some [("./d/a".toList, x), ("./d/a/.".toList, x), ("d/a/".toList, y)]) = some [("d/a".toList, y)] ∧
    cleanArts (some [("d/a/".toList, y), ("./d/a/.".toList, x), ("./d/a".toList, x)]) = some [("d/a".toList, y)] := by
  decide

/-- every name in the cleaned map is a fixed point of `path.Clean`, PROVIDED `path.Clean` is idempotent on
    the names of the map (no idempotence lemma for the model `Path.clean` exists in the project yet) -/
theorem cleanArts_keys_clean (l : List (Str × HashObj))
    (hidem : ∀ x ∈ l, Path.clean (Path.clean x.1) = Path.clean x.1) :
    ∀ r, cleanArts (some l) = some r → ∀ x ∈ r, Path.clean x.1 = x.1 := by
  intro r hr
  rw [cleanArts_some] at hr
  cases hr
  have hm : ∀ x ∈ sortBy keyLt (l.filter fun kv => Path.clean kv.1 ≠ kv.1),
      Path.clean (Path.clean x.1) = Path.clean x.1 :=
    fun x hx => hidem x ((mem_moved l x).mp hx).1
  have hc : ∀ x ∈ l.filter fun kv => Path.clean kv.1 = kv.1, Path.clean x.1 = x.1 :=
    fun x hx => by simpa using (List.mem_filter.mp hx).2
  generalize sortBy keyLt (l.filter fun kv => Path.clean kv.1 ≠ kv.1) = m at hm
  generalize (l.filter fun kv => Path.clean kv.1 = kv.1) = acc at hc
  induction m generalizing acc with
  | nil => exact hc
  | cons y ys ih =>
    refine ih (fun x hx => hm x (List.mem_cons_of_mem _ hx)) _ ?_
    intro x hx
    rcases List.mem_append.mp hx with hx | hx
    · exact hc x (List.mem_filter.mp hx).1
    · rw [List.mem_singleton] at hx; subst hx
      exact hm y List.mem_cons_self

/-! ### a single MATCH rule does not see the order of the listings -/

/-- two listings of one Go map (`nil` stays `nil`) -/
def ArtsPermEq (a b : Arts) : Prop :=
  match a, b with
  | none, none => True
  | some a, some b => a.Perm b ∧ (a.map Prod.fst).Nodup
  | _, _ => False

def LinkPermEq (a b : Option LinkArts) : Prop :=
  match a, b with
  | none, none => True
  | some a, some b => ArtsPermEq a.materials b.materials ∧ ArtsPermEq a.products b.products
  | _, _ => False

/-- two link contexts that agree except that artifact maps are permuted listings of each other -/
def CtxPermEq : Ctx → Ctx → Prop
  | [], [] => True
  | e₁ :: t₁, e₂ :: t₂ => e₁.1 = e₂.1 ∧ LinkPermEq e₁.2 e₂.2 ∧ CtxPermEq t₁ t₂
  | _, _ => False

theorem ArtsPermEq.get {a b : Arts} (h : ArtsPermEq a b) (k : Str) :
    artsGet a k = artsGet b k ∧ artsHas a k = artsHas b k := by
  cases a <;> cases b <;> simp only [ArtsPermEq] at h
  · simp [artsGet, artsHas]
  · simp only [artsGet, artsHas, lookup_perm k _ _ h.1 h.2, and_self]

theorem ArtsPermEq.clean {a b : Arts} (h : ArtsPermEq a b) : ArtsPermEq (cleanArts a) (cleanArts b) := by
  cases a <;> cases b <;> simp only [ArtsPermEq] at h
  · simp [cleanArts, ArtsPermEq]
  · rename_i l₁ l₂
    rw [cleanArts_some, cleanArts_some]
    simp only [ArtsPermEq]
    refine ⟨?_, foldl_step_nodup _ _ (filter_keys_nodup _ l₁ h.2)⟩
    rw [sortBy_key_perm _ _ (h.1.filter _) (filter_keys_nodup _ l₁ h.2)]
    exact foldl_step_perm _ _ _ (h.1.filter _)

theorem LinkPermEq.sel {l₁ l₂ : LinkArts} (h : LinkPermEq (some l₁) (some l₂)) (t : ArtType) :
    ArtsPermEq (sel t l₁) (sel t l₂) := by
  cases t
  · exact h.1
  · exact h.2

theorem CtxPermEq.lookup {c₁ c₂ : Ctx} (h : CtxPermEq c₁ c₂) (name : Str) :
    LinkPermEq ((InToto.lookup name c₁).getD none) ((InToto.lookup name c₂).getD none) ∧
    (InToto.lookup name c₁).isSome = (InToto.lookup name c₂).isSome := by
  induction c₁ generalizing c₂ with
  | nil => cases c₂ <;> simp_all [CtxPermEq, InToto.lookup, LinkPermEq]
  | cons e₁ t₁ ih =>
    cases c₂ with
    | nil => simp [CtxPermEq] at h
    | cons e₂ t₂ =>
      obtain ⟨k₁, v₁⟩ := e₁
      obtain ⟨k₂, v₂⟩ := e₂
      simp only [CtxPermEq] at h
      obtain ⟨hk, hl, ht⟩ := h
      subst hk
      simp only [InToto.lookup]
      split
      · exact ⟨hl, rfl⟩
      · exact ih ht

theorem CtxPermEq.arts {c₁ c₂ : Ctx} (h : CtxPermEq c₁ c₂) (name : Str) (t : ArtType) :
    ArtsPermEq (ctxArts c₁ name t) (ctxArts c₂ name t) := by
  have := (h.lookup name)
  unfold ctxArts
  cases h1 : InToto.lookup name c₁ <;> cases h2 : InToto.lookup name c₂ <;> rw [h1, h2] at this
  · simp [ArtsPermEq]
  · simp at this
  · simp at this
  · rename_i o₁ o₂
    cases o₁ <;> cases o₂
    · simp [ArtsPermEq]
    · simp [LinkPermEq] at this
    · simp [LinkPermEq] at this
    · exact LinkPermEq.sel (by simpa using this.1) t

/-- a single MATCH rule does not see the order: the consumed artifacts are the same list (the cleaned
    copies of the source and of the destination map are listings of the same maps), and the contexts
    it hands back (the contexts as they came: the rule does not write to the links) are again listings
    of the same maps -/
theorem verifyMatchRule_perm (glob : Str → Str → Bool)
    (pattern srcPrefix dstPrefix : Str) (dstType : ArtType) (dstName : Str)
    (srcName : Str) (srcType : ArtType) (queue : List Str) (ctx₁ ctx₂ : Ctx) (h : CtxPermEq ctx₁ ctx₂) :
    (verifyMatchRule glob pattern srcPrefix dstPrefix dstType dstName srcName srcType queue ctx₁).1 =
      (verifyMatchRule glob pattern srcPrefix dstPrefix dstType dstName srcName srcType queue ctx₂).1 ∧
    CtxPermEq
      (verifyMatchRule glob pattern srcPrefix dstPrefix dstType dstName srcName srcType queue ctx₁).2
      (verifyMatchRule glob pattern srcPrefix dstPrefix dstType dstName srcName srcType queue ctx₂).2 := by
  have hl := h.lookup dstName
  unfold verifyMatchRule
  cases h1 : InToto.lookup dstName ctx₁ <;> cases h2 : InToto.lookup dstName ctx₂ <;> rw [h1, h2] at hl
  · exact ⟨rfl, h⟩
  · simp at hl
  · simp at hl
  · rename_i o₁ o₂
    cases o₁ <;> cases o₂
    · exact ⟨rfl, h⟩
    · simp [LinkPermEq] at hl
    · simp [LinkPermEq] at hl
    · refine ⟨?_, h⟩
      simp only
      apply List.filter_congr
      intro x _
      have hs := (h.arts srcName srcType).clean.get x
      have hd := (h.arts dstName dstType).clean.get
        (Path.clean (join2 (normPrefix dstPrefix) (trimPrefix x (normPrefix srcPrefix))))
      rw [hs.1, hd.1, hd.2]

/-- the verdict-relevant lookups after the rule: every `m[k]` / `_, ok := m[k]` on every artifact map of the
    two resulting contexts agree -/
theorem verifyMatchRule_perm_lookups (glob : Str → Str → Bool)
    (pattern srcPrefix dstPrefix : Str) (dstType : ArtType) (dstName : Str)
    (srcName : Str) (srcType : ArtType) (queue : List Str) (ctx₁ ctx₂ : Ctx) (h : CtxPermEq ctx₁ ctx₂)
    (name : Str) (t : ArtType) (k : Str) :
    artsGet (ctxArts (verifyMatchRule glob pattern srcPrefix dstPrefix dstType dstName srcName srcType queue ctx₁).2 name t) k =
      artsGet (ctxArts (verifyMatchRule glob pattern srcPrefix dstPrefix dstType dstName srcName srcType queue ctx₂).2 name t) k ∧
    artsHas (ctxArts (verifyMatchRule glob pattern srcPrefix dstPrefix dstType dstName srcName srcType queue ctx₁).2 name t) k =
      artsHas (ctxArts (verifyMatchRule glob pattern srcPrefix dstPrefix dstType dstName srcName srcType queue ctx₂).2 name t) k :=
  ((verifyMatchRule_perm glob pattern srcPrefix dstPrefix dstType dstName srcName srcType queue ctx₁ ctx₂ h).2.arts
    name t).get k

/-- non-vacuity of `CtxPermEq`: the two listings of the F20 witness map are related, so the MATCH rule
    theorem applies to them -/
example :
    let x : HashObj := some [("sha256".toList, "".toList)]
    let y : HashObj := some [("sha256".toList, "1".toList)]
    CtxPermEq
      [("s".toList, some ⟨some [("./d/a".toList, x), ("d/a/".toList, y)], none⟩)]
      [("s".toList, some ⟨some [("d/a/".toList, y), ("./d/a".toList, x)], none⟩)] := by
  intro x y
  exact ⟨rfl, ⟨⟨List.Perm.swap _ _ _, by decide⟩, trivial⟩, trivial⟩

end InToto.CleanOrder
