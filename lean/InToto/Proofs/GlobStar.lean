import InToto.Proofs.GlobChunk
import InToto.Proofs.GlobMatches

/-!
`prefixMatch` versus `Matches`, `dropStars` / `scanChunk`, and the star loop.
-/
namespace InToto.GlobProofs
open InToto.Glob InToto.GlobSpec

/-! ### prefixMatch -/

theorem prefixMatch_suffix : ∀ (its : List Item) (s t : Bytes), prefixMatch its s = some t →
    t <:+ s ∧ t.length + its.length = s.length := by
  intro its
  induction its with
  | nil =>
    intro s t h
    simp only [prefixMatch, Option.some.injEq] at h
    subst h
    exact ⟨List.suffix_refl _, by simp⟩
  | cons it its ih =>
    intro s t h
    cases s with
    | nil => simp [prefixMatch] at h
    | cons x xs =>
      simp only [prefixMatch] at h
      split at h
      · obtain ⟨h1, h2⟩ := ih xs t h
        exact ⟨h1.trans (List.suffix_cons x xs), by simp only [List.length_cons]; omega⟩
      · cases h

theorem Ascii.suffix {t s : Bytes} (h : t <:+ s) (hs : Ascii s) : Ascii t := by
  obtain ⟨w, rfl⟩ := h
  exact hs.append_right

theorem prefixMatch_mono {its : List Item} {n' n2 t' t2 : Bytes} (hsuf : n' <:+ n2)
    (h1 : prefixMatch its n' = some t') (h2 : prefixMatch its n2 = some t2) : t' <:+ t2 := by
  obtain ⟨a1, b1⟩ := prefixMatch_suffix _ _ _ h1
  obtain ⟨a2, b2⟩ := prefixMatch_suffix _ _ _ h2
  have hl := hsuf.length_le
  exact List.suffix_of_suffix_length_le (a1.trans hsuf) a2 (by omega)

/-- Soundness of `prefixMatch`. -/
theorem matches_of_prefixMatch : ∀ (its : List Item), (∀ it ∈ its, it ≠ Item.star) →
    ∀ (s t : Bytes) (is' : List Item), prefixMatch its s = some t → Matches is' (nat t) →
      Matches (its ++ is') (nat s) := by
  intro its
  induction its with
  | nil =>
    intro _ s t is' h hm
    simp only [prefixMatch, Option.some.injEq] at h
    subst h
    simpa using hm
  | cons it its ih =>
    intro hns s t is' h hm
    cases s with
    | nil => simp [prefixMatch] at h
    | cons x xs =>
      simp only [prefixMatch] at h
      split at h
      · rename_i hit
        have := ih (fun i hi => hns i (by simp [hi])) xs t is' h hm
        exact Matches.one it _ x.toNat _ (hns it (by simp)) hit this
      · cases h

/-- Completeness of `prefixMatch`. -/
theorem prefixMatch_of_matches : ∀ (its : List Item), (∀ it ∈ its, it ≠ Item.star) →
    ∀ (s : Bytes) (is' : List Item), Matches (its ++ is') (nat s) →
      ∃ t, prefixMatch its s = some t ∧ Matches is' (nat t) := by
  intro its
  induction its with
  | nil =>
    intro _ s is' hm
    exact ⟨s, rfl, by simpa using hm⟩
  | cons it its ih =>
    intro hns s is' hm
    rw [List.cons_append] at hm
    rcases matches_cons_inv hm with ⟨h1, _⟩ | ⟨_, c, t, h2, h3, h4⟩
    · exact absurd h1 (hns it (by simp))
    · cases s with
      | nil => simp [nat] at h2
      | cons x xs =>
        simp only [nat, List.map_cons, List.cons.injEq] at h2
        obtain ⟨rfl, rfl⟩ := h2
        obtain ⟨t', ht', hm'⟩ := ih (fun i hi => hns i (by simp [hi])) xs is' h4
        exact ⟨t', by simp [prefixMatch, h3, ht'], hm'⟩

theorem nat_eq_nil {s : Bytes} (h : nat s = []) : s = [] := by
  simpa [nat] using h

theorem nat_eq_append {n : Bytes} {s t : List Nat} (h : nat n = s ++ t) :
    ∃ pre n', n = pre ++ n' ∧ nat pre = s ∧ nat n' = t := by
  obtain ⟨l1, l2, h1, h2, h3⟩ := List.map_eq_append_iff.1 h
  exact ⟨l1, l2, h1, h2, h3⟩

theorem matches_suffix {is'' : List Item} {t' t : Bytes} (hsuf : t' <:+ t)
    (hm : Matches (Item.star :: is'') (nat t')) : Matches (Item.star :: is'') (nat t) := by
  obtain ⟨w, rfl⟩ := hsuf
  have := matches_star_prepend is'' (nat w) (nat t') hm
  simpa [nat] using this

/-! ### dropStars and scanChunk -/

theorem dropStars_spec : ∀ (p : Bytes) (b : Bool), ∃ k p',
    p = List.replicate k Glob.cStar ++ p' ∧ dropStars p b = (b || decide (0 < k), p') ∧
      (∀ tl, p' ≠ Glob.cStar :: tl) := by
  intro p
  induction p with
  | nil => intro b; exact ⟨0, [], rfl, by simp [dropStars], by simp⟩
  | cons c rest ih =>
    intro b
    by_cases hc : c = Glob.cStar
    · subst hc
      obtain ⟨k, p', h1, h2, h3⟩ := ih true
      refine ⟨k + 1, p', by rw [h1]; simp [List.replicate_succ], ?_, h3⟩
      simp [dropStars, h2]
    · refine ⟨0, c :: rest, rfl, by simp [dropStars, hc], ?_⟩
      intro tl h
      exact hc (List.cons.inj h).1

theorem scanChunk_spec (p : Bytes) : ∃ k p',
    p = List.replicate k Glob.cStar ++ p' ∧ (∀ tl, p' ≠ Glob.cStar :: tl) ∧
      scanChunk p = (decide (0 < k), p'.take (scan p' false), p'.drop (scan p' false)) := by
  obtain ⟨k, p', h1, h2, h3⟩ := dropStars_spec p false
  refine ⟨k, p', h1, h3, ?_⟩
  simp only [scanChunk, h2, Bool.false_or]
  rw [scanLoop_eq_scan _ _ _ _ (Nat.le_succ _)]
  simp

theorem parsePat_stars (k : Nat) (p' : Bytes) :
    parsePat (nat (List.replicate k Glob.cStar ++ p')) =
      (parsePat (nat p')).map (List.replicate k Item.star ++ ·) := by
  induction k with
  | zero => simp
  | succ k ih =>
    have : nat (List.replicate (k + 1) Glob.cStar ++ p') =
        GlobSpec.cStar :: nat (List.replicate k Glob.cStar ++ p') := by
      simp [nat, List.replicate_succ, Glob.cStar, GlobSpec.cStar]
    rw [this, parsePat_star, ih]
    cases parsePat (nat p') <;> simp [List.replicate_succ]

/-! ### the star loop -/

theorem skipWidth_ascii (x : UInt8) (xs : Bytes) (hx : x < 128) :
    skipWidth false (x :: xs) = 1 := by
  simp [skipWidth, decodeRune_ascii x xs hx]

theorem starLoop_cons {chunk : Bytes} {its : List Item} (hch : Chunk false chunk its)
    (last : Bool) (F : Nat) (x : UInt8) (xs : Bytes) (hn : Ascii (x :: xs)) :
    starLoop false chunk last (F + 1) (x :: xs) =
      match prefixMatch its xs with
      | some t => if last && !t.isEmpty then starLoop false chunk last F xs else .found t
      | none => starLoop false chunk last F xs := by
  rw [starLoop]
  simp only [skipWidth_ascii x xs hn.cons.1, List.drop_succ_cons, List.drop_zero]
  rw [matchChunk_chunk hch xs hn.cons.2]
  simp only [chunkRes, Bool.false_eq_true, ↓reduceIte]
  cases prefixMatch its xs <;> rfl

/-- Whatever the star loop finds is a match of the chunk at some suffix of the name. -/
theorem starLoop_sound {chunk : Bytes} {its : List Item} (hch : Chunk false chunk its)
    (last : Bool) : ∀ (F : Nat) (n : Bytes), Ascii n → ∀ t,
      starLoop false chunk last F n = .found t →
      ∃ n', n' <:+ n ∧ prefixMatch its n' = some t := by
  intro F
  induction F with
  | zero => intro n _ t h; simp [starLoop] at h
  | succ F ih =>
    intro n hn t h
    cases n with
    | nil => simp [starLoop] at h
    | cons x xs =>
      rw [starLoop_cons hch last F x xs hn] at h
      have hrec : ∀ t, starLoop false chunk last F xs = .found t →
          ∃ n', n' <:+ x :: xs ∧ prefixMatch its n' = some t := by
        intro t ht
        obtain ⟨n', h1, h2⟩ := ih xs hn.cons.2 t ht
        exact ⟨n', h1.trans (List.suffix_cons x xs), h2⟩
      split at h
      · rename_i t0 hpm
        split at h
        · exact hrec t h
        · simp only [StarRes.found.injEq] at h
          subst h
          exact ⟨xs, List.suffix_cons x xs, hpm⟩
      · exact hrec t h

/-- Non-final chunk: if the chunk matches at some later position, the loop finds the leftmost
    such position (which is at least as far left). -/
theorem starLoop_complete_first {chunk : Bytes} {its : List Item} (hch : Chunk false chunk its)
    (n' t' : Bytes) (hpm : prefixMatch its n' = some t') :
    ∀ (pre : Bytes), pre ≠ [] → ∀ (F : Nat), Ascii (pre ++ n') → (pre ++ n').length ≤ F →
      ∃ n2 t2, n2 <:+ pre ++ n' ∧ n' <:+ n2 ∧ prefixMatch its n2 = some t2 ∧
        starLoop false chunk false F (pre ++ n') = .found t2 := by
  intro pre
  induction pre with
  | nil => intro h; exact absurd rfl h
  | cons x pre ih =>
    intro _ F hn hF
    cases F with
    | zero => simp at hF
    | succ F =>
      rw [List.cons_append] at hn ⊢
      rw [starLoop_cons hch false F x _ hn]
      cases hp2 : prefixMatch its (pre ++ n') with
      | some t2 =>
        exact ⟨pre ++ n', t2, List.suffix_cons _ _, List.suffix_append _ _, hp2, by simp⟩
      | none =>
        have hpre : pre ≠ [] := by
          intro h; subst h
          simp only [List.nil_append] at hp2
          rw [hpm] at hp2; cases hp2
        obtain ⟨n2, t2, h1, h2, h3, h4⟩ := ih hpre F hn.cons.2
          (by simp only [List.cons_append, List.length_cons] at hF; omega)
        exact ⟨n2, t2, h1.trans (List.suffix_cons _ _), h2, h3, h4⟩

/-- Final chunk: if the chunk matches exactly at the end of the name, the loop finds that. -/
theorem starLoop_complete_last {chunk : Bytes} {its : List Item} (hch : Chunk false chunk its)
    (n' : Bytes) (hpm : prefixMatch its n' = some []) :
    ∀ (pre : Bytes), pre ≠ [] → ∀ (F : Nat), Ascii (pre ++ n') → (pre ++ n').length ≤ F →
      starLoop false chunk true F (pre ++ n') = .found [] := by
  intro pre
  induction pre with
  | nil => intro h; exact absurd rfl h
  | cons x pre ih =>
    intro _ F hn hF
    cases F with
    | zero => simp at hF
    | succ F =>
      rw [List.cons_append] at hn ⊢
      rw [starLoop_cons hch true F x _ hn]
      by_cases hpre : pre = []
      · subst hpre
        simp [hpm]
      · have hrec := ih hpre F hn.cons.2
          (by simp only [List.cons_append, List.length_cons] at hF; omega)
        cases hp2 : prefixMatch its (pre ++ n') with
        | some t2 =>
          cases t2 with
          | nil => simp
          | cons a t2 => simpa using hrec
        | none => simpa using hrec

end InToto.GlobProofs
