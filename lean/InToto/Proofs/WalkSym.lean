import InToto.Model.Record
import InToto.Proofs.Record
import InToto.Proofs.Walk

/-!
C13 (the walk in the presence of symbolic links): nothing is invented and nothing is missed.

`FileAtS cfg p node q d` — walking `node`, located at path `p`, REACHES a file at path `q` with
digest table `d`:
* a regular file is reached at its own path;
* a symbolic link to a file is reached at the LINK's path (with the target's digests);
* the children of a directory are reached below it (also below an excluded directory: the walk
  does not prune);
* the files behind a symbolic link to a directory are reached — re-rooted at the link's path —
  exactly when the follow switch is set and the link itself is not excluded.

Soundness: every entry of a successful walk was there before or is the entry of a reached,
non-excluded file (key = its path with the first matching strip prefix removed, value = its digests
for the requested algorithms).  Completeness: every reached, non-excluded file has an entry under
that key, and nothing recorded before is lost.  Uniqueness: on success all names are pairwise
distinct — two reached files that would be recorded under one name (a file link, or a file behind a
followed directory link, colliding with anything recorded earlier) are the error "not-unique",
never a silent overwrite (repair of finding F19: the names of links are stripped and checked like
those of regular files).
-/

namespace InToto.WalkProofs
open InToto InToto.Record

inductive FileAtS (cfg : Cfg) : Str → Node → Str → List (Str × Str) → Prop where
  | file (p : Str) (d : List (Str × Str)) : FileAtS cfg p (.file d) p d
  | symFile (p : Str) (d : List (Str × Str)) : FileAtS cfg p (.symFile d) p d
  | child (p n : Str) (c : Node) (ch : List (Str × Node)) (q : Str) (d : List (Str × Str)) :
      (n, c) ∈ ch → FileAtS cfg (joinPath p n) c q d → FileAtS cfg p (.dir ch) q d
  | behind (p n : Str) (c : Node) (ch : List (Str × Node)) (q : Str) (d : List (Str × Str)) :
      cfg.followDirs = true → cfg.ignored p = false →
      (n, c) ∈ ch → FileAtS cfg (joinPath p n) c q d → FileAtS cfg p (.symDir ch) q d

/-! ### helper lemmas (association lists) -/

theorem lookup_append_keep {β} (l1 l2 : List (Str × β)) (k : Str) (h : (lookup k l1).isSome = true) :
    (lookup k (l1 ++ l2)).isSome = true := by
  induction l1 with
  | nil => simp [lookup] at h
  | cons x xs ih =>
    obtain ⟨k0, v0⟩ := x
    simp only [List.cons_append, lookup] at h ⊢
    split
    · rfl
    · rename_i hne; rw [if_neg hne] at h; exact ih h

theorem lookup_append_self {β} (l1 : List (Str × β)) (k : Str) (v : β) :
    (lookup k (l1 ++ [(k, v)])).isSome = true := by
  induction l1 with
  | nil => simp [lookup]
  | cons x xs ih =>
    obtain ⟨k0, v0⟩ := x
    simp only [List.cons_append, lookup]
    split
    · rfl
    · exact ih

theorem lookup_append_right {β} (l1 l2 : List (Str × β)) (k : Str) (h : (lookup k l2).isSome = true) :
    (lookup k (l1 ++ l2)).isSome = true := by
  induction l1 with
  | nil => exact h
  | cons x xs ih =>
    obtain ⟨k0, v0⟩ := x
    simp only [List.cons_append, lookup]
    split
    · rfl
    · exact ih

/-! ### the combined statements (induction on the fuel) -/

/-- the entry `e` is the record of a reached, non-excluded file below `node` (located at `p`) -/
def RecS (cfg : Cfg) (p : Str) (node : Node) (e : Str × List (Str × Str)) : Prop :=
  ∃ q d hh, FileAtS cfg p node q d ∧ cfg.ignored q = false ∧
      hashObj d cfg.algs = some hh ∧ e = (stripPath cfg.lstrip q, hh)

theorem keeps_aux (cfg : Cfg) (fuel : Nat) :
    (∀ path node acc m, visit cfg fuel path node acc = .ok m →
      ∀ k, (lookup k acc).isSome = true → (lookup k m).isSome = true) ∧
    (∀ dir l acc m, visitChildren cfg fuel dir l acc = .ok m →
      ∀ k, (lookup k acc).isSome = true → (lookup k m).isSome = true) := by
  induction fuel with
  | zero =>
    constructor
    · intro path node acc m h; simp [visit] at h
    · intro dir l acc m h; simp [visitChildren] at h
  | succ fuel ih =>
    obtain ⟨ihv, ihc⟩ := ih
    constructor
    · intro path node acc m h k hk
      cases node with
      | file d =>
        simp only [visit] at h
        split at h
        · simp only [Outcome.ok.injEq] at h; subst h; exact hk
        · split at h
          · cases h
          · split at h
            · cases h
            · simp only [Outcome.ok.injEq] at h; subst h
              exact lookup_append_keep _ _ _ hk
      | dir ch =>
        have hc : visitChildren cfg fuel path (sortChildren ch) acc = .ok m := by
          simp only [visit] at h
          split at h <;> exact h
        exact ihc _ _ _ _ hc k hk
      | symFile d =>
        simp only [visit] at h
        split at h
        · simp only [Outcome.ok.injEq] at h; subst h; exact hk
        · split at h
          · cases h
          · split at h
            · cases h
            · simp only [Outcome.ok.injEq] at h; subst h
              exact lookup_append_keep _ _ _ hk
      | symDir ch =>
        simp only [visit] at h
        split at h
        · simp only [Outcome.ok.injEq] at h; subst h; exact hk
        · split at h
          · simp only [Outcome.ok.injEq] at h; subst h; exact hk
          · split at h
            · rw [(mergeUnique_ok _ _ _ h).1]
              exact lookup_append_keep _ _ _ hk
            · rename_i hne
              exact absurd h (hne m)
      | dangling =>
        simp only [visit] at h
        split at h
        · simp only [Outcome.ok.injEq] at h; subst h; exact hk
        · cases h
    · intro dir l acc m h k hk
      cases l with
      | nil =>
        simp only [visitChildren, Outcome.ok.injEq] at h
        subst h; exact hk
      | cons hd rest =>
        obtain ⟨n, c⟩ := hd
        simp only [visitChildren] at h
        split at h
        · rename_i acc1 hv
          exact ihc _ _ _ _ h k (ihv _ _ _ _ hv k hk)
        · rename_i hne
          exact absurd h (hne m)

theorem sym_aux (cfg : Cfg) (fuel : Nat) :
    (∀ path node acc m, visit cfg fuel path node acc = .ok m →
      (∀ e, e ∈ m → e ∈ acc ∨ RecS cfg path node e) ∧
      (∀ q d, FileAtS cfg path node q d → cfg.ignored q = false →
        (lookup (stripPath cfg.lstrip q) m).isSome = true)) ∧
    (∀ dir l acc m, visitChildren cfg fuel dir l acc = .ok m →
      (∀ e, e ∈ m → e ∈ acc ∨ ∃ n c, (n, c) ∈ l ∧ RecS cfg (joinPath dir n) c e) ∧
      (∀ n c q d, (n, c) ∈ l → FileAtS cfg (joinPath dir n) c q d → cfg.ignored q = false →
        (lookup (stripPath cfg.lstrip q) m).isSome = true)) := by
  induction fuel with
  | zero =>
    constructor
    · intro path node acc m h; simp [visit] at h
    · intro dir l acc m h; simp [visitChildren] at h
  | succ fuel ih =>
    obtain ⟨ihv, ihc⟩ := ih
    constructor
    · intro path node acc m h
      cases node with
      | file d =>
        simp only [visit] at h
        split at h
        · rename_i hig
          simp only [Outcome.ok.injEq] at h; subst h
          refine ⟨fun e he => Or.inl he, ?_⟩
          intro q d' hf hi
          cases hf
          rw [hig] at hi; cases hi
        · rename_i hig
          split at h
          · cases h
          · rename_i hh hho
            split at h
            · cases h
            · simp only [Outcome.ok.injEq] at h; subst h
              constructor
              · intro e he
                rcases List.mem_append.1 he with he | he
                · exact Or.inl he
                · simp only [List.mem_singleton] at he
                  exact Or.inr ⟨path, d, hh, FileAtS.file path d, by simpa using hig, hho, he⟩
              · intro q d' hf hi
                cases hf
                exact lookup_append_self _ _ _
      | dir ch =>
        have hc : visitChildren cfg fuel path (sortChildren ch) acc = .ok m := by
          simp only [visit] at h
          split at h <;> exact h
        obtain ⟨h1, h2⟩ := ihc _ _ _ _ hc
        constructor
        · intro e he
          rcases h1 e he with he | ⟨n, c, hm, q, d, hh, hf, r1, r2, r3⟩
          · exact Or.inl he
          · exact Or.inr ⟨q, d, hh, FileAtS.child path n c ch q d ((mem_sortChildren _ _).1 hm) hf, r1, r2, r3⟩
        · intro q d hf hi
          cases hf with
          | child _ n c _ _ _ hm hf' =>
            exact h2 n c q d ((mem_sortChildren _ _).2 hm) hf' hi
      | symFile d =>
        simp only [visit] at h
        split at h
        · rename_i hig
          simp only [Outcome.ok.injEq] at h; subst h
          refine ⟨fun e he => Or.inl he, ?_⟩
          intro q d' hf hi
          cases hf
          rw [hig] at hi; cases hi
        · rename_i hig
          split at h
          · cases h
          · rename_i hh hho
            split at h
            · cases h
            · simp only [Outcome.ok.injEq] at h; subst h
              constructor
              · intro e he
                rcases List.mem_append.1 he with he | he
                · exact Or.inl he
                · simp only [List.mem_singleton] at he
                  exact Or.inr ⟨path, d, hh, FileAtS.symFile path d, by simpa using hig, hho, he⟩
              · intro q d' hf hi
                cases hf
                exact lookup_append_self _ _ _
      | symDir ch =>
        simp only [visit] at h
        split at h
        · rename_i hig
          simp only [Outcome.ok.injEq] at h; subst h
          refine ⟨fun e he => Or.inl he, ?_⟩
          intro q d' hf hi
          cases hf with
          | behind _ n c _ _ _ hfd hip hm hf' =>
            rw [hig] at hip; cases hip
        · rename_i hig
          split at h
          · rename_i hnf
            simp only [Outcome.ok.injEq] at h; subst h
            refine ⟨fun e he => Or.inl he, ?_⟩
            intro q d' hf hi
            cases hf with
            | behind _ n c _ _ _ hfd hip hm hf' =>
              rw [hfd] at hnf; simp at hnf
          · rename_i hnf
            have hfd : cfg.followDirs = true := by
              cases hfd : cfg.followDirs with
              | true => rfl
              | false => rw [hfd] at hnf; simp at hnf
            have hip : cfg.ignored path = false := by simpa using hig
            split at h
            · rename_i sub hsub
              have hm := (mergeUnique_ok _ _ _ h).1
              subst hm
              obtain ⟨h1, h2⟩ := ihc _ _ _ _ hsub
              constructor
              · intro e he
                rcases List.mem_append.1 he with he | he
                · exact Or.inl he
                · rcases h1 e he with he | ⟨n, c, hm, q, d, hh, hf, r1, r2, r3⟩
                  · simp at he
                  · exact Or.inr ⟨q, d, hh,
                      FileAtS.behind path n c ch q d hfd hip ((mem_sortChildren _ _).1 hm) hf, r1, r2, r3⟩
              · intro q d hf hi
                cases hf with
                | behind _ n c _ _ _ _ _ hm hf' =>
                  exact lookup_append_right _ _ _ (h2 n c q d ((mem_sortChildren _ _).2 hm) hf' hi)
            · rename_i hne
              exact absurd h (hne m)
      | dangling =>
        simp only [visit] at h
        split at h
        · simp only [Outcome.ok.injEq] at h; subst h
          refine ⟨fun e he => Or.inl he, ?_⟩
          intro q d' hf hi
          cases hf
        · cases h
    · intro dir l acc m h
      cases l with
      | nil =>
        simp only [visitChildren, Outcome.ok.injEq] at h
        subst h
        refine ⟨fun e he => Or.inl he, ?_⟩
        intro n c q d hm
        simp at hm
      | cons hd rest =>
        obtain ⟨n, c⟩ := hd
        simp only [visitChildren] at h
        split at h
        · rename_i acc1 hv
          obtain ⟨a1, a2⟩ := ihv _ _ _ _ hv
          obtain ⟨b1, b2⟩ := ihc _ _ _ _ h
          constructor
          · intro e he
            rcases b1 e he with he | ⟨n', c', hm, hr⟩
            · rcases a1 e he with he | hr
              · exact Or.inl he
              · exact Or.inr ⟨n, c, List.mem_cons_self, hr⟩
            · exact Or.inr ⟨n', c', List.mem_cons_of_mem _ hm, hr⟩
          · intro n' c' q d hm hf hi
            rcases List.mem_cons.1 hm with hm | hm
            · cases hm
              exact (keeps_aux cfg fuel).2 _ _ _ _ h _ (a2 q d hf hi)
            · exact b2 n' c' q d hm hf hi
        · rename_i hne
          exact absurd h (hne m)

/-! ### exactness and uniqueness of names (every tree, symbolic links included) -/

def RecSL (cfg : Cfg) (dir : Str) (l : List (Str × Node)) (e : Str × List (Str × Str)) : Prop :=
  ∃ n c, (n, c) ∈ l ∧ RecS cfg (joinPath dir n) c e

theorem recS_dir (cfg : Cfg) (p : Str) (ch : List (Str × Node)) (e) :
    RecS cfg p (.dir ch) e ↔ RecSL cfg p ch e := by
  constructor
  · rintro ⟨q, d, hh, hf, h1, h2, h3⟩
    cases hf with
    | child _ n c _ _ _ hm hf' => exact ⟨n, c, hm, q, d, hh, hf', h1, h2, h3⟩
  · rintro ⟨n, c, hm, q, d, hh, hf, h1, h2, h3⟩
    exact ⟨q, d, hh, FileAtS.child p n c ch q d hm hf, h1, h2, h3⟩

theorem recS_symDir (cfg : Cfg) (p : Str) (ch : List (Str × Node)) (e)
    (hfd : cfg.followDirs = true) (hip : cfg.ignored p = false) :
    RecS cfg p (.symDir ch) e ↔ RecSL cfg p ch e := by
  constructor
  · rintro ⟨q, d, hh, hf, h1, h2, h3⟩
    cases hf with
    | behind _ n c _ _ _ _ _ hm hf' => exact ⟨n, c, hm, q, d, hh, hf', h1, h2, h3⟩
  · rintro ⟨n, c, hm, q, d, hh, hf, h1, h2, h3⟩
    exact ⟨q, d, hh, FileAtS.behind p n c ch q d hfd hip hm hf, h1, h2, h3⟩

theorem recSL_sort (cfg : Cfg) (p : Str) (ch : List (Str × Node)) (e) :
    RecSL cfg p (sortChildren ch) e ↔ RecSL cfg p ch e := by
  simp only [RecSL, mem_sortChildren]

theorem recSL_nil (cfg : Cfg) (p : Str) (e) : ¬ RecSL cfg p [] e := by
  rintro ⟨n, c, hm, _⟩; simp at hm

theorem recSL_cons (cfg : Cfg) (p n : Str) (c : Node) (rest : List (Str × Node)) (e) :
    RecSL cfg p ((n, c) :: rest) e ↔ RecS cfg (joinPath p n) c e ∨ RecSL cfg p rest e := by
  constructor
  · rintro ⟨n', c', hm, hr⟩
    rcases List.mem_cons.1 hm with h | h
    · cases h; exact Or.inl hr
    · exact Or.inr ⟨n', c', h, hr⟩
  · rintro (hr | ⟨n', c', hm, hr⟩)
    · exact ⟨n, c, List.mem_cons_self, hr⟩
    · exact ⟨n', c', List.mem_cons_of_mem _ hm, hr⟩

/-- what a successful walk of ANY tree returns: the accumulator, extended by exactly the records of
    the reached, non-excluded files, names pairwise distinct (`Spec`: see `Walk.lean`) -/
theorem specS_aux (cfg : Cfg) (fuel : Nat) :
    (∀ path node acc m, visit cfg fuel path node acc = .ok m → Spec acc m (RecS cfg path node)) ∧
    (∀ dir l acc m, visitChildren cfg fuel dir l acc = .ok m → Spec acc m (RecSL cfg dir l)) := by
  induction fuel with
  | zero =>
    constructor
    · intro path node acc m h; simp [visit] at h
    · intro dir l acc m h; simp [visitChildren] at h
  | succ fuel ih =>
    obtain ⟨ihv, ihc⟩ := ih
    -- a leaf that records one entry (regular file or file link)
    have leaf : ∀ (path : Str) (node : Node) (d : List (Str × Str)) (acc m : ArtMap),
        FileAtS cfg path node path d → (∀ q d', FileAtS cfg path node q d' → q = path ∧ d' = d) →
        (if cfg.ignored path = true then Outcome.ok acc else
          match hashObj d cfg.algs with
          | none => Outcome.err "unsupported-hash"
          | some h => if (lookup (stripPath cfg.lstrip path) acc).isSome = true then Outcome.err "not-unique"
                      else Outcome.ok (acc ++ [(stripPath cfg.lstrip path, h)])) = Outcome.ok m →
        Spec acc m (RecS cfg path node) := by
      intro path node d acc m hfa huniq h
      split at h
      · rename_i hig
        simp only [Outcome.ok.injEq] at h
        subst h
        refine ⟨[], by simp, ?_, by simp⟩
        intro e
        simp only [List.not_mem_nil, false_iff]
        rintro ⟨q, d', hh, hf, h1, _⟩
        obtain ⟨rfl, _⟩ := huniq q d' hf
        rw [hig] at h1; cases h1
      · rename_i hig
        split at h
        · cases h
        · rename_i hh hho
          split at h
          · cases h
          · rename_i hl
            simp only [Outcome.ok.injEq] at h
            subst h
            refine ⟨[(stripPath cfg.lstrip path, hh)], rfl, ?_, fun hn => nodup_append_fresh acc _ hh hl hn⟩
            intro e
            simp only [List.mem_singleton]
            constructor
            · intro he
              exact ⟨path, d, hh, hfa, by simpa using hig, hho, he⟩
            · rintro ⟨q, d', hh', hf, h1, h2, h3⟩
              obtain ⟨rfl, rfl⟩ := huniq q d' hf
              rw [hho] at h2; cases h2
              exact h3
    constructor
    · intro path node acc m h
      cases node with
      | file d =>
        refine leaf path _ d acc m (FileAtS.file path d) ?_ ?_
        · intro q d' hf; cases hf; exact ⟨rfl, rfl⟩
        · simp only [visit] at h; exact h
      | symFile d =>
        refine leaf path _ d acc m (FileAtS.symFile path d) ?_ ?_
        · intro q d' hf; cases hf; exact ⟨rfl, rfl⟩
        · simp only [visit] at h; exact h
      | dir ch =>
        have hc : visitChildren cfg fuel path (sortChildren ch) acc = .ok m := by
          simp only [visit] at h
          split at h <;> exact h
        obtain ⟨ext, h1, h2, h3⟩ := ihc path (sortChildren ch) acc m hc
        refine ⟨ext, h1, ?_, h3⟩
        intro e
        rw [h2, recSL_sort, recS_dir]
      | symDir ch =>
        have none_behind : (cfg.ignored path = true ∨ cfg.followDirs = false) →
            Spec acc acc (RecS cfg path (.symDir ch)) := by
          intro hoff
          refine ⟨[], by simp, ?_, by simp⟩
          intro e
          simp only [List.not_mem_nil, false_iff]
          rintro ⟨q, d', hh, hf, _⟩
          cases hf with
          | behind _ n c _ _ _ hfd hip hm hf' =>
            rcases hoff with h | h
            · rw [h] at hip; cases hip
            · rw [h] at hfd; cases hfd
        simp only [visit] at h
        split at h
        · rename_i hig
          simp only [Outcome.ok.injEq] at h; subst h
          exact none_behind (Or.inl hig)
        · rename_i hig
          split at h
          · rename_i hnf
            simp only [Outcome.ok.injEq] at h; subst h
            exact none_behind (Or.inr (by simpa using hnf))
          · rename_i hnf
            have hfd : cfg.followDirs = true := by simpa using hnf
            have hip : cfg.ignored path = false := by simpa using hig
            split at h
            · rename_i sub hsub
              obtain ⟨hm, hnd⟩ := mergeUnique_ok _ _ _ h
              obtain ⟨ext, h1, h2, _⟩ := ihc _ _ _ _ hsub
              simp only [List.nil_append] at h1
              subst h1
              refine ⟨sub, hm, ?_, hnd⟩
              intro e
              rw [h2, recSL_sort, recS_symDir cfg path ch e hfd hip]
            · rename_i hne
              exact absurd h (hne m)
      | dangling =>
        simp only [visit] at h
        split at h
        · simp only [Outcome.ok.injEq] at h; subst h
          refine ⟨[], by simp, ?_, by simp⟩
          intro e
          simp only [List.not_mem_nil, false_iff]
          rintro ⟨q, d', hh, hf, _⟩
          cases hf
        · cases h
    · intro dir l acc m h
      cases l with
      | nil =>
        simp only [visitChildren, Outcome.ok.injEq] at h
        subst h
        exact ⟨[], by simp, fun e => by simp [recSL_nil], by simp⟩
      | cons hd rest =>
        obtain ⟨n, c⟩ := hd
        simp only [visitChildren] at h
        split at h
        · rename_i acc1 hv
          obtain ⟨ext1, a1, a2, a3⟩ := ihv _ _ _ _ hv
          obtain ⟨ext2, b1, b2, b3⟩ := ihc _ _ _ _ h
          refine ⟨ext1 ++ ext2, by rw [b1, a1, List.append_assoc], ?_, fun hn => b3 (a3 hn)⟩
          intro e
          rw [List.mem_append, a2, b2, recSL_cons]
        · rename_i hne
          exact absurd h (hne m)

/-- on a symlink-free tree `FileAtS` is `FileAt` -/
theorem fileAtS_of_symlinkFree (cfg : Cfg) (p : Str) (node : Node) (q : Str) (d : List (Str × Str))
    (hsf : symlinkFree node = true) : FileAtS cfg p node q d ↔ FileAt p node q d := by
  constructor
  · intro h
    induction h with
    | file p d => exact FileAt.here p d
    | symFile p d => simp [symlinkFree] at hsf
    | child p n c ch q d hm hf ih =>
      have hg : symlinkFree.go ch = true := by simpa [symlinkFree] using hsf
      exact FileAt.child p n c ch q d hm (ih ((go_iff ch).1 hg (n, c) hm))
    | behind p n c ch q d _ _ hm hf ih => simp [symlinkFree] at hsf
  · intro h
    induction h with
    | here p d => exact FileAtS.file p d
    | child p n c ch q d hm hf ih =>
      have hg : symlinkFree.go ch = true := by simpa [symlinkFree] using hsf
      exact FileAtS.child p n c ch q d hm (ih ((go_iff ch).1 hg (n, c) hm))

/-- C13 (nothing invented, symbolic links included) -/
theorem visit_sym_sound (cfg : Cfg) (fuel : Nat) (path : Str) (node : Node)
    (acc m : ArtMap) (h : visit cfg fuel path node acc = .ok m) (e : Str × List (Str × Str)) (he : e ∈ m) :
    e ∈ acc ∨ ∃ q d hh, FileAtS cfg path node q d ∧ cfg.ignored q = false ∧
      hashObj d cfg.algs = some hh ∧ e = (stripPath cfg.lstrip q, hh) := by
  exact ((sym_aux cfg fuel).1 path node acc m h).1 e he

/-- C13 (nothing missed, symbolic links included): every reached, non-excluded file has an entry -/
theorem visit_sym_complete (cfg : Cfg) (fuel : Nat) (path : Str) (node : Node)
    (acc m : ArtMap) (h : visit cfg fuel path node acc = .ok m) (q : Str) (d : List (Str × Str))
    (hf : FileAtS cfg path node q d) (hi : cfg.ignored q = false) :
    (lookup (stripPath cfg.lstrip q) m).isSome = true := by
  exact ((sym_aux cfg fuel).1 path node acc m h).2 q d hf hi

/-- … and no key recorded before is lost -/
theorem visit_sym_keeps_keys (cfg : Cfg) (fuel : Nat) (path : Str) (node : Node)
    (acc m : ArtMap) (h : visit cfg fuel path node acc = .ok m) (k : Str)
    (hk : (lookup k acc).isSome = true) : (lookup k m).isSome = true := by
  exact (keeps_aux cfg fuel).1 path node acc m h k hk

/-- C13 (the follow switch): without it, a walk that succeeds records nothing for what lies behind
    a symbolic link to a directory — the result is the accumulator -/
theorem symDir_not_followed (cfg : Cfg) (hf : cfg.followDirs = false) (fuel : Nat) (path : Str)
    (ch : List (Str × Node)) (acc m : ArtMap) (h : visit cfg fuel path (.symDir ch) acc = .ok m) : m = acc := by
  cases fuel with
  | zero => simp [visit] at h
  | succ fuel =>
    simp only [visit, hf] at h
    split at h
    · simp only [Outcome.ok.injEq] at h; exact h.symm
    · simp only [Bool.not_false, if_true, Outcome.ok.injEq] at h; exact h.symm

/-- the same for a list of root paths -/
theorem recordArtifacts_sym_sound (cfg : Cfg) (roots : List (Str × Option Node))
    (acc m : ArtMap) (h : recordArtifacts cfg roots acc = .ok m) (e : Str × List (Str × Str)) (he : e ∈ m) :
    e ∈ acc ∨ ∃ p n q d hh, (p, some n) ∈ roots ∧ FileAtS cfg p n q d ∧ cfg.ignored q = false ∧
      hashObj d cfg.algs = some hh ∧ e = (stripPath cfg.lstrip q, hh) := by
  induction roots generalizing acc with
  | nil =>
    simp only [recordArtifacts, Outcome.ok.injEq] at h
    subst h
    exact Or.inl he
  | cons r rest ih =>
    obtain ⟨p, on⟩ := r
    cases on with
    | none => simp [recordArtifacts] at h
    | some n =>
      simp only [recordArtifacts] at h
      split at h
      · rename_i acc1 hv
        rcases ih acc1 h with he1 | ⟨p', n', q, d, hh, hm, hr⟩
        · rcases visit_sym_sound cfg _ p n acc acc1 hv e he1 with he0 | ⟨q, d, hh, hr⟩
          · exact Or.inl he0
          · exact Or.inr ⟨p, n, q, d, hh, List.mem_cons_self, hr⟩
        · exact Or.inr ⟨p', n', q, d, hh, List.mem_cons_of_mem _ hm, hr⟩
      · rename_i hne
        exact absurd h (hne m)

theorem recordArtifacts_sym_complete (cfg : Cfg) (roots : List (Str × Option Node))
    (acc m : ArtMap) (h : recordArtifacts cfg roots acc = .ok m) (p : Str) (n : Node) (hr : (p, some n) ∈ roots)
    (q : Str) (d : List (Str × Str)) (hf : FileAtS cfg p n q d) (hi : cfg.ignored q = false) :
    (lookup (stripPath cfg.lstrip q) m).isSome = true := by
  have keeps : ∀ (roots : List (Str × Option Node)) (acc m : ArtMap),
      recordArtifacts cfg roots acc = .ok m → ∀ k, (lookup k acc).isSome = true → (lookup k m).isSome = true := by
    intro roots
    induction roots with
    | nil =>
      intro acc m h k hk
      simp only [recordArtifacts, Outcome.ok.injEq] at h
      subst h; exact hk
    | cons r rest ih =>
      intro acc m h k hk
      obtain ⟨p, on⟩ := r
      cases on with
      | none => simp [recordArtifacts] at h
      | some n =>
        simp only [recordArtifacts] at h
        split at h
        · rename_i acc1 hv
          exact ih acc1 m h k (visit_sym_keeps_keys cfg _ p n acc acc1 hv k hk)
        · rename_i hne
          exact absurd h (hne m)
  induction roots generalizing acc with
  | nil => simp at hr
  | cons r rest ih =>
    obtain ⟨p', on⟩ := r
    cases on with
    | none => simp [recordArtifacts] at h
    | some n' =>
      simp only [recordArtifacts] at h
      split at h
      · rename_i acc1 hv
        rcases List.mem_cons.1 hr with hr | hr
        · cases hr
          exact keeps rest acc1 m h _ (visit_sym_complete cfg _ p n acc acc1 hv q d hf hi)
        · exact ih acc1 h hr
      · rename_i hne
        exact absurd h (hne m)

/-! ### one entry per name, exactly the reached files -/

/-- C13 (one entry per name, symbolic links included): the names of the result are pairwise distinct
    if they were before — a link (or a file behind a followed directory link) whose stripped name is
    already taken is an error, never a silent overwrite -/
theorem visit_sym_nodup (cfg : Cfg) (fuel : Nat) (path : Str) (node : Node) (acc m : ArtMap)
    (h : visit cfg fuel path node acc = .ok m) (hn : (acc.map Prod.fst).Nodup) :
    (m.map Prod.fst).Nodup := by
  obtain ⟨ext, _, _, h3⟩ := (specS_aux cfg fuel).1 path node acc m h
  exact h3 hn

/-- what was recorded before is kept, in place: the result extends the accumulator -/
theorem visit_sym_prefix (cfg : Cfg) (fuel : Nat) (path : Str) (node : Node) (acc m : ArtMap)
    (h : visit cfg fuel path node acc = .ok m) : ∃ ext, m = acc ++ ext := by
  obtain ⟨ext, h1, _, _⟩ := (specS_aux cfg fuel).1 path node acc m h
  exact ⟨ext, h1⟩

/-- C13 (exactly the reached files): with the uniqueness check on every recorded name the result of
    a successful walk of ANY tree is exact — an entry is in the result iff it was there before or it
    is the entry of a reached, non-excluded file -/
theorem visit_sym_mem (cfg : Cfg) (fuel : Nat) (path : Str) (node : Node) (acc m : ArtMap)
    (h : visit cfg fuel path node acc = .ok m) (e : Str × List (Str × Str)) :
    e ∈ m ↔ e ∈ acc ∨ ∃ q d hh, FileAtS cfg path node q d ∧ cfg.ignored q = false ∧
      hashObj d cfg.algs = some hh ∧ e = (stripPath cfg.lstrip q, hh) := by
  obtain ⟨ext, h1, h2, _⟩ := (specS_aux cfg fuel).1 path node acc m h
  subst h1
  rw [List.mem_append, h2]
  rfl

/-- the same for a list of root paths (any initial accumulator with pairwise distinct names) -/
theorem recordArtifacts_sym_nodup (cfg : Cfg) (roots : List (Str × Option Node)) (acc m : ArtMap)
    (h : recordArtifacts cfg roots acc = .ok m) (hn : (acc.map Prod.fst).Nodup) :
    (m.map Prod.fst).Nodup := by
  induction roots generalizing acc with
  | nil =>
    simp only [recordArtifacts, Outcome.ok.injEq] at h
    subst h
    exact hn
  | cons r rest ih =>
    obtain ⟨p, on⟩ := r
    cases on with
    | none => simp [recordArtifacts] at h
    | some n =>
      simp only [recordArtifacts] at h
      split at h
      · rename_i acc1 hv
        exact ih acc1 h (visit_sym_nodup cfg _ p n acc acc1 hv hn)
      · rename_i hne
        exact absurd h (hne m)

/-- C13 (one entry per name): whatever the trees look like — file links, directory links followed or
    not — the names recorded by a successful `RecordArtifacts` are pairwise distinct -/
theorem names_unique_with_symlinks (cfg : Cfg) (roots : List (Str × Option Node)) (r : ArtMap)
    (h : recordArtifacts cfg roots [] = .ok r) : (r.map Prod.fst).Nodup :=
  recordArtifacts_sym_nodup cfg roots [] r h (by simp)

/-- exactly the reached files of all roots -/
theorem recordArtifacts_sym_mem (cfg : Cfg) (roots : List (Str × Option Node)) (acc m : ArtMap)
    (h : recordArtifacts cfg roots acc = .ok m) (e : Str × List (Str × Str)) :
    e ∈ m ↔ e ∈ acc ∨ ∃ p n q d hh, (p, some n) ∈ roots ∧ FileAtS cfg p n q d ∧ cfg.ignored q = false ∧
      hashObj d cfg.algs = some hh ∧ e = (stripPath cfg.lstrip q, hh) := by
  induction roots generalizing acc with
  | nil =>
    simp only [recordArtifacts, Outcome.ok.injEq] at h
    subst h
    constructor
    · exact Or.inl
    · rintro (he | ⟨p, n, q, d, hh, hm, _⟩)
      · exact he
      · simp at hm
  | cons r rest ih =>
    obtain ⟨p, on⟩ := r
    cases on with
    | none => simp [recordArtifacts] at h
    | some n =>
      simp only [recordArtifacts] at h
      split at h
      · rename_i acc1 hv
        rw [ih acc1 h, visit_sym_mem cfg _ p n acc acc1 hv e]
        constructor
        · rintro ((he | ⟨q, d, hh, hf, h1, h2, h3⟩) | ⟨p', n', q, d, hh, hm, hr⟩)
          · exact Or.inl he
          · exact Or.inr ⟨p, n, q, d, hh, List.mem_cons_self, hf, h1, h2, h3⟩
          · exact Or.inr ⟨p', n', q, d, hh, List.mem_cons_of_mem _ hm, hr⟩
        · rintro (he | ⟨p', n', q, d, hh, hm, hr⟩)
          · exact Or.inl (Or.inl he)
          · rcases List.mem_cons.1 hm with hm | hm
            · cases hm
              exact Or.inl (Or.inr ⟨q, d, hh, hr⟩)
            · exact Or.inr ⟨p', n', q, d, hh, hm, hr⟩
      · rename_i hne
        exact absurd h (hne m)

/-- a file link whose stripped name is already taken: the uniqueness error -/
theorem colliding_symlink_name_is_an_error (cfg : Cfg) (fuel : Nat) (path : Str) (d : List (Str × Str))
    (acc : ArtMap) (h v : List (Str × Str)) (hi : cfg.ignored path = false)
    (hh : hashObj d cfg.algs = some h) (hc : lookup (stripPath cfg.lstrip path) acc = some v) :
    visit cfg (fuel + 1) path (.symFile d) acc = .err "not-unique" :=
  InToto.RecordProofs.symFile_collision_is_error cfg fuel path d acc h hi hh (by rw [hc]; rfl)

/-- a file behind a followed directory link whose stripped name is already taken: the same error -/
theorem mergeUnique_collision (acc sub : ArtMap) (k : Str) (hs : (lookup k sub).isSome = true)
    (ha : (lookup k acc).isSome = true) : mergeUnique acc sub = .err "not-unique" := by
  induction sub generalizing acc with
  | nil => simp [lookup] at hs
  | cons x xs ih =>
    obtain ⟨k0, v0⟩ := x
    simp only [mergeUnique]
    split
    · rfl
    · rename_i hl
      simp only [lookup] at hs
      split at hs
      · rename_i heq; subst heq; exact absurd ha hl
      · exact ih _ hs (lookup_append_keep _ _ _ ha)

/-- non-vacuity: a tree with a file link and a followed directory link -/
example : ∃ m, recordArtifacts { algs := [lit% "sha256"], ignored := fun _ => false, lstrip := [], followDirs := true }
    [(lit% "r", some (.dir [(lit% "l", .symFile [(lit% "sha256", lit% "aa")]),
                             (lit% "d", .symDir [(lit% "f", .file [(lit% "sha256", lit% "bb")])])]))] [] = .ok m ∧
    m.length = 2 := by
  refine ⟨_, rfl, rfl⟩

end InToto.WalkProofs
