import InToto.Model.Record
import InToto.Proofs.Record
import InToto.Proofs.Walk

/-!
C13 (the walk in the presence of symbolic links): nothing is invented and nothing is missed.

`FileAtS cfg p node q d` — walking `node`, located at path `p`, REACHES a file at path `q` with
digest table `d`:
* a regular file is reached at its own path;
* a symbolic link to a file is reached at the LINK's path (with the target's digests);
* the children of a directory are reached below it (also below an excluded directory: the walk
  does not prune);
* the files behind a symbolic link to a directory are reached — re-rooted at the link's path —
  exactly when the follow switch is set and the link itself is not excluded.

Soundness: every entry of a successful walk was there before or is the entry of a reached,
non-excluded file (key = its path with the first matching strip prefix removed, value = its digests
for the requested algorithms).  Completeness: every reached, non-excluded file has an entry under
that key, and nothing recorded before is lost.  (With symbolic links two reached files may share a
key; then the later one replaces the earlier — which is why this is stated as soundness +
completeness and not, as for symlink-free trees in `Walk.lean`, as an exact multiset.)
The recorded finding F19 (`noStripSymlink`) is excluded by hypothesis.
-/

namespace InToto.WalkProofs
open InToto InToto.Record

inductive FileAtS (cfg : Cfg) : Str → Node → Str → List (Str × Str) → Prop where
  | file (p : Str) (d : List (Str × Str)) : FileAtS cfg p (.file d) p d
  | symFile (p : Str) (d : List (Str × Str)) : FileAtS cfg p (.symFile d) p d
  | child (p n : Str) (c : Node) (ch : List (Str × Node)) (q : Str) (d : List (Str × Str)) :
      (n, c) ∈ ch → FileAtS cfg (joinPath p n) c q d → FileAtS cfg p (.dir ch) q d
  | behind (p n : Str) (c : Node) (ch : List (Str × Node)) (q : Str) (d : List (Str × Str)) :
      cfg.followDirs = true → cfg.ignored p = false →
      (n, c) ∈ ch → FileAtS cfg (joinPath p n) c q d → FileAtS cfg p (.symDir ch) q d

/-! ### helper lemmas (association lists) -/

theorem mem_amSet (m : ArtMap) (k : Str) (v : List (Str × Str)) (e : Str × List (Str × Str))
    (h : e ∈ amSet m k v) : e ∈ m ∨ e = (k, v) := by
  induction m with
  | nil => simp only [amSet, List.mem_singleton] at h; exact Or.inr h
  | cons x xs ih =>
    obtain ⟨k', v'⟩ := x
    simp only [amSet] at h
    split at h
    · rcases List.mem_cons.1 h with h | h
      · exact Or.inr h
      · exact Or.inl (List.mem_cons_of_mem _ h)
    · rcases List.mem_cons.1 h with h | h
      · exact Or.inl (h ▸ List.mem_cons_self)
      · rcases ih h with h | h
        · exact Or.inl (List.mem_cons_of_mem _ h)
        · exact Or.inr h

theorem lookup_amSet_self (m : ArtMap) (k : Str) (v : List (Str × Str)) :
    (lookup k (amSet m k v)).isSome = true := by
  induction m with
  | nil => simp [amSet, lookup]
  | cons x xs ih =>
    obtain ⟨k', v'⟩ := x
    simp only [amSet]
    split
    · simp [lookup]
    · rename_i hne
      simp only [lookup, if_neg hne]
      exact ih

theorem lookup_amSet_keep (m : ArtMap) (k : Str) (v : List (Str × Str)) (k' : Str)
    (h : (lookup k' m).isSome = true) : (lookup k' (amSet m k v)).isSome = true := by
  induction m with
  | nil => simp [lookup] at h
  | cons x xs ih =>
    obtain ⟨k0, v0⟩ := x
    simp only [amSet]
    split
    · rename_i heq
      subst heq
      simp only [lookup] at h ⊢
      split
      · rfl
      · rename_i hne; rw [if_neg hne] at h; exact h
    · simp only [lookup] at h ⊢
      split
      · rfl
      · rename_i hne; rw [if_neg hne] at h; exact ih h

theorem mem_foldl_amSet (sub acc : ArtMap) (e : Str × List (Str × Str))
    (h : e ∈ sub.foldl (fun a e => amSet a e.1 e.2) acc) : e ∈ acc ∨ e ∈ sub := by
  induction sub generalizing acc with
  | nil => exact Or.inl h
  | cons x xs ih =>
    simp only [List.foldl_cons] at h
    rcases ih _ h with h | h
    · rcases mem_amSet _ _ _ _ h with h | h
      · exact Or.inl h
      · exact Or.inr (h ▸ List.mem_cons_self)
    · exact Or.inr (List.mem_cons_of_mem _ h)

theorem lookup_foldl_keep (sub acc : ArtMap) (k : Str) (h : (lookup k acc).isSome = true) :
    (lookup k (sub.foldl (fun a e => amSet a e.1 e.2) acc)).isSome = true := by
  induction sub generalizing acc with
  | nil => exact h
  | cons x xs ih =>
    simp only [List.foldl_cons]
    exact ih _ (lookup_amSet_keep _ _ _ _ h)

theorem lookup_foldl_sub (sub acc : ArtMap) (k : Str) (h : (lookup k sub).isSome = true) :
    (lookup k (sub.foldl (fun a e => amSet a e.1 e.2) acc)).isSome = true := by
  induction sub generalizing acc with
  | nil => simp [lookup] at h
  | cons x xs ih =>
    obtain ⟨k0, v0⟩ := x
    simp only [List.foldl_cons]
    simp only [lookup] at h
    split at h
    · rename_i heq
      subst heq
      exact lookup_foldl_keep _ _ _ (lookup_amSet_self _ _ _)
    · exact ih _ h

theorem lookup_append_keep {β} (l1 l2 : List (Str × β)) (k : Str) (h : (lookup k l1).isSome = true) :
    (lookup k (l1 ++ l2)).isSome = true := by
  induction l1 with
  | nil => simp [lookup] at h
  | cons x xs ih =>
    obtain ⟨k0, v0⟩ := x
    simp only [List.cons_append, lookup] at h ⊢
    split
    · rfl
    · rename_i hne; rw [if_neg hne] at h; exact ih h

theorem lookup_append_self {β} (l1 : List (Str × β)) (k : Str) (v : β) :
    (lookup k (l1 ++ [(k, v)])).isSome = true := by
  induction l1 with
  | nil => simp [lookup]
  | cons x xs ih =>
    obtain ⟨k0, v0⟩ := x
    simp only [List.cons_append, lookup]
    split
    · rfl
    · exact ih

/-! ### the combined statements (induction on the fuel) -/

/-- the entry `e` is the record of a reached, non-excluded file below `node` (located at `p`) -/
def RecS (cfg : Cfg) (p : Str) (node : Node) (e : Str × List (Str × Str)) : Prop :=
  ∃ q d hh, FileAtS cfg p node q d ∧ cfg.ignored q = false ∧
      hashObj d cfg.algs = some hh ∧ e = (stripPath cfg.lstrip q, hh)

theorem keeps_aux (cfg : Cfg) (fuel : Nat) :
    (∀ path node acc m, visit cfg fuel path node acc = .ok m →
      ∀ k, (lookup k acc).isSome = true → (lookup k m).isSome = true) ∧
    (∀ dir l acc m, visitChildren cfg fuel dir l acc = .ok m →
      ∀ k, (lookup k acc).isSome = true → (lookup k m).isSome = true) := by
  induction fuel with
  | zero =>
    constructor
    · intro path node acc m h; simp [visit] at h
    · intro dir l acc m h; simp [visitChildren] at h
  | succ fuel ih =>
    obtain ⟨ihv, ihc⟩ := ih
    constructor
    · intro path node acc m h k hk
      cases node with
      | file d =>
        simp only [visit] at h
        split at h
        · simp only [Outcome.ok.injEq] at h; subst h; exact hk
        · split at h
          · cases h
          · split at h
            · cases h
            · simp only [Outcome.ok.injEq] at h; subst h
              exact lookup_append_keep _ _ _ hk
      | dir ch =>
        have hc : visitChildren cfg fuel path (sortChildren ch) acc = .ok m := by
          simp only [visit] at h
          split at h <;> exact h
        exact ihc _ _ _ _ hc k hk
      | symFile d =>
        simp only [visit] at h
        split at h
        · simp only [Outcome.ok.injEq] at h; subst h; exact hk
        · split at h
          · cases h
          · simp only [Outcome.ok.injEq] at h; subst h
            exact lookup_amSet_keep _ _ _ _ hk
      | symDir ch =>
        simp only [visit] at h
        split at h
        · simp only [Outcome.ok.injEq] at h; subst h; exact hk
        · split at h
          · simp only [Outcome.ok.injEq] at h; subst h; exact hk
          · split at h
            · simp only [Outcome.ok.injEq] at h; subst h
              exact lookup_foldl_keep _ _ _ hk
            · rename_i hne
              exact absurd h (hne m)
      | dangling =>
        simp only [visit] at h
        split at h
        · simp only [Outcome.ok.injEq] at h; subst h; exact hk
        · cases h
    · intro dir l acc m h k hk
      cases l with
      | nil =>
        simp only [visitChildren, Outcome.ok.injEq] at h
        subst h; exact hk
      | cons hd rest =>
        obtain ⟨n, c⟩ := hd
        simp only [visitChildren] at h
        split at h
        · rename_i acc1 hv
          exact ihc _ _ _ _ h k (ihv _ _ _ _ hv k hk)
        · rename_i hne
          exact absurd h (hne m)

theorem sym_aux (cfg : Cfg) (hq : cfg.noStripSymlink = false) (fuel : Nat) :
    (∀ path node acc m, visit cfg fuel path node acc = .ok m →
      (∀ e, e ∈ m → e ∈ acc ∨ RecS cfg path node e) ∧
      (∀ q d, FileAtS cfg path node q d → cfg.ignored q = false →
        (lookup (stripPath cfg.lstrip q) m).isSome = true)) ∧
    (∀ dir l acc m, visitChildren cfg fuel dir l acc = .ok m →
      (∀ e, e ∈ m → e ∈ acc ∨ ∃ n c, (n, c) ∈ l ∧ RecS cfg (joinPath dir n) c e) ∧
      (∀ n c q d, (n, c) ∈ l → FileAtS cfg (joinPath dir n) c q d → cfg.ignored q = false →
        (lookup (stripPath cfg.lstrip q) m).isSome = true)) := by
  induction fuel with
  | zero =>
    constructor
    · intro path node acc m h; simp [visit] at h
    · intro dir l acc m h; simp [visitChildren] at h
  | succ fuel ih =>
    obtain ⟨ihv, ihc⟩ := ih
    constructor
    · intro path node acc m h
      cases node with
      | file d =>
        simp only [visit] at h
        split at h
        · rename_i hig
          simp only [Outcome.ok.injEq] at h; subst h
          refine ⟨fun e he => Or.inl he, ?_⟩
          intro q d' hf hi
          cases hf
          rw [hig] at hi; cases hi
        · rename_i hig
          split at h
          · cases h
          · rename_i hh hho
            split at h
            · cases h
            · simp only [Outcome.ok.injEq] at h; subst h
              constructor
              · intro e he
                rcases List.mem_append.1 he with he | he
                · exact Or.inl he
                · simp only [List.mem_singleton] at he
                  exact Or.inr ⟨path, d, hh, FileAtS.file path d, by simpa using hig, hho, he⟩
              · intro q d' hf hi
                cases hf
                exact lookup_append_self _ _ _
      | dir ch =>
        have hc : visitChildren cfg fuel path (sortChildren ch) acc = .ok m := by
          simp only [visit] at h
          split at h <;> exact h
        obtain ⟨h1, h2⟩ := ihc _ _ _ _ hc
        constructor
        · intro e he
          rcases h1 e he with he | ⟨n, c, hm, q, d, hh, hf, r1, r2, r3⟩
          · exact Or.inl he
          · exact Or.inr ⟨q, d, hh, FileAtS.child path n c ch q d ((mem_sortChildren _ _).1 hm) hf, r1, r2, r3⟩
        · intro q d hf hi
          cases hf with
          | child _ n c _ _ _ hm hf' =>
            exact h2 n c q d ((mem_sortChildren _ _).2 hm) hf' hi
      | symFile d =>
        simp only [visit] at h
        split at h
        · rename_i hig
          simp only [Outcome.ok.injEq] at h; subst h
          refine ⟨fun e he => Or.inl he, ?_⟩
          intro q d' hf hi
          cases hf
          rw [hig] at hi; cases hi
        · rename_i hig
          split at h
          · cases h
          · rename_i hh hho
            simp only [Outcome.ok.injEq, hq, Bool.false_eq_true, if_false] at h; subst h
            constructor
            · intro e he
              rcases mem_amSet _ _ _ _ he with he | he
              · exact Or.inl he
              · exact Or.inr ⟨path, d, hh, FileAtS.symFile path d, by simpa using hig, hho, he⟩
            · intro q d' hf hi
              cases hf
              exact lookup_amSet_self _ _ _
      | symDir ch =>
        simp only [visit] at h
        split at h
        · rename_i hig
          simp only [Outcome.ok.injEq] at h; subst h
          refine ⟨fun e he => Or.inl he, ?_⟩
          intro q d' hf hi
          cases hf with
          | behind _ n c _ _ _ hfd hip hm hf' =>
            rw [hig] at hip; cases hip
        · rename_i hig
          split at h
          · rename_i hnf
            simp only [Outcome.ok.injEq] at h; subst h
            refine ⟨fun e he => Or.inl he, ?_⟩
            intro q d' hf hi
            cases hf with
            | behind _ n c _ _ _ hfd hip hm hf' =>
              rw [hfd] at hnf; simp at hnf
          · rename_i hnf
            have hfd : cfg.followDirs = true := by
              cases hfd : cfg.followDirs with
              | true => rfl
              | false => rw [hfd] at hnf; simp at hnf
            have hip : cfg.ignored path = false := by simpa using hig
            split at h
            · rename_i sub hsub
              simp only [Outcome.ok.injEq] at h; subst h
              obtain ⟨h1, h2⟩ := ihc _ _ _ _ hsub
              constructor
              · intro e he
                rcases mem_foldl_amSet _ _ _ he with he | he
                · exact Or.inl he
                · rcases h1 e he with he | ⟨n, c, hm, q, d, hh, hf, r1, r2, r3⟩
                  · simp at he
                  · exact Or.inr ⟨q, d, hh,
                      FileAtS.behind path n c ch q d hfd hip ((mem_sortChildren _ _).1 hm) hf, r1, r2, r3⟩
              · intro q d hf hi
                cases hf with
                | behind _ n c _ _ _ _ _ hm hf' =>
                  exact lookup_foldl_sub _ _ _ (h2 n c q d ((mem_sortChildren _ _).2 hm) hf' hi)
            · rename_i hne
              exact absurd h (hne m)
      | dangling =>
        simp only [visit] at h
        split at h
        · simp only [Outcome.ok.injEq] at h; subst h
          refine ⟨fun e he => Or.inl he, ?_⟩
          intro q d' hf hi
          cases hf
        · cases h
    · intro dir l acc m h
      cases l with
      | nil =>
        simp only [visitChildren, Outcome.ok.injEq] at h
        subst h
        refine ⟨fun e he => Or.inl he, ?_⟩
        intro n c q d hm
        simp at hm
      | cons hd rest =>
        obtain ⟨n, c⟩ := hd
        simp only [visitChildren] at h
        split at h
        · rename_i acc1 hv
          obtain ⟨a1, a2⟩ := ihv _ _ _ _ hv
          obtain ⟨b1, b2⟩ := ihc _ _ _ _ h
          constructor
          · intro e he
            rcases b1 e he with he | ⟨n', c', hm, hr⟩
            · rcases a1 e he with he | hr
              · exact Or.inl he
              · exact Or.inr ⟨n, c, List.mem_cons_self, hr⟩
            · exact Or.inr ⟨n', c', List.mem_cons_of_mem _ hm, hr⟩
          · intro n' c' q d hm hf hi
            rcases List.mem_cons.1 hm with hm | hm
            · cases hm
              exact (keeps_aux cfg fuel).2 _ _ _ _ h _ (a2 q d hf hi)
            · exact b2 n' c' q d hm hf hi
        · rename_i hne
          exact absurd h (hne m)

/-- on a symlink-free tree `FileAtS` is `FileAt` -/
theorem fileAtS_of_symlinkFree (cfg : Cfg) (p : Str) (node : Node) (q : Str) (d : List (Str × Str))
    (hsf : symlinkFree node = true) : FileAtS cfg p node q d ↔ FileAt p node q d := by
  constructor
  · intro h
    induction h with
    | file p d => exact FileAt.here p d
    | symFile p d => simp [symlinkFree] at hsf
    | child p n c ch q d hm hf ih =>
      have hg : symlinkFree.go ch = true := by simpa [symlinkFree] using hsf
      exact FileAt.child p n c ch q d hm (ih ((go_iff ch).1 hg (n, c) hm))
    | behind p n c ch q d _ _ hm hf ih => simp [symlinkFree] at hsf
  · intro h
    induction h with
    | here p d => exact FileAtS.file p d
    | child p n c ch q d hm hf ih =>
      have hg : symlinkFree.go ch = true := by simpa [symlinkFree] using hsf
      exact FileAtS.child p n c ch q d hm (ih ((go_iff ch).1 hg (n, c) hm))

/-- C13 (nothing invented, symbolic links included) -/
theorem visit_sym_sound (cfg : Cfg) (hq : cfg.noStripSymlink = false) (fuel : Nat) (path : Str) (node : Node)
    (acc m : ArtMap) (h : visit cfg fuel path node acc = .ok m) (e : Str × List (Str × Str)) (he : e ∈ m) :
    e ∈ acc ∨ ∃ q d hh, FileAtS cfg path node q d ∧ cfg.ignored q = false ∧
      hashObj d cfg.algs = some hh ∧ e = (stripPath cfg.lstrip q, hh) := by
  exact ((sym_aux cfg hq fuel).1 path node acc m h).1 e he

/-- C13 (nothing missed, symbolic links included): every reached, non-excluded file has an entry -/
theorem visit_sym_complete (cfg : Cfg) (hq : cfg.noStripSymlink = false) (fuel : Nat) (path : Str) (node : Node)
    (acc m : ArtMap) (h : visit cfg fuel path node acc = .ok m) (q : Str) (d : List (Str × Str))
    (hf : FileAtS cfg path node q d) (hi : cfg.ignored q = false) :
    (lookup (stripPath cfg.lstrip q) m).isSome = true := by
  exact ((sym_aux cfg hq fuel).1 path node acc m h).2 q d hf hi

/-- … and no key recorded before is lost -/
theorem visit_sym_keeps_keys (cfg : Cfg) (fuel : Nat) (path : Str) (node : Node)
    (acc m : ArtMap) (h : visit cfg fuel path node acc = .ok m) (k : Str)
    (hk : (lookup k acc).isSome = true) : (lookup k m).isSome = true := by
  exact (keeps_aux cfg fuel).1 path node acc m h k hk

/-- C13 (the follow switch): without it, a walk that succeeds records nothing for what lies behind
    a symbolic link to a directory — the result is the accumulator -/
theorem symDir_not_followed (cfg : Cfg) (hf : cfg.followDirs = false) (fuel : Nat) (path : Str)
    (ch : List (Str × Node)) (acc m : ArtMap) (h : visit cfg fuel path (.symDir ch) acc = .ok m) : m = acc := by
  cases fuel with
  | zero => simp [visit] at h
  | succ fuel =>
    simp only [visit, hf] at h
    split at h
    · simp only [Outcome.ok.injEq] at h; exact h.symm
    · simp only [Bool.not_false, if_true, Outcome.ok.injEq] at h; exact h.symm

/-- the same for a list of root paths -/
theorem recordArtifacts_sym_sound (cfg : Cfg) (hq : cfg.noStripSymlink = false) (roots : List (Str × Option Node))
    (acc m : ArtMap) (h : recordArtifacts cfg roots acc = .ok m) (e : Str × List (Str × Str)) (he : e ∈ m) :
    e ∈ acc ∨ ∃ p n q d hh, (p, some n) ∈ roots ∧ FileAtS cfg p n q d ∧ cfg.ignored q = false ∧
      hashObj d cfg.algs = some hh ∧ e = (stripPath cfg.lstrip q, hh) := by
  induction roots generalizing acc with
  | nil =>
    simp only [recordArtifacts, Outcome.ok.injEq] at h
    subst h
    exact Or.inl he
  | cons r rest ih =>
    obtain ⟨p, on⟩ := r
    cases on with
    | none => simp [recordArtifacts] at h
    | some n =>
      simp only [recordArtifacts] at h
      split at h
      · rename_i acc1 hv
        rcases ih acc1 h with he1 | ⟨p', n', q, d, hh, hm, hr⟩
        · rcases visit_sym_sound cfg hq _ p n acc acc1 hv e he1 with he0 | ⟨q, d, hh, hr⟩
          · exact Or.inl he0
          · exact Or.inr ⟨p, n, q, d, hh, List.mem_cons_self, hr⟩
        · exact Or.inr ⟨p', n', q, d, hh, List.mem_cons_of_mem _ hm, hr⟩
      · rename_i hne
        exact absurd h (hne m)

theorem recordArtifacts_sym_complete (cfg : Cfg) (hq : cfg.noStripSymlink = false) (roots : List (Str × Option Node))
    (acc m : ArtMap) (h : recordArtifacts cfg roots acc = .ok m) (p : Str) (n : Node) (hr : (p, some n) ∈ roots)
    (q : Str) (d : List (Str × Str)) (hf : FileAtS cfg p n q d) (hi : cfg.ignored q = false) :
    (lookup (stripPath cfg.lstrip q) m).isSome = true := by
  have keeps : ∀ (roots : List (Str × Option Node)) (acc m : ArtMap),
      recordArtifacts cfg roots acc = .ok m → ∀ k, (lookup k acc).isSome = true → (lookup k m).isSome = true := by
    intro roots
    induction roots with
    | nil =>
      intro acc m h k hk
      simp only [recordArtifacts, Outcome.ok.injEq] at h
      subst h; exact hk
    | cons r rest ih =>
      intro acc m h k hk
      obtain ⟨p, on⟩ := r
      cases on with
      | none => simp [recordArtifacts] at h
      | some n =>
        simp only [recordArtifacts] at h
        split at h
        · rename_i acc1 hv
          exact ih acc1 m h k (visit_sym_keeps_keys cfg _ p n acc acc1 hv k hk)
        · rename_i hne
          exact absurd h (hne m)
  induction roots generalizing acc with
  | nil => simp at hr
  | cons r rest ih =>
    obtain ⟨p', on⟩ := r
    cases on with
    | none => simp [recordArtifacts] at h
    | some n' =>
      simp only [recordArtifacts] at h
      split at h
      · rename_i acc1 hv
        rcases List.mem_cons.1 hr with hr | hr
        · cases hr
          exact keeps rest acc1 m h _ (visit_sym_complete cfg hq _ p n acc acc1 hv q d hf hi)
        · exact ih acc1 h hr
      · rename_i hne
        exact absurd h (hne m)

/-- non-vacuity: a tree with a file link and a followed directory link -/
example : ∃ m, recordArtifacts { algs := [lit% "sha256"], ignored := fun _ => false, lstrip := [], followDirs := true }
    [(lit% "r", some (.dir [(lit% "l", .symFile [(lit% "sha256", lit% "aa")]),
                             (lit% "d", .symDir [(lit% "f", .file [(lit% "sha256", lit% "bb")])])]))] [] = .ok m ∧
    m.length = 2 := by
  refine ⟨_, rfl, rfl⟩

end InToto.WalkProofs
