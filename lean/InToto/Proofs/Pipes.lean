import InToto.Model.Pipes

namespace InToto.PipesProofs
open InToto.Pipes

/-- pipes never hold more than their capacity; EOF is only seen on an empty pipe after the exit -/
def Inv (cap : Nat) (st : PState) : Prop :=
  st.outBuf ≤ cap ∧ st.errBuf ≤ cap ∧ (st.outEOF = true → st.outBuf = 0 ∧ st.exited = true) ∧
  (st.errEOF = true → st.errBuf = 0 ∧ st.exited = true) ∧ (st.exited = true → st.prog = []) ∧
  (st.waited = true → st.outEOF = true ∧ st.errEOF = true)

theorem mem_upTo (n k : Nat) : k ∈ upTo n ↔ 1 ≤ k ∧ k ≤ n := by
  induction n with
  | zero => simp [upTo]; omega
  | succ n ih => simp [upTo, List.mem_append, ih]; omega

/-- complete case analysis of a step -/
theorem step_cases {d : Discipline} {cap : Nat} {st st' : PState} (hs : Step d cap st st') :
    (st.exited = false ∧ st.prog = [] ∧ st' = { st with exited := true }) ∨
    (∃ s rest, st.exited = false ∧ st.prog = (s, 0) :: rest ∧ st' = { st with prog := rest }) ∨
    (∃ s n rest k, st.exited = false ∧ st.prog = (s, n) :: rest ∧ n ≠ 0 ∧ 1 ≤ k ∧ k ≤ n ∧
      k ≤ cap - buf st s ∧
      st' = addBuf { st with prog := if n - k = 0 then rest else (s, n - k) :: rest } s k) ∨
    (st.waited = false ∧ st.outEOF = true ∧ st.errEOF = true ∧ st' = { st with waited := true }) ∨
    (∃ k, st.waited = false ∧ st.outEOF = false ∧ 1 ≤ k ∧ k ≤ st.outBuf ∧
      st' = { st with outBuf := st.outBuf - k, outGot := st.outGot + k }) ∨
    (st.waited = false ∧ st.outEOF = false ∧ st.outBuf = 0 ∧ st.exited = true ∧
      st' = { st with outEOF := true }) ∨
    (∃ k, st.waited = false ∧ st.errEOF = false ∧ 1 ≤ k ∧ k ≤ st.errBuf ∧
      st' = { st with errBuf := st.errBuf - k, errGot := st.errGot + k }) ∨
    (st.waited = false ∧ st.errEOF = false ∧ st.errBuf = 0 ∧ st.exited = true ∧
      st' = { st with errEOF := true }) := by
  have hout : st' ∈ readSteps st .out →
      (∃ k, st.outEOF = false ∧ 1 ≤ k ∧ k ≤ st.outBuf ∧
        st' = { st with outBuf := st.outBuf - k, outGot := st.outGot + k }) ∨
      (st.outEOF = false ∧ st.outBuf = 0 ∧ st.exited = true ∧ st' = { st with outEOF := true }) := by
    intro h
    unfold readSteps at h
    simp only at h
    split at h
    · simp at h
    · split at h
      · rw [List.mem_map] at h
        obtain ⟨k, hk, rfl⟩ := h
        rw [mem_upTo] at hk
        exact Or.inl ⟨k, by simp_all, hk.1, hk.2, rfl⟩
      · split at h
        · rw [List.mem_singleton] at h
          exact Or.inr ⟨by simp_all, by omega, by assumption, h⟩
        · simp at h
  have herr : st' ∈ readSteps st .err →
      (∃ k, st.errEOF = false ∧ 1 ≤ k ∧ k ≤ st.errBuf ∧
        st' = { st with errBuf := st.errBuf - k, errGot := st.errGot + k }) ∨
      (st.errEOF = false ∧ st.errBuf = 0 ∧ st.exited = true ∧ st' = { st with errEOF := true }) := by
    intro h
    unfold readSteps at h
    simp only at h
    split at h
    · simp at h
    · split at h
      · rw [List.mem_map] at h
        obtain ⟨k, hk, rfl⟩ := h
        rw [mem_upTo] at hk
        exact Or.inl ⟨k, by simp_all, hk.1, hk.2, rfl⟩
      · split at h
        · rw [List.mem_singleton] at h
          exact Or.inr ⟨by simp_all, by omega, by assumption, h⟩
        · simp at h
  unfold Step stepsFrom at hs
  rw [List.mem_append] at hs
  rcases hs with hc | hp
  · unfold childSteps at hc
    split at hc
    · simp at hc
    · rename_i hex
      have hex' : st.exited = false := by simpa using hex
      split at hc
      · rename_i hp
        rw [List.mem_singleton] at hc
        exact Or.inl ⟨hex', hp, hc⟩
      · rename_i s n rest hp
        split at hc
        · rename_i hn
          subst hn
          rw [List.mem_singleton] at hc
          exact Or.inr (Or.inl ⟨s, rest, hex', hp, hc⟩)
        · rename_i hn
          rw [List.mem_map] at hc
          obtain ⟨k, hk, rfl⟩ := hc
          rw [mem_upTo] at hk
          exact Or.inr (Or.inr (Or.inl ⟨s, n, rest, k, hex', hp, hn, hk.1, by omega, by omega, rfl⟩))
  · unfold parentSteps at hp
    split at hp
    · simp at hp
    · rename_i hw
      have hw' : st.waited = false := by simpa using hw
      split at hp
      · rename_i he
        rw [List.mem_singleton] at hp
        simp at he
        exact Or.inr (Or.inr (Or.inr (Or.inl ⟨hw', he.1, he.2, hp⟩)))
      · have key : st' ∈ readSteps st .out ∨ st' ∈ readSteps st .err := by
          cases d
          · simp only at hp
            split at hp
            · exact Or.inl hp
            · exact Or.inr hp
          · simp only at hp
            exact List.mem_append.mp hp
        rcases key with h | h
        · rcases hout h with ⟨k, h1, h2, h3, h4⟩ | ⟨h1, h2, h3, h4⟩
          · exact Or.inr (Or.inr (Or.inr (Or.inr (Or.inl ⟨k, hw', h1, h2, h3, h4⟩))))
          · exact Or.inr (Or.inr (Or.inr (Or.inr (Or.inr (Or.inl ⟨hw', h1, h2, h3, h4⟩)))))
        · rcases herr h with ⟨k, h1, h2, h3, h4⟩ | ⟨h1, h2, h3, h4⟩
          · exact Or.inr (Or.inr (Or.inr (Or.inr (Or.inr (Or.inr (Or.inl ⟨k, hw', h1, h2, h3, h4⟩))))))
          · exact Or.inr (Or.inr (Or.inr (Or.inr (Or.inr (Or.inr (Or.inr ⟨hw', h1, h2, h3, h4⟩))))))

theorem inv_init (cap : Nat) (prog : List (Stream × Nat)) : Inv cap (init prog) := by
  simp [Inv, init]

theorem inv_step (d : Discipline) (cap : Nat) (st st' : PState) (h : Inv cap st) (hs : Step d cap st st') :
    Inv cap st' := by
  obtain ⟨h1, h2, h3, h4, h5, h6⟩ := h
  rcases step_cases hs with ⟨a, b, rfl⟩ | ⟨s, rest, a, b, rfl⟩ | ⟨s, n, rest, k, a, b, hn, k1, k2, k3, rfl⟩ |
    ⟨a, b, c, rfl⟩ | ⟨k, a, b, k1, k2, rfl⟩ | ⟨a, b, c, e, rfl⟩ | ⟨k, a, b, k1, k2, rfl⟩ | ⟨a, b, c, e, rfl⟩
  all_goals first
    | (cases s <;> simp_all [Inv, addBuf, buf] <;> omega)
    | (simp_all [Inv] <;> omega)

/-- nothing is lost or invented: collected + buffered + still to be written is constant, per stream -/
theorem conservation (d : Discipline) (cap : Nat) (st st' : PState) (hs : Step d cap st st') :
    st'.outGot + st'.outBuf + progBytes .out st'.prog = st.outGot + st.outBuf + progBytes .out st.prog ∧
    st'.errGot + st'.errBuf + progBytes .err st'.prog = st.errGot + st.errBuf + progBytes .err st.prog := by
  rcases step_cases hs with ⟨a, b, rfl⟩ | ⟨s, rest, a, b, rfl⟩ | ⟨s, n, rest, k, a, b, hn, k1, k2, k3, rfl⟩ |
    ⟨a, b, c, rfl⟩ | ⟨k, a, b, k1, k2, rfl⟩ | ⟨a, b, c, e, rfl⟩ | ⟨k, a, b, k1, k2, rfl⟩ | ⟨a, b, c, e, rfl⟩
  · simp
  · simp [b, progBytes]
  · cases s <;> by_cases h0 : n - k = 0 <;> simp [addBuf, b, progBytes, h0] <;> omega
  · simp
  · simp; omega
  · simp
  · simp; omega
  · simp

/-- every step makes progress (so every run is finite: at most `measure` steps) -/
def measure (st : PState) : Nat :=
  2 * (progBytes .out st.prog + progBytes .err st.prog) + 2 * st.prog.length + st.outBuf + st.errBuf +
  (if st.exited then 0 else 1) + (if st.outEOF then 0 else 1) + (if st.errEOF then 0 else 1) + (if st.waited then 0 else 1)

theorem step_decreases (d : Discipline) (cap : Nat) (st st' : PState) (hs : Step d cap st st') :
    measure st' < measure st := by
  rcases step_cases hs with ⟨a, b, rfl⟩ | ⟨s, rest, a, b, rfl⟩ | ⟨s, n, rest, k, a, b, hn, k1, k2, k3, rfl⟩ |
    ⟨a, b, c, rfl⟩ | ⟨k, a, b, k1, k2, rfl⟩ | ⟨a, b, c, e, rfl⟩ | ⟨k, a, b, k1, k2, rfl⟩ | ⟨a, b, c, e, rfl⟩
  · simp [measure, a]
  · simp [measure, b, progBytes]
  · cases s <;> by_cases h0 : n - k = 0 <;> simp [measure, addBuf, b, progBytes, h0] <;> omega
  · simp [measure, a]
  · simp [measure]; omega
  · simp [measure, b]
  · simp [measure]; omega
  · simp [measure, b]

theorem readOut_nonempty (st : PState) (he : st.outEOF = false)
    (h : 0 < st.outBuf ∨ st.exited = true) : ∃ st', st' ∈ readSteps st .out := by
  unfold readSteps
  simp only [he]
  by_cases hb : st.outBuf > 0
  · refine ⟨{ st with outBuf := st.outBuf - 1, outGot := st.outGot + 1 }, ?_⟩
    simp only [hb, Bool.false_eq_true, if_false, if_true]
    exact List.mem_map.mpr ⟨1, (mem_upTo _ _).mpr ⟨Nat.le_refl _, hb⟩, by simp [he]⟩
  · have hx : st.exited = true := by
      rcases h with h | h
      · exact absurd h hb
      · exact h
    exact ⟨{ st with outEOF := true }, by simp [hb, hx]⟩

theorem readErr_nonempty (st : PState) (he : st.errEOF = false)
    (h : 0 < st.errBuf ∨ st.exited = true) : ∃ st', st' ∈ readSteps st .err := by
  unfold readSteps
  simp only [he]
  by_cases hb : st.errBuf > 0
  · refine ⟨{ st with errBuf := st.errBuf - 1, errGot := st.errGot + 1 }, ?_⟩
    simp only [hb, Bool.false_eq_true, if_false, if_true]
    exact List.mem_map.mpr ⟨1, (mem_upTo _ _).mpr ⟨Nat.le_refl _, hb⟩, by simp [he]⟩
  · have hx : st.exited = true := by
      rcases h with h | h
      · exact absurd h hb
      · exact h
    exact ⟨{ st with errEOF := true }, by simp [hb, hx]⟩

/-- C14 MAIN (liveness of the concurrent discipline): with a pipe capacity > 0, NO reachable state
    short of the end is stuck — whatever volumes the child writes to either stream, in whatever
    order, and however the scheduler interleaves -/
theorem conc_never_stuck (cap : Nat) (hc : 0 < cap) (st : PState) (hi : Inv cap st) (hf : final st = false) :
    ∃ st', Step .conc cap st st' := by
  obtain ⟨h1, h2, h3, h4, h5, h6⟩ := hi
  have hw : st.waited = false := hf
  unfold Step stepsFrom
  by_cases hE : (st.outEOF && st.errEOF) = true
  · exact ⟨{ st with waited := true }, List.mem_append.mpr (Or.inr (by simp [parentSteps, hw, hE]))⟩
  · have hpar : parentSteps .conc st = readSteps st .out ++ readSteps st .err := by
      simp [parentSteps, hw, hE]
    rw [hpar]
    have outOK : st.outEOF = false → (0 < st.outBuf ∨ st.exited = true) →
        ∃ st', st' ∈ childSteps cap st ++ (readSteps st .out ++ readSteps st .err) := by
      intro a b
      obtain ⟨x, hx⟩ := readOut_nonempty st a b
      exact ⟨x, List.mem_append.mpr (Or.inr (List.mem_append.mpr (Or.inl hx)))⟩
    have errOK : st.errEOF = false → (0 < st.errBuf ∨ st.exited = true) →
        ∃ st', st' ∈ childSteps cap st ++ (readSteps st .out ++ readSteps st .err) := by
      intro a b
      obtain ⟨x, hx⟩ := readErr_nonempty st a b
      exact ⟨x, List.mem_append.mpr (Or.inr (List.mem_append.mpr (Or.inr hx)))⟩
    by_cases hex : st.exited = true
    · by_cases ho : st.outEOF = true
      · have he : st.errEOF = false := by
          cases hh : st.errEOF
          · rfl
          · exact absurd (by simp [ho, hh]) hE
        exact errOK he (Or.inr hex)
      · exact outOK (by simpa using ho) (Or.inr hex)
    · have hex' : st.exited = false := by simpa using hex
      cases hp : st.prog with
      | nil =>
        exact ⟨{ st with exited := true }, List.mem_append.mpr (Or.inl (by simp [childSteps, hex', hp]))⟩
      | cons a rest =>
        obtain ⟨s, n⟩ := a
        by_cases hn : n = 0
        · exact ⟨{ st with prog := rest }, List.mem_append.mpr (Or.inl (by simp [childSteps, hex', hp, hn]))⟩
        · by_cases hfree : 0 < cap - buf st s
          · refine ⟨addBuf { st with prog := if n - 1 = 0 then rest else (s, n - 1) :: rest } s 1,
              List.mem_append.mpr (Or.inl ?_)⟩
            unfold childSteps
            simp only [hex', hp, hn, Bool.false_eq_true, if_false]
            exact List.mem_map.mpr ⟨1, (mem_upTo _ _).mpr ⟨Nat.le_refl _, by omega⟩, rfl⟩
          · cases s with
            | out =>
              have hb : 0 < st.outBuf := by simp [buf] at hfree; omega
              have he : st.outEOF = false := by
                cases hh : st.outEOF
                · rfl
                · have := (h3 hh).1; omega
              exact outOK he (Or.inl hb)
            | err =>
              have hb : 0 < st.errBuf := by simp [buf] at hfree; omega
              have he : st.errEOF = false := by
                cases hh : st.errEOF
                · rfl
                · have := (h4 hh).1; omega
              exact errOK he (Or.inl hb)

/-- when the call has returned, everything the child wrote has been collected -/
theorem final_complete (cap : Nat) (st : PState) (hi : Inv cap st) (hf : final st = true) :
    st.outBuf = 0 ∧ st.errBuf = 0 ∧ st.prog = [] ∧ st.exited = true := by
  obtain ⟨h1, h2, h3, h4, h5, h6⟩ := hi
  have hw : st.waited = true := hf
  obtain ⟨e1, e2⟩ := h6 hw
  obtain ⟨b1, x1⟩ := h3 e1
  obtain ⟨b2, _⟩ := h4 e2
  exact ⟨b1, b2, h5 x1, x1⟩

/-- reachability -/
inductive Reach (d : Discipline) (cap : Nat) (s0 : PState) : PState → Prop where
  | refl : Reach d cap s0 s0
  | step (a b : PState) : Reach d cap s0 a → Step d cap a b → Reach d cap s0 b

theorem reach_inv (d : Discipline) (cap : Nat) (prog : List (Stream × Nat)) (st : PState)
    (hr : Reach d cap (init prog) st) :
    Inv cap st ∧ st.outGot + st.outBuf + progBytes .out st.prog = progBytes .out prog ∧
      st.errGot + st.errBuf + progBytes .err st.prog = progBytes .err prog := by
  induction hr with
  | refl => exact ⟨inv_init cap prog, by simp [init], by simp [init]⟩
  | step a b _ hs ih =>
    obtain ⟨hi, ho, he⟩ := ih
    obtain ⟨co, ce⟩ := conservation d cap a b hs
    exact ⟨inv_step d cap a b hi hs, by omega, by omega⟩

/-- C14 (completeness): every run of the concurrent discipline that has returned delivered the
    COMPLETE output of both streams -/
theorem conc_capture_complete (d : Discipline) (cap : Nat) (prog : List (Stream × Nat)) (st : PState)
    (hr : Reach d cap (init prog) st) (hf : final st = true) :
    st.outGot = progBytes .out prog ∧ st.errGot = progBytes .err prog := by
  obtain ⟨hi, ho, he⟩ := reach_inv d cap prog st hr
  obtain ⟨b1, b2, hp, _⟩ := final_complete cap st hi hf
  rw [hp] at ho he
  simp [progBytes] at ho he
  omega

/-- the sequential discipline CAN deadlock: with capacity 2 a child that writes 3 bytes to stderr
    reaches a state without successor although the call has not returned (the repaired defect) -/
theorem seq_can_deadlock :
    ∃ st, Reach .seq 2 (init [(.err, 3)]) st ∧ final st = false ∧ stepsFrom .seq 2 st = [] := by
  refine ⟨{ prog := [(.err, 1)], exited := false, outBuf := 0, errBuf := 2, outGot := 0, errGot := 0,
            outEOF := false, errEOF := false, waited := false }, ?_, by decide, by decide⟩
  refine Reach.step _ _ Reach.refl ?_
  unfold Step
  decide

end InToto.PipesProofs
