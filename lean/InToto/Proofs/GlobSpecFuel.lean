import InToto.Spec.Glob

/-!
`parsePatAux` does not depend on its fuel as long as the fuel exceeds the pattern length.
-/
namespace InToto.GlobProofs
open InToto.GlobSpec

theorem getEscS_length {q : List Nat} {lo : Nat} {rest : List Nat}
    (h : getEscS q = some (lo, rest)) : rest.length < q.length := by
  cases q with
  | nil => simp [getEscS] at h
  | cons c q1 =>
    simp only [getEscS] at h
    split at h
    · cases h
    · split at h
      · split at h
        · cases h
        · simp only [Option.some.injEq, Prod.mk.injEq] at h
          obtain ⟨_, rfl⟩ := h
          simp only [List.length_cons]; omega
      · simp only [Option.some.injEq, Prod.mk.injEq] at h
        obtain ⟨_, rfl⟩ := h
        simp

theorem parseRangesS_length : ∀ (fuel : Nat) (q : List Nat) (acc rs : List (Nat × Nat))
    (rest : List Nat), parseRangesS fuel q acc = some (rs, rest) → rest.length < q.length := by
  intro fuel
  induction fuel with
  | zero => intro q acc rs rest h; simp [parseRangesS] at h
  | succ f ih =>
    intro q acc rs rest h
    cases q with
    | nil => simp [parseRangesS] at h
    | cons c q1 =>
      rw [parseRangesS] at h
      split at h
      · simp only [Option.some.injEq, Prod.mk.injEq] at h
        obtain ⟨_, rfl⟩ := h
        simp
      · split at h
        · cases h
        · rename_i lo c1 hg
          have hl := getEscS_length hg
          split at h
          · rename_i d r1
            split at h
            · split at h
              · cases h
              · rename_i hi c2 hg2
                have hl2 := getEscS_length hg2
                have := ih _ _ _ _ h
                simp only [List.length_cons] at hl hl2 ⊢
                omega
            · have := ih _ _ _ _ h
              omega
          · cases h

/-- The optional `^` after `[` (spec side). -/
def classStartS (rest : List Nat) : Bool × List Nat :=
  match rest with
  | x :: t => if x = cCaret then (true, t) else (false, rest)
  | [] => (false, rest)

theorem classStartS_length (rest : List Nat) : (classStartS rest).2.length ≤ rest.length := by
  unfold classStartS
  split
  · split <;> simp
  · simp

theorem parsePatAux_cons (f : Nat) (c : Nat) (rest : List Nat) :
    parsePatAux (f + 1) (c :: rest) =
      if c = cStar then (parsePatAux f rest).map (Item.star :: ·)
      else if c = cQuest then (parsePatAux f rest).map (Item.any :: ·)
      else if c = cLBr then
        let nr : Bool × List Nat := classStartS rest
        match parseRangesS (nr.2.length + 1) nr.2 [] with
        | none => none
        | some (rs, rest') => (parsePatAux f rest').map (Item.cls nr.1 rs :: ·)
      else if c = cBsl then
        match rest with
        | [] => none
        | d :: r => (parsePatAux f r).map (Item.lit d :: ·)
      else (parsePatAux f rest).map (Item.lit c :: ·) := by
  rfl

theorem parsePatAux_fuel : ∀ (f1 : Nat) (p : List Nat) (f2 : Nat), p.length < f1 → p.length < f2 →
    parsePatAux f1 p = parsePatAux f2 p := by
  intro f1
  induction f1 with
  | zero => intro p f2 h; omega
  | succ f1 ih =>
    intro p f2 h1 h2
    cases f2 with
    | zero => omega
    | succ f2 =>
      cases p with
      | nil => simp [parsePatAux]
      | cons c rest =>
        simp only [List.length_cons] at h1 h2
        rw [parsePatAux_cons, parsePatAux_cons]
        have hrest := ih rest f2 (by omega) (by omega)
        split
        · rw [hrest]
        · split
          · rw [hrest]
          · split
            · dsimp only
              split
              · rfl
              · rename_i rs rest' hpr
                have hl := parseRangesS_length _ _ _ _ _ hpr
                have hnr := classStartS_length rest
                rw [ih rest' f2 (by omega) (by omega)]
            · split
              · split
                · rfl
                · rename_i d r
                  simp only [List.length_cons] at h1 h2
                  rw [ih r f2 (by omega) (by omega)]
              · rw [hrest]

theorem parsePatAux_eq_parsePat (f : Nat) (p : List Nat) (h : p.length < f) :
    parsePatAux f p = parsePat p :=
  parsePatAux_fuel f p (p.length + 1) h (by omega)

theorem parsePat_nil : parsePat [] = some [] := rfl

/-- Fuel-free unfolding of `parsePat`. -/
theorem parsePat_cons (c : Nat) (rest : List Nat) :
    parsePat (c :: rest) =
      if c = cStar then (parsePat rest).map (Item.star :: ·)
      else if c = cQuest then (parsePat rest).map (Item.any :: ·)
      else if c = cLBr then
        let nr : Bool × List Nat := classStartS rest
        match parseRangesS (nr.2.length + 1) nr.2 [] with
        | none => none
        | some (rs, rest') => (parsePat rest').map (Item.cls nr.1 rs :: ·)
      else if c = cBsl then
        match rest with
        | [] => none
        | d :: r => (parsePat r).map (Item.lit d :: ·)
      else (parsePat rest).map (Item.lit c :: ·) := by
  have h0 : parsePat (c :: rest) = parsePatAux (rest.length + 1 + 1) (c :: rest) := rfl
  rw [h0, parsePatAux_cons]
  have hrest : parsePatAux (rest.length + 1) rest = parsePat rest := rfl
  split
  · rw [hrest]
  · split
    · rw [hrest]
    · split
      · dsimp only
        split
        · rfl
        · rename_i rs rest' hpr
          have hl := parseRangesS_length _ _ _ _ _ hpr
          have hnr := classStartS_length rest
          rw [parsePatAux_eq_parsePat _ rest' (by omega)]
      · split
        · split
          · rfl
          · rename_i d r
            rw [parsePatAux_eq_parsePat _ r (by simp only [List.length_cons]; omega)]
        · rw [hrest]

end InToto.GlobProofs
