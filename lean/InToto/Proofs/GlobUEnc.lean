import InToto.Model.Glob
import InToto.Spec.Glob

/-!
UTF-8 encoding facts for the glob correspondence proof over all of UTF-8.

`enc` is Go's `utf8.EncodeRune` on scalar values (`Sc`), `encs` encodes a sequence of code points.
The facts proved here about Go's `utf8.DecodeRuneInString` (`decodeRune`):
* `decodeRune_enc`      : `decodeRune (enc c ++ t) = (c, (enc c).length)` for every scalar value;
* `decodeRune_roundtrip`: whenever `decodeRune` does not report `(RuneError, 1)` on a non-empty
  input, the input starts with `enc c` for the scalar value `c` it returns;
* `enc_prefix_free`     : encodings are prefix-free and determined by the code point;
* `enc_cases`           : a one-byte encoding is the (ASCII) code point itself, every byte of a
  multi-byte encoding is `≥ 0x80` (so it is none of `* ? [ ] \ ^ -`) and the code point is `≥ 0x80`.
-/
namespace InToto.GlobUtf8
open InToto.Glob

/-- Unicode scalar values: the code points that have a UTF-8 encoding. -/
def Sc (c : Nat) : Prop := c < 0xD800 ∨ (0xE000 ≤ c ∧ c < 0x110000)

def AllSc (rs : List Nat) : Prop := ∀ c ∈ rs, Sc c

theorem AllSc.cons {x : Nat} {b : List Nat} (h : AllSc (x :: b)) : Sc x ∧ AllSc b :=
  ⟨h x (by simp), fun y hy => h y (by simp [hy])⟩

theorem AllSc.append_left {a b : List Nat} (h : AllSc (a ++ b)) : AllSc a :=
  fun y hy => h y (by simp [hy])

theorem AllSc.append_right {a b : List Nat} (h : AllSc (a ++ b)) : AllSc b :=
  fun y hy => h y (by simp [hy])

theorem AllSc.append {a b : List Nat} (ha : AllSc a) (hb : AllSc b) : AllSc (a ++ b) := by
  intro y hy
  rcases List.mem_append.1 hy with h | h
  · exact ha y h
  · exact hb y h

theorem allSc_nil : AllSc [] := fun _ h => by cases h

theorem allSc_cons {x : Nat} {b : List Nat} (hx : Sc x) (hb : AllSc b) : AllSc (x :: b) := by
  intro y hy
  rcases List.mem_cons.1 hy with h | h
  · exact h ▸ hx
  · exact hb y h

theorem AllSc.suffix {t s : List Nat} (h : t <:+ s) (hs : AllSc s) : AllSc t := by
  obtain ⟨w, rfl⟩ := h
  exact hs.append_right

/-- Go `utf8.EncodeRune` (on scalar values). -/
def enc (c : Nat) : Bytes :=
  if c < 0x80 then [UInt8.ofNat c]
  else if c < 0x800 then [UInt8.ofNat (0xC0 + c / 64), UInt8.ofNat (0x80 + c % 64)]
  else if c < 0x10000 then
    [UInt8.ofNat (0xE0 + c / 4096), UInt8.ofNat (0x80 + c / 64 % 64), UInt8.ofNat (0x80 + c % 64)]
  else
    [UInt8.ofNat (0xF0 + c / 262144), UInt8.ofNat (0x80 + c / 4096 % 64),
      UInt8.ofNat (0x80 + c / 64 % 64), UInt8.ofNat (0x80 + c % 64)]

/-- The UTF-8 encoding of a sequence of code points. -/
def encs : List Nat → Bytes
  | [] => []
  | c :: t => enc c ++ encs t

@[simp] theorem encs_nil : encs [] = [] := rfl
@[simp] theorem encs_cons (c : Nat) (t : List Nat) : encs (c :: t) = enc c ++ encs t := rfl

@[simp] theorem encs_append (a b : List Nat) : encs (a ++ b) = encs a ++ encs b := by
  induction a with
  | nil => rfl
  | cons c a ih => simp [ih]

/-! ### bytes -/

theorem u8_beq (a b : UInt8) : (a == b) = decide (a.toNat = b.toNat) := by
  by_cases h : a = b
  · subst h; simp
  · have : a.toNat ≠ b.toNat := fun h' => h (UInt8.toNat_inj.1 h')
    simp [h, this]

theorem u8_eq_iff (a b : UInt8) : a = b ↔ a.toNat = b.toNat :=
  ⟨fun h => h ▸ rfl, fun h => UInt8.toNat_inj.1 h⟩

theorem u8_eq_ofNat (b : UInt8) (k : Nat) (hk : k < 256) : b = UInt8.ofNat k ↔ b.toNat = k := by
  rw [u8_eq_iff]; simp [Nat.mod_eq_of_lt hk]

/-! ### decodeRune on the four shapes -/

theorem decodeRune_1 (b : UInt8) (rest : Bytes) (h : b.toNat < 128) :
    decodeRune (b :: rest) = (b.toNat, 1) := by
  simp [decodeRune, UInt8.lt_iff_toNat_lt, h]

theorem decodeRune_2 (b0 b1 : UInt8) (rest : Bytes) (h0 : 0xC2 ≤ b0.toNat) (h0' : b0.toNat < 0xE0)
    (h1 : 0x80 ≤ b1.toNat) (h1' : b1.toNat ≤ 0xBF) :
    decodeRune (b0 :: b1 :: rest) = ((b0.toNat % 32) * 64 + (b1.toNat % 64), 2) := by
  have e1 : ¬ b0.toNat < 128 := by omega
  have e2 : ¬ b0.toNat < 194 := by omega
  simp [decodeRune, isCont, UInt8.lt_iff_toNat_lt, UInt8.le_iff_toNat_le, e1, e2, h0', h1, h1']

theorem decodeRune_3 (b0 b1 b2 : UInt8) (rest : Bytes) (h0 : 0xE0 ≤ b0.toNat)
    (h0' : b0.toNat < 0xF0) (h1 : 0x80 ≤ b1.toNat) (h1' : b1.toNat ≤ 0xBF)
    (hlo : b0.toNat = 0xE0 → 0xA0 ≤ b1.toNat) (hhi : b0.toNat = 0xED → b1.toNat ≤ 0x9F)
    (h2 : 0x80 ≤ b2.toNat) (h2' : b2.toNat ≤ 0xBF) :
    decodeRune (b0 :: b1 :: b2 :: rest) =
      ((b0.toNat % 16) * 4096 + (b1.toNat % 64) * 64 + (b2.toNat % 64), 3) := by
  have e1 : ¬ b0.toNat < 128 := by omega
  have e2 : ¬ b0.toNat < 194 := by omega
  have e3 : ¬ b0.toNat < 224 := by omega
  by_cases ha : b0.toNat = 224 <;> by_cases hb : b0.toNat = 237 <;>
  simp [decodeRune, isCont, UInt8.lt_iff_toNat_lt, UInt8.le_iff_toNat_le, u8_beq, e1, e2, e3, h0',
    ha, hb, h1, h1', h2, h2'] <;> omega

theorem decodeRune_4 (b0 b1 b2 b3 : UInt8) (rest : Bytes) (h0 : 0xF0 ≤ b0.toNat)
    (h0' : b0.toNat < 0xF5) (h1 : 0x80 ≤ b1.toNat) (h1' : b1.toNat ≤ 0xBF)
    (hlo : b0.toNat = 0xF0 → 0x90 ≤ b1.toNat) (hhi : b0.toNat = 0xF4 → b1.toNat ≤ 0x8F)
    (h2 : 0x80 ≤ b2.toNat) (h2' : b2.toNat ≤ 0xBF) (h3 : 0x80 ≤ b3.toNat) (h3' : b3.toNat ≤ 0xBF) :
    decodeRune (b0 :: b1 :: b2 :: b3 :: rest) =
      ((b0.toNat % 8) * 262144 + (b1.toNat % 64) * 4096 + (b2.toNat % 64) * 64 + (b3.toNat % 64),
        4) := by
  have e1 : ¬ b0.toNat < 128 := by omega
  have e2 : ¬ b0.toNat < 194 := by omega
  have e3 : ¬ b0.toNat < 224 := by omega
  have e4 : ¬ b0.toNat < 240 := by omega
  by_cases ha : b0.toNat = 240 <;> by_cases hb : b0.toNat = 244 <;>
  simp [decodeRune, isCont, UInt8.lt_iff_toNat_lt, UInt8.le_iff_toNat_le, u8_beq, e1, e2, e3, e4,
    h0', ha, hb, h1, h1', h2, h2', h3, h3'] <;> omega

/-- The shapes on which `decodeRune` does not report an error. -/
theorem decodeRune_shape (b0 : UInt8) (rest : Bytes)
    (h : ¬ ((decodeRune (b0 :: rest)).1 = runeError ∧ (decodeRune (b0 :: rest)).2 = 1)) :
    b0.toNat < 128 ∨
    (∃ b1 r, rest = b1 :: r ∧ 0xC2 ≤ b0.toNat ∧ b0.toNat < 0xE0 ∧ 0x80 ≤ b1.toNat ∧
      b1.toNat ≤ 0xBF) ∨
    (∃ b1 b2 r, rest = b1 :: b2 :: r ∧ 0xE0 ≤ b0.toNat ∧ b0.toNat < 0xF0 ∧ 0x80 ≤ b1.toNat ∧
      b1.toNat ≤ 0xBF ∧ (b0.toNat = 0xE0 → 0xA0 ≤ b1.toNat) ∧ (b0.toNat = 0xED → b1.toNat ≤ 0x9F) ∧
      0x80 ≤ b2.toNat ∧ b2.toNat ≤ 0xBF) ∨
    (∃ b1 b2 b3 r, rest = b1 :: b2 :: b3 :: r ∧ 0xF0 ≤ b0.toNat ∧ b0.toNat < 0xF5 ∧
      0x80 ≤ b1.toNat ∧ b1.toNat ≤ 0xBF ∧ (b0.toNat = 0xF0 → 0x90 ≤ b1.toNat) ∧
      (b0.toNat = 0xF4 → b1.toNat ≤ 0x8F) ∧ 0x80 ≤ b2.toNat ∧ b2.toNat ≤ 0xBF ∧
      0x80 ≤ b3.toNat ∧ b3.toNat ≤ 0xBF) := by
  have key : ∀ x : Nat × Nat, x = (runeError, 1) → x.1 = runeError ∧ x.2 = 1 := by
    intro x hx; subst hx; exact ⟨rfl, rfl⟩
  by_cases c1 : b0.toNat < 128
  · exact Or.inl c1
  by_cases c2 : b0.toNat < 194
  · exact absurd (by simp [decodeRune, UInt8.lt_iff_toNat_lt, c1, c2]) h
  by_cases c3 : b0.toNat < 224
  · right; left
    cases rest with
    | nil => exact absurd (by simp [decodeRune, UInt8.lt_iff_toNat_lt, c1, c2, c3]) h
    | cons b1 r =>
      by_cases hc : 128 ≤ b1.toNat ∧ b1.toNat ≤ 191
      · exact ⟨b1, r, rfl, by omega, c3, hc.1, hc.2⟩
      · exact absurd (by simp [decodeRune, isCont, UInt8.lt_iff_toNat_lt, UInt8.le_iff_toNat_le, c1, c2, c3, hc]) h
  by_cases c4 : b0.toNat < 240
  · right; right; left
    match rest with
    | [] => exact absurd (by simp [decodeRune, UInt8.lt_iff_toNat_lt, c1, c2, c3, c4]) h
    | [_] => exact absurd (by simp [decodeRune, UInt8.lt_iff_toNat_lt, c1, c2, c3, c4]) h
    | b1 :: b2 :: r =>
      by_cases hc : (128 ≤ b1.toNat ∧ b1.toNat ≤ 191 ∧ (b0.toNat = 0xE0 → 0xA0 ≤ b1.toNat) ∧ (b0.toNat = 0xED → b1.toNat ≤ 0x9F)) ∧ 128 ≤ b2.toNat ∧ b2.toNat ≤ 191
      · exact ⟨b1, b2, r, rfl, by omega, c4, hc.1.1, hc.1.2.1, hc.1.2.2.1, hc.1.2.2.2, hc.2.1, hc.2.2⟩
      · refine absurd (key _ ?_) h
        by_cases ha : b0.toNat = 224 <;> by_cases hb : b0.toNat = 237 <;>
        simp [decodeRune, isCont, UInt8.lt_iff_toNat_lt, UInt8.le_iff_toNat_le, u8_beq, c1, c2, c3, c4, ha, hb] <;> 
        intros <;> omega
  by_cases c5 : b0.toNat < 245
  · right; right; right
    match rest with
    | [] => exact absurd (by simp [decodeRune, UInt8.lt_iff_toNat_lt, c1, c2, c3, c4, c5]) h
    | [_] => exact absurd (by simp [decodeRune, UInt8.lt_iff_toNat_lt, c1, c2, c3, c4, c5]) h
    | [_, _] => exact absurd (by simp [decodeRune, UInt8.lt_iff_toNat_lt, c1, c2, c3, c4, c5]) h
    | b1 :: b2 :: b3 :: r =>
      by_cases hc : (128 ≤ b1.toNat ∧ b1.toNat ≤ 191 ∧ (b0.toNat = 0xF0 → 0x90 ≤ b1.toNat) ∧ (b0.toNat = 0xF4 → b1.toNat ≤ 0x8F)) ∧ 128 ≤ b2.toNat ∧ b2.toNat ≤ 191 ∧ 128 ≤ b3.toNat ∧ b3.toNat ≤ 191
      · exact ⟨b1, b2, b3, r, rfl, by omega, c5, hc.1.1, hc.1.2.1, hc.1.2.2.1, hc.1.2.2.2, hc.2.1, hc.2.2.1, hc.2.2.2.1, hc.2.2.2.2⟩
      · refine absurd (key _ ?_) h
        by_cases ha : b0.toNat = 240 <;> by_cases hb : b0.toNat = 244 <;>
        simp [decodeRune, isCont, UInt8.lt_iff_toNat_lt, UInt8.le_iff_toNat_le, u8_beq, c1, c2, c3, c4, c5, ha, hb] <;> 
        intros <;> omega
  · exact absurd (by simp [decodeRune, UInt8.lt_iff_toNat_lt, c1, c2, c3, c4, c5]) h

/-! ### encode / decode -/

/-- Decoding an encoded scalar value gives it back, whatever follows. -/
theorem decodeRune_enc (c : Nat) (h : Sc c) (t : Bytes) :
    decodeRune (enc c ++ t) = (c, (enc c).length) := by
  unfold Sc at h
  unfold enc
  split
  · rw [List.singleton_append, decodeRune_1 _ _ (by simp; omega)]
    simp; omega
  · split
    · simp only [List.cons_append, List.nil_append]
      rw [decodeRune_2 _ _ _ (by simp; omega) (by simp; omega) (by simp; omega) (by simp; omega)]
      simp; omega
    · split
      · simp only [List.cons_append, List.nil_append]
        rw [decodeRune_3 _ _ _ _ (by simp; omega) (by simp; omega) (by simp; omega)
          (by simp; omega) (by simp; omega) (by simp; omega) (by simp; omega) (by simp; omega)]
        simp; omega
      · simp only [List.cons_append, List.nil_append]
        rw [decodeRune_4 _ _ _ _ _ (by simp; omega) (by simp; omega) (by simp; omega)
          (by simp; omega) (by simp; omega) (by simp; omega) (by simp; omega) (by simp; omega)
          (by simp; omega) (by simp; omega)]
        simp; omega

theorem enc_ne_nil (c : Nat) : enc c ≠ [] := by
  unfold enc; split <;> (try split) <;> (try split) <;> simp

theorem enc_length_pos (c : Nat) : 0 < (enc c).length :=
  List.length_pos_iff.2 (enc_ne_nil c)

theorem encs_eq_nil {t : List Nat} : encs t = [] ↔ t = [] := by
  cases t with
  | nil => simp
  | cons c t => simp [enc_ne_nil]

theorem encs_isEmpty (t : List Nat) : (encs t).isEmpty = t.isEmpty := by
  cases t with
  | nil => rfl
  | cons c t =>
    have := enc_ne_nil c
    cases h : enc c with
    | nil => exact absurd h this
    | cons b tl => simp [h]

theorem length_le_encs (t : List Nat) : t.length ≤ (encs t).length := by
  induction t with
  | nil => simp
  | cons c t ih =>
    have := enc_length_pos c
    simp only [encs_cons, List.length_cons, List.length_append]; omega

/-- One-byte encodings are ASCII code points; all bytes of longer encodings are `≥ 0x80`. -/
theorem enc_cases (c : Nat) (hs : Sc c) :
    (c < 128 ∧ enc c = [UInt8.ofNat c]) ∨
    (128 ≤ c ∧ ∀ x ∈ enc c, 128 ≤ x.toNat) := by
  unfold Sc at hs
  by_cases h : c < 128
  · left; exact ⟨h, by simp [enc, h]⟩
  · right
    refine ⟨by omega, ?_⟩
    unfold enc
    split
    · omega
    · split
      · simp; omega
      · split
        · simp; omega
        · simp; omega

theorem enc_ascii (b : UInt8) (h : b.toNat < 128) : enc b.toNat = [b] := by
  unfold enc
  rw [if_pos h]
  simp

/-- A validly encoded U+FFFD is three bytes wide, so `getEsc` never mistakes it for an error. -/
theorem enc_not_err (c : Nat) : ¬ (c = runeError ∧ (enc c).length = 1) := by
  rintro ⟨rfl, h⟩
  simp [enc, runeError] at h

theorem ofNat_eq (b : UInt8) (k : Nat) (hk : k < 256) (h : b.toNat = k) : UInt8.ofNat k = b :=
  ((u8_eq_ofNat b k hk).2 h).symm

/-- Whenever `decodeRune` does not report an error, the input begins with the encoding of a
    scalar value. -/
theorem decodeRune_shape_enc (b0 : UInt8) (rest : Bytes)
    (h : ¬ ((decodeRune (b0 :: rest)).1 = runeError ∧ (decodeRune (b0 :: rest)).2 = 1)) :
    ∃ c r, Sc c ∧ b0 :: rest = enc c ++ r := by
  rcases decodeRune_shape b0 rest h with h1 | ⟨b1, r, rfl, h0, h0', h1, h1'⟩ |
    ⟨b1, b2, r, rfl, h0, h0', h1, h1', hlo, hhi, h2, h2'⟩ |
    ⟨b1, b2, b3, r, rfl, h0, h0', h1, h1', hlo, hhi, h2, h2', h3, h3'⟩
  · refine ⟨b0.toNat, rest, Or.inl (by omega), ?_⟩
    unfold enc
    rw [if_pos h1, ofNat_eq b0 _ (by omega) rfl]; rfl
  · refine ⟨(b0.toNat % 32) * 64 + (b1.toNat % 64), r, Or.inl (by omega), ?_⟩
    unfold enc
    rw [if_neg (by omega), if_pos (by omega), ofNat_eq b0 _ (by omega) (by omega),
      ofNat_eq b1 _ (by omega) (by omega)]; rfl
  · refine ⟨(b0.toNat % 16) * 4096 + (b1.toNat % 64) * 64 + (b2.toNat % 64), r, ?_, ?_⟩
    · unfold Sc; omega
    unfold enc
    rw [if_neg (by omega), if_neg (by omega), if_pos (by omega),
      ofNat_eq b0 _ (by omega) (by omega), ofNat_eq b1 _ (by omega) (by omega),
      ofNat_eq b2 _ (by omega) (by omega)]; rfl
  · refine ⟨(b0.toNat % 8) * 262144 + (b1.toNat % 64) * 4096 + (b2.toNat % 64) * 64 +
      (b3.toNat % 64), r, ?_, ?_⟩
    · unfold Sc; omega
    unfold enc
    rw [if_neg (by omega), if_neg (by omega), if_neg (by omega),
      ofNat_eq b0 _ (by omega) (by omega), ofNat_eq b1 _ (by omega) (by omega),
      ofNat_eq b2 _ (by omega) (by omega), ofNat_eq b3 _ (by omega) (by omega)]; rfl

/-- `decodeRune` is the inverse of `enc`: a non-error result `(c, w)` means that the input is
    `enc c ++ r` with `w = (enc c).length`. -/
theorem decodeRune_roundtrip (b0 : UInt8) (rest : Bytes)
    (h : ¬ ((decodeRune (b0 :: rest)).1 = runeError ∧ (decodeRune (b0 :: rest)).2 = 1)) :
    ∃ c r, Sc c ∧ b0 :: rest = enc c ++ r ∧ decodeRune (b0 :: rest) = (c, (enc c).length) := by
  obtain ⟨c, r, hs, he⟩ := decodeRune_shape_enc b0 rest h
  exact ⟨c, r, hs, he, by rw [he, decodeRune_enc c hs]⟩

/-- Encodings are prefix-free and determined by the code point. -/
theorem enc_prefix_free {d x : Nat} (hd : Sc d) (hx : Sc x) {t1 t2 : Bytes}
    (h : enc d ++ t1 = enc x ++ t2) : d = x := by
  have h1 := decodeRune_enc d hd t1
  rw [h, decodeRune_enc x hx t2] at h1
  exact (Prod.mk.inj h1).1.symm

theorem enc_inj {d x : Nat} (hd : Sc d) (hx : Sc x) (h : enc d = enc x) : d = x :=
  enc_prefix_free hd hx (t1 := []) (t2 := []) (by rw [h])

theorem encs_inj : ∀ {a b : List Nat}, AllSc a → AllSc b → encs a = encs b → a = b := by
  intro a
  induction a with
  | nil =>
    intro b _ _ h
    exact (encs_eq_nil.1 h.symm).symm
  | cons x a ih =>
    intro b ha hb h
    cases b with
    | nil => exact absurd (encs_eq_nil.1 h) (by simp)
    | cons y b =>
      simp only [encs_cons] at h
      have hxy := enc_prefix_free ha.cons.1 hb.cons.1 h
      subst hxy
      rw [ih ha.cons.2 hb.cons.2 (List.append_cancel_left h)]

theorem drop_enc (c : Nat) (t : Bytes) : (enc c ++ t).drop (enc c).length = t :=
  List.drop_left

/-! ### the first byte of an encoding -/

/-- `b` is the first byte of the encoding of `c`. -/
def Hd (c : Nat) (b : UInt8) : Prop := (c < 128 ∧ b.toNat = c) ∨ (128 ≤ c ∧ 128 ≤ b.toNat)

theorem enc_head (c : Nat) (hs : Sc c) :
    ∃ b tl, enc c = b :: tl ∧ Hd c b ∧ (∀ x ∈ tl, 128 ≤ x.toNat) ∧ (c < 128 → tl = []) := by
  rcases enc_cases c hs with ⟨h1, h2⟩ | ⟨h1, h2⟩
  · refine ⟨UInt8.ofNat c, [], h2, Or.inl ⟨h1, ?_⟩, by simp, fun _ => rfl⟩
    simp; omega
  · cases he : enc c with
    | nil => exact absurd he (enc_ne_nil c)
    | cons b tl =>
      rw [he] at h2
      exact ⟨b, tl, rfl, Or.inr ⟨h1, h2 b (by simp)⟩, fun x hx => h2 x (by simp [hx]),
        fun h => by omega⟩

/-- The first byte is a given ASCII byte exactly when the code point is that character. -/
theorem Hd.eq_iff {c : Nat} {b : UInt8} (h : Hd c b) (k : UInt8) (hk : k.toNat < 128) :
    b = k ↔ c = k.toNat := by
  rw [u8_eq_iff]
  rcases h with ⟨h1, h2⟩ | ⟨h1, h2⟩ <;> omega

theorem Hd.eq_cStar {c : Nat} {b : UInt8} (h : Hd c b) : b = Glob.cStar ↔ c = GlobSpec.cStar :=
  h.eq_iff Glob.cStar (by decide)
theorem Hd.eq_cQuest {c : Nat} {b : UInt8} (h : Hd c b) : b = Glob.cQuest ↔ c = GlobSpec.cQuest :=
  h.eq_iff Glob.cQuest (by decide)
theorem Hd.eq_cLBr {c : Nat} {b : UInt8} (h : Hd c b) : b = Glob.cLBr ↔ c = GlobSpec.cLBr :=
  h.eq_iff Glob.cLBr (by decide)
theorem Hd.eq_cRBr {c : Nat} {b : UInt8} (h : Hd c b) : b = Glob.cRBr ↔ c = GlobSpec.cRBr :=
  h.eq_iff Glob.cRBr (by decide)
theorem Hd.eq_cCaret {c : Nat} {b : UInt8} (h : Hd c b) : b = Glob.cCaret ↔ c = GlobSpec.cCaret :=
  h.eq_iff Glob.cCaret (by decide)
theorem Hd.eq_cDash {c : Nat} {b : UInt8} (h : Hd c b) : b = Glob.cDash ↔ c = GlobSpec.cDash :=
  h.eq_iff Glob.cDash (by decide)
theorem Hd.eq_cBsl {c : Nat} {b : UInt8} (h : Hd c b) : b = Glob.cBsl ↔ c = GlobSpec.cBsl :=
  h.eq_iff Glob.cBsl (by decide)

@[simp] theorem enc_cStar : enc GlobSpec.cStar = [Glob.cStar] := by decide
@[simp] theorem enc_cQuest : enc GlobSpec.cQuest = [Glob.cQuest] := by decide
@[simp] theorem enc_cLBr : enc GlobSpec.cLBr = [Glob.cLBr] := by decide
@[simp] theorem enc_cRBr : enc GlobSpec.cRBr = [Glob.cRBr] := by decide
@[simp] theorem enc_cCaret : enc GlobSpec.cCaret = [Glob.cCaret] := by decide
@[simp] theorem enc_cDash : enc GlobSpec.cDash = [Glob.cDash] := by decide
@[simp] theorem enc_cBsl : enc GlobSpec.cBsl = [Glob.cBsl] := by decide

theorem sc_cStar : Sc GlobSpec.cStar := by unfold Sc GlobSpec.cStar; omega
theorem sc_cQuest : Sc GlobSpec.cQuest := by unfold Sc GlobSpec.cQuest; omega
theorem sc_cLBr : Sc GlobSpec.cLBr := by unfold Sc GlobSpec.cLBr; omega
theorem sc_cRBr : Sc GlobSpec.cRBr := by unfold Sc GlobSpec.cRBr; omega
theorem sc_cCaret : Sc GlobSpec.cCaret := by unfold Sc GlobSpec.cCaret; omega
theorem sc_cDash : Sc GlobSpec.cDash := by unfold Sc GlobSpec.cDash; omega
theorem sc_cBsl : Sc GlobSpec.cBsl := by unfold Sc GlobSpec.cBsl; omega

/-- Bytes `≥ 0x80` are none of the special characters. -/
theorem high_ne_special {x : UInt8} (h : 128 ≤ x.toNat) :
    x ≠ Glob.cStar ∧ x ≠ Glob.cQuest ∧ x ≠ Glob.cLBr ∧ x ≠ Glob.cRBr ∧ x ≠ Glob.cCaret ∧
      x ≠ Glob.cDash ∧ x ≠ Glob.cBsl := by
  refine ⟨?_, ?_, ?_, ?_, ?_, ?_, ?_⟩ <;> intro he <;> subst he <;> revert h <;> decide

end InToto.GlobUtf8

