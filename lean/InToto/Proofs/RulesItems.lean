import InToto.Proofs.Rules
import InToto.Proofs.RulesMore

/-!
C03 at the level of `VerifyArtifacts`: one item (a step or an inspection) is verified in two rounds —
its material rules over the material queue, then its product rules over the product queue — against
the sets created / deleted / modified computed from its own link; a list of items is verified item by
item.  On links with clean artifact names this is exactly the specification's queue algorithm `run`.
-/

namespace InToto.RulesItems
open InToto InToto.Rules InToto.RulesSpec InToto.RulesProofs

/-- the material queue, the product queue and the three difference sets of a link, as `verifyItem` computes them -/
def matQueue (l : LinkArts) : List Str := dedup ((artsKeys l.materials).map Path.clean)
def prodQueue (l : LinkArts) : List Str := dedup ((artsKeys l.products).map Path.clean)
def createdOf (l : LinkArts) : List Str := sdiff (prodQueue l) (matQueue l)
def deletedOf (l : LinkArts) : List Str := sdiff (matQueue l) (prodQueue l)
def modifiedOf (l : LinkArts) : List Str :=
  (sinter (matQueue l) (prodQueue l)).filter fun n => artsGet l.materials n != artsGet l.products n

/-- the environment one round of an item is evaluated in -/
def itemEnv (glob : Str → Str → Bool) (ctx : Ctx) (name : Str) (l : LinkArts) (t : ArtType) : Env :=
  { glob := glob, ctx := ctx, srcName := name, srcType := t,
    created := createdOf l, deleted := deletedOf l, modified := modifiedOf l }

/-- the specification of one item: it has a link, both rule lists parse, and the queue algorithm
    accepts the material rules over the materials and the product rules over the products -/
def ItemOK (glob : Str → Str → Bool) (ctx : Ctx) (item : Item) : Prop :=
  ∃ l, lookup item.name ctx = some (some l) ∧
    (∃ rs q', parseAll item.expMaterials = some rs ∧ run (itemEnv glob ctx item.name l .materials) rs (matQueue l) = some q') ∧
    (∃ rs q', parseAll item.expProducts = some rs ∧ run (itemEnv glob ctx item.name l .products) rs (prodQueue l) = some q')

/-! ### helper lemmas -/

theorem mem_dedup (a : Str) (l : List Str) : a ∈ dedup l ↔ a ∈ l := by
  induction l with
  | nil => simp [dedup]
  | cons b t ih =>
    unfold dedup
    by_cases hb : b ∈ t
    · rw [if_pos hb, ih, List.mem_cons]
      constructor
      · exact Or.inr
      · rintro (rfl | h)
        · exact hb
        · exact h
    · rw [if_neg hb, List.mem_cons, List.mem_cons, ih]

theorem map_clean_of_clean (a : Arts) (h : CleanArts a) :
    (artsKeys a).map Path.clean = artsKeys a := by
  unfold CleanArts at h
  generalize artsKeys a = ks at h
  induction ks with
  | nil => rfl
  | cons k t ih =>
    simp only [List.map]
    rw [h k (by simp), ih (fun k' hk' => h k' (by simp [hk']))]

theorem mem_queue_of_clean (a : Arts) (h : CleanArts a) (x : Str) :
    x ∈ dedup ((artsKeys a).map Path.clean) ↔ x ∈ artsKeys a := by
  rw [mem_dedup, map_clean_of_clean a h]

/-- the cleaned COPY of the item's own link that `verifyItem` computes everything from: both artifact
    maps cleaned (the link in the context is not written to) -/
def cleanLink (l : LinkArts) : LinkArts :=
  { materials := cleanArts l.materials, products := cleanArts l.products }

/-- `verifyItem` on an item that has a link, with the queues and difference sets named (ANY artifact
    names: they are computed from the cleaned copy of the item's own link; both rounds run on the
    context as it came) -/
theorem verifyItem_eq_gen (glob : Str → Str → Bool) (ctx : Ctx) (item : Item) (l : LinkArts)
    (hl : lookup item.name ctx = some (some l)) :
    verifyItem glob ctx item =
      match applyRules glob item.name .materials (createdOf (cleanLink l)) (deletedOf (cleanLink l))
          (modifiedOf (cleanLink l)) item.expMaterials (matQueue (cleanLink l)) ctx with
      | .ok (_, ctx1) =>
        match applyRules glob item.name .products (createdOf (cleanLink l)) (deletedOf (cleanLink l))
            (modifiedOf (cleanLink l)) item.expProducts (prodQueue (cleanLink l)) ctx1 with
        | .ok (_, ctx2) => .ok ctx2
        | .err e => .err e
        | .panic e => .panic e
      | .err e => .err e
      | .panic e => .panic e := by
  unfold verifyItem
  rw [hl]
  rfl

theorem mem_of_lookup {β} (k : Str) (l : List (Str × β)) (v : β) (h : lookup k l = some v) :
    (k, v) ∈ l := by
  induction l with
  | nil => cases h
  | cons e t ih =>
    obtain ⟨k', v'⟩ := e
    unfold lookup at h
    split at h
    · cases h; subst k'; exact List.mem_cons_self ..
    · exact List.mem_cons_of_mem _ (ih h)

/-- on a link with clean names the clean-up of the item's own link is the identity -/
theorem cleanLink_of_clean (l : LinkArts) (hm : CleanArts l.materials) (hp : CleanArts l.products) :
    cleanLink l = l := by
  unfold cleanLink
  rw [cleanArts_of_clean _ hm, cleanArts_of_clean _ hp]

/-- `verifyItem` on an item that has a link with clean names, with the queues and difference sets named -/
theorem verifyItem_eq (glob : Str → Str → Bool) (ctx : Ctx) (h : CleanCtx ctx) (item : Item) (l : LinkArts)
    (hl : lookup item.name ctx = some (some l)) :
    verifyItem glob ctx item =
      match applyRules glob item.name .materials (createdOf l) (deletedOf l) (modifiedOf l)
          item.expMaterials (matQueue l) ctx with
      | .ok (_, ctx1) =>
        match applyRules glob item.name .products (createdOf l) (deletedOf l) (modifiedOf l)
            item.expProducts (prodQueue l) ctx1 with
        | .ok (_, ctx2) => .ok ctx2
        | .err e => .err e
        | .panic e => .panic e
      | .err e => .err e
      | .panic e => .panic e := by
  have hc := h _ (mem_of_lookup _ _ _ hl) l rfl
  rw [verifyItem_eq_gen glob ctx item l hl, cleanLink_of_clean l hc.1 hc.2]

/-- `applyRules_spec` as a case distinction: either the rules parse and the specification's `run`
    accepts, and then the loop returns the remaining queue and the SAME context; or not, and then
    the loop does not succeed -/
theorem applyRules_cases (E : Env) (h : CleanCtx E.ctx) (rules : List (List Str)) (q : List Str) :
    (∃ rs q', parseAll rules = some rs ∧ run E rs q = some q' ∧
        applyRules E.glob E.srcName E.srcType E.created E.deleted E.modified rules q E.ctx
          = .ok (q', E.ctx)) ∨
    ((¬ ∃ rs q', parseAll rules = some rs ∧ run E rs q = some q') ∧
        (applyRules E.glob E.srcName E.srcType E.created E.deleted E.modified rules q E.ctx).isOk
          = false) := by
  have hs := applyRules_spec E h rules q
  cases hp : parseAll rules with
  | none =>
    right
    rw [hp] at hs
    refine ⟨?_, ?_⟩
    · rintro ⟨rs, q', h1, _⟩; cases h1
    · cases ha : applyRules E.glob E.srcName E.srcType E.created E.deleted E.modified rules q E.ctx with
      | ok x => rw [ha] at hs; simp [toOption] at hs
      | err e => rfl
      | panic e => rfl
  | some rs =>
    rw [hp] at hs
    cases hr : run E rs q with
    | none =>
      right
      refine ⟨?_, ?_⟩
      · rintro ⟨rs', q', h1, h2⟩
        cases h1
        rw [hr] at h2
        cases h2
      · cases ha : applyRules E.glob E.srcName E.srcType E.created E.deleted E.modified rules q E.ctx with
        | ok x => rw [ha] at hs; simp [toOption, hr] at hs
        | err e => rfl
        | panic e => rfl
    | some q' =>
      left
      refine ⟨rs, q', rfl, hr, ?_⟩
      cases ha : applyRules E.glob E.srcName E.srcType E.created E.deleted E.modified rules q E.ctx with
      | ok x =>
        rw [ha] at hs
        simp [toOption, hr] at hs
        rw [hs]
      | err e => rw [ha] at hs; simp [toOption, hr] at hs
      | panic e => rw [ha] at hs; simp [toOption, hr] at hs

/-- C03 (one item): on clean links `verifyItem` succeeds exactly when the item meets the
    specification, and it leaves the links untouched -/
theorem verifyItem_spec (glob : Str → Str → Bool) (ctx : Ctx) (h : CleanCtx ctx) (item : Item) :
    (∀ ctx', verifyItem glob ctx item = .ok ctx' → ctx' = ctx) ∧
    ((verifyItem glob ctx item).isOk = true ↔ ItemOK glob ctx item) := by
  cases hl : lookup item.name ctx with
  | none =>
    have hv : verifyItem glob ctx item = .err "no-link-for-item" := by
      unfold verifyItem; rw [hl]
    rw [hv]
    refine ⟨fun ctx' h' => (by cases h'), ?_, ?_⟩
    · intro h'; cases h'
    · rintro ⟨l, h1, _⟩; rw [hl] at h1; cases h1
  | some o =>
    cases o with
    | none =>
      have hv : verifyItem glob ctx item = .err "invalid-metadata" := by
        unfold verifyItem; rw [hl]
      rw [hv]
      refine ⟨fun ctx' h' => (by cases h'), ?_, ?_⟩
      · intro h'; cases h'
      · rintro ⟨l, h1, _⟩; rw [hl] at h1; cases h1
    | some l =>
      rw [verifyItem_eq glob ctx h item l hl]
      have hI : ItemOK glob ctx item ↔
          (∃ rs q', parseAll item.expMaterials = some rs ∧
              run (itemEnv glob ctx item.name l .materials) rs (matQueue l) = some q') ∧
          (∃ rs q', parseAll item.expProducts = some rs ∧
              run (itemEnv glob ctx item.name l .products) rs (prodQueue l) = some q') := by
        constructor
        · rintro ⟨l', h1, h2⟩
          rw [hl] at h1
          cases h1
          exact h2
        · intro h2
          exact ⟨l, hl, h2⟩
      rw [hI]
      rcases applyRules_cases (itemEnv glob ctx item.name l .materials) h item.expMaterials (matQueue l)
        with ⟨rs, q', hp, hr, ha⟩ | ⟨hn, ha⟩
      · change applyRules glob item.name .materials (createdOf l) (deletedOf l) (modifiedOf l)
            item.expMaterials (matQueue l) ctx = .ok (q', ctx) at ha
        rw [ha]
        simp only
        rcases applyRules_cases (itemEnv glob ctx item.name l .products) h item.expProducts (prodQueue l)
          with ⟨rs2, q2, hp2, hr2, ha2⟩ | ⟨hn2, ha2⟩
        · change applyRules glob item.name .products (createdOf l) (deletedOf l) (modifiedOf l)
              item.expProducts (prodQueue l) ctx = .ok (q2, ctx) at ha2
          rw [ha2]
          simp only
          refine ⟨fun ctx' h' => (by cases h'; rfl), ?_, ?_⟩
          · intro _
            exact ⟨⟨rs, q', hp, hr⟩, ⟨rs2, q2, hp2, hr2⟩⟩
          · intro _
            rfl
        · change (applyRules glob item.name .products (createdOf l) (deletedOf l) (modifiedOf l)
              item.expProducts (prodQueue l) ctx).isOk = false at ha2
          generalize applyRules glob item.name .products (createdOf l) (deletedOf l) (modifiedOf l)
              item.expProducts (prodQueue l) ctx = x at ha2
          cases x with
          | ok y => cases ha2
          | err e =>
            simp only
            refine ⟨fun ctx' h' => (by cases h'), ?_, ?_⟩
            · intro h'; cases h'
            · intro h'; exact absurd h'.2 hn2
          | panic e =>
            simp only
            refine ⟨fun ctx' h' => (by cases h'), ?_, ?_⟩
            · intro h'; cases h'
            · intro h'; exact absurd h'.2 hn2
      · change (applyRules glob item.name .materials (createdOf l) (deletedOf l) (modifiedOf l)
            item.expMaterials (matQueue l) ctx).isOk = false at ha
        generalize applyRules glob item.name .materials (createdOf l) (deletedOf l) (modifiedOf l)
            item.expMaterials (matQueue l) ctx = x at ha
        cases x with
        | ok y => cases ha
        | err e =>
          simp only
          refine ⟨fun ctx' h' => (by cases h'), ?_, ?_⟩
          · intro h'; cases h'
          · intro h'; exact absurd h'.1 hn
        | panic e =>
          simp only
          refine ⟨fun ctx' h' => (by cases h'), ?_, ?_⟩
          · intro h'; cases h'
          · intro h'; exact absurd h'.1 hn

/-- C03 (all items): on clean links `VerifyArtifacts` succeeds exactly when EVERY item meets the
    specification; the links are untouched -/
theorem verifyArtifacts_spec (glob : Str → Str → Bool) (items : List Item) (ctx : Ctx) (h : CleanCtx ctx) :
    (∀ ctx', verifyArtifacts glob items ctx = .ok ctx' → ctx' = ctx) ∧
    ((verifyArtifacts glob items ctx).isOk = true ↔ ∀ item ∈ items, ItemOK glob ctx item) := by
  induction items with
  | nil =>
    refine ⟨fun ctx' h' => (by cases h'; rfl), ?_, ?_⟩
    · intro _ item hi; cases hi
    · intro _; rfl
  | cons item rest ih =>
    obtain ⟨hctx, hok⟩ := verifyItem_spec glob ctx h item
    unfold verifyArtifacts
    cases hv : verifyItem glob ctx item with
    | ok ctx1 =>
      have e : ctx1 = ctx := hctx ctx1 hv
      subst e
      simp only
      rw [hv] at hok
      have hitem : ItemOK glob ctx1 item := hok.1 rfl
      refine ⟨ih.1, ?_, ?_⟩
      · intro h' it hit
        rcases List.mem_cons.1 hit with rfl | hit
        · exact hitem
        · exact ih.2.1 h' it hit
      · intro h'
        exact ih.2.2 (fun it hit => h' it (List.mem_cons_of_mem _ hit))
    | err e =>
      simp only
      rw [hv] at hok
      refine ⟨fun ctx' h' => (by cases h'), ?_, ?_⟩
      · intro h'; cases h'
      · intro h'
        have := hok.2 (h' item (List.mem_cons_self ..))
        cases this
    | panic e =>
      simp only
      rw [hv] at hok
      refine ⟨fun ctx' h' => (by cases h'), ?_, ?_⟩
      · intro h'; cases h'
      · intro h'
        have := hok.2 (h' item (List.mem_cons_self ..))
        cases this

/-- an item without a link, or whose payload is not a link, fails -/
theorem item_without_link_fails (glob : Str → Str → Bool) (ctx : Ctx) (item : Item)
    (h : lookup item.name ctx = none ∨ lookup item.name ctx = some none) :
    (verifyItem glob ctx item).isOk = false := by
  unfold verifyItem
  rcases h with h | h <;> rw [h] <;> rfl

/-- C03 ("created / deleted / modified"): membership in the three difference sets, for clean links:
    created = a product that is no material, deleted = a material that is no product, modified = in
    both with different hash objects -/
theorem difference_sets (l : LinkArts) (hm : CleanArts l.materials) (hp : CleanArts l.products) (a : Str) :
    (a ∈ createdOf l ↔ a ∈ artsKeys l.products ∧ a ∉ artsKeys l.materials) ∧
    (a ∈ deletedOf l ↔ a ∈ artsKeys l.materials ∧ a ∉ artsKeys l.products) ∧
    (a ∈ modifiedOf l ↔ a ∈ artsKeys l.materials ∧ a ∈ artsKeys l.products ∧ artsGet l.materials a ≠ artsGet l.products a) := by
  have hM : ∀ x, x ∈ matQueue l ↔ x ∈ artsKeys l.materials := mem_queue_of_clean _ hm
  have hP : ∀ x, x ∈ prodQueue l ↔ x ∈ artsKeys l.products := mem_queue_of_clean _ hp
  refine ⟨?_, ?_, ?_⟩
  · unfold createdOf sdiff
    rw [List.mem_filter, hP]
    simp only [Bool.not_eq_true', List.contains_eq_mem, decide_eq_false_iff_not, hM]
  · unfold deletedOf sdiff
    rw [List.mem_filter, hM]
    simp only [Bool.not_eq_true', List.contains_eq_mem, decide_eq_false_iff_not, hP]
  · unfold modifiedOf sinter
    rw [List.mem_filter, List.mem_filter, hM]
    simp only [List.contains_eq_mem, decide_eq_true_eq, hP, bne_iff_ne, and_assoc]

/-- the order of the items does not matter on clean links (the context is never changed) -/
theorem verifyArtifacts_perm (glob : Str → Str → Bool) (items₁ items₂ : List Item) (ctx : Ctx) (h : CleanCtx ctx)
    (hp : items₁.Perm items₂) :
    (verifyArtifacts glob items₁ ctx).isOk = (verifyArtifacts glob items₂ ctx).isOk := by
  rw [Bool.eq_iff_iff, (verifyArtifacts_spec glob items₁ ctx h).2, (verifyArtifacts_spec glob items₂ ctx h).2]
  constructor
  · intro h' it hit; exact h' it (hp.mem_iff.2 hit)
  · intro h' it hit; exact h' it (hp.mem_iff.1 hit)

end InToto.RulesItems
