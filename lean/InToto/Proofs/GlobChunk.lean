import InToto.Proofs.GlobScan
import InToto.Proofs.GlobSpecFuel

/-!
Chunk level: a chunk is a sequence of tokens, each of which denotes one non-star item.
`matchChunkAux` (model), `parsePat` (spec) and `scan` are characterised on such sequences.
-/
namespace InToto.GlobProofs
open InToto.Glob InToto.GlobSpec

/-- One token of a chunk and the item it denotes.  With `st = true` an unescaped `*` is allowed
    as a literal (this is how `matchChunk` treats it; `scanChunk` never produces such chunks). -/
inductive Tok (st : Bool) : Bytes → Item → Prop where
  | any : Tok st [Glob.cQuest] Item.any
  | lit (c : UInt8) : c < 128 → c ≠ Glob.cQuest → c ≠ Glob.cLBr → c ≠ Glob.cBsl →
      (c = Glob.cStar → st = true) → Tok st [c] (Item.lit c.toNat)
  | esc (x : UInt8) : x < 128 → Tok st [Glob.cBsl, x] (Item.lit x.toNat)
  | cls {body : Bytes} {rs : List (Nat × Nat)} : CBody false body rs →
      (∀ tl, body ≠ Glob.cCaret :: tl) → Tok st (Glob.cLBr :: body) (Item.cls false rs)
  | ncls {body : Bytes} {rs : List (Nat × Nat)} : CBody false body rs →
      Tok st (Glob.cLBr :: Glob.cCaret :: body) (Item.cls true rs)

inductive Chunk (st : Bool) : Bytes → List Item → Prop where
  | nil : Chunk st [] []
  | cons {t : Bytes} {it : Item} {c : Bytes} {its : List Item} :
      Tok st t it → Chunk st c its → Chunk st (t ++ c) (it :: its)

theorem Tok.ne_star {st : Bool} {t : Bytes} {it : Item} (h : Tok st t it) : it ≠ Item.star := by
  cases h <;> simp

theorem Tok.length_pos {st : Bool} {t : Bytes} {it : Item} (h : Tok st t it) : 0 < t.length := by
  cases h <;> simp

theorem Chunk.length_le {st : Bool} {c : Bytes} {its : List Item} (h : Chunk st c its) :
    its.length ≤ c.length := by
  induction h with
  | nil => simp
  | cons ht _ ih =>
    have := ht.length_pos
    simp only [List.length_cons, List.length_append]; omega

theorem Chunk.no_star {st : Bool} {c : Bytes} {its : List Item} (h : Chunk st c its) :
    ∀ it ∈ its, it ≠ Item.star := by
  induction h with
  | nil => intro it h; cases h
  | cons ht _ ih =>
    intro it hit
    rcases List.mem_cons.1 hit with h | h
    · exact h ▸ ht.ne_star
    · exact ih it h

/-! ### model -/

/-- The optional `^` after `[` (model side). -/
def classStart (crest : Bytes) : Bool × Bytes :=
  match crest with
  | x :: t => if x == Glob.cCaret then (true, t) else (false, crest)
  | [] => (false, crest)

theorem matchChunkAux_cons (f : Nat) (c : UInt8) (crest s : Bytes) (failed0 : Bool) :
    matchChunkAux (f + 1) (c :: crest) s failed0 =
      let failed := failed0 || s.isEmpty
      if c == Glob.cLBr then
        let rs : Nat × Bytes :=
          if !failed then (let d := decodeRune s; (d.1, s.drop d.2)) else (0, s)
        let nc : Bool × Bytes := classStart crest
        match parseRanges (nc.2.length + 1) nc.2 rs.1 false 0 with
        | none => .bad
        | some (m, chunk2) =>
          matchChunkAux f chunk2 rs.2 (failed || (m == nc.1))
      else if c == Glob.cQuest then
        let s' := if !failed then s.drop (decodeRune s).2 else s
        matchChunkAux f crest s' failed
      else
        let lit : Bytes := if c == Glob.cBsl then crest else c :: crest
        match lit with
        | [] => .bad
        | d :: drest =>
          if !failed then
            match s with
            | x :: xs => matchChunkAux f drest xs (d != x)
            | [] => matchChunkAux f drest s true
          else matchChunkAux f drest s failed := by
  rfl

theorem matchChunkAux_nil (f : Nat) (s : Bytes) (failed0 : Bool) :
    matchChunkAux (f + 1) [] s failed0 = if failed0 then .nomatch else .ok s := by
  rfl

/-- Effect of one item on the state `(remaining name, failed)` of `matchChunk`. -/
def stepRes (it : Item) (s : Bytes) (f : Bool) : Bytes × Bool :=
  if f then (s, true)
  else
    match s with
    | [] => ([], true)
    | x :: xs => (xs, !itemMatches it x.toNat)

theorem stepRes_ascii (it : Item) (s : Bytes) (f : Bool) (hs : Ascii s) :
    Ascii (stepRes it s f).1 := by
  unfold stepRes
  split
  · exact hs
  · split
    · exact ascii_nil
    · exact hs.cons.2

theorem bne_toNat (d x : UInt8) : (d != x) = !(d.toNat == x.toNat) := by
  by_cases h : d = x
  · subst h; simp only [bne_self_eq_false, beq_self_eq_true, Bool.not_true]
  · have h2 : d.toNat ≠ x.toNat := fun h' => h (UInt8.toNat_inj.1 h')
    have e1 : (d != x) = true := by simpa using h
    have e2 : (d.toNat == x.toNat) = false := by simpa using h2
    rw [e1, e2]; rfl

theorem matchChunkAux_tok {st : Bool} {t : Bytes} {it : Item} (h : Tok st t it)
    (F : Nat) (c s : Bytes) (f : Bool) (hs : Ascii s) :
    matchChunkAux (F + 1) (t ++ c) s f =
      matchChunkAux F c (stepRes it s f).1 (stepRes it s f).2 := by
  cases h with
  | any =>
    rw [List.cons_append, matchChunkAux_cons]
    cases f with
    | true => simp [stepRes, Glob.cQuest, Glob.cLBr]
    | false =>
      cases s with
      | nil => simp [stepRes, Glob.cQuest, Glob.cLBr]
      | cons x xs =>
        simp [stepRes, Glob.cQuest, Glob.cLBr, decodeRune_ascii x xs hs.cons.1, itemMatches]
  | lit a ha h1 h2 h3 h4 =>
    rw [List.cons_append, matchChunkAux_cons]
    cases f with
    | true => simp [stepRes, h1, h2, h3]
    | false =>
      cases s with
      | nil => simp [stepRes, h1, h2, h3]
      | cons x xs => simp [stepRes, h1, h2, h3, itemMatches, bne_toNat]
  | esc a ha =>
    rw [List.cons_append, matchChunkAux_cons]
    cases f with
    | true => simp [stepRes, Glob.cBsl, Glob.cQuest, Glob.cLBr]
    | false =>
      cases s with
      | nil => simp [stepRes, Glob.cBsl, Glob.cQuest, Glob.cLBr]
      | cons x xs => simp [stepRes, Glob.cBsl, Glob.cQuest, Glob.cLBr, itemMatches, bne_toNat]
  | @cls body rs hb hne =>
    rw [List.cons_append, matchChunkAux_cons]
    have hcs : classStart (body ++ c) = (false, body ++ c) := by
      obtain ⟨d, tl, rfl, _, _⟩ := hb.head
      have : d ≠ Glob.cCaret := fun h => hne tl (by rw [h])
      simp [classStart, this]
    have hpr : ∀ r, parseRanges ((body ++ c).length + 1) (body ++ c) r false 0 =
        some (inRanges rs r, c) := by
      intro r
      have := parseRanges_cbody hb ((body ++ c).length + 1) c r false 0 (by simp)
        (by simp only [List.length_append]; omega)
      simpa using this
    simp only [hcs, hpr, beq_self_eq_true, ↓reduceIte]
    cases f with
    | true => simp [stepRes]
    | false =>
      cases s with
      | nil => simp [stepRes]
      | cons x xs =>
        simp only [stepRes, decodeRune_ascii x xs hs.cons.1, itemMatches]
        cases hir : inRanges rs x.toNat <;> simp [hir]
  | @ncls body rs hb =>
    rw [List.cons_append, matchChunkAux_cons]
    have hcs : classStart (Glob.cCaret :: body ++ c) = (true, body ++ c) := by
      simp [classStart]
    have hpr : ∀ r, parseRanges ((body ++ c).length + 1) (body ++ c) r false 0 =
        some (inRanges rs r, c) := by
      intro r
      have := parseRanges_cbody hb ((body ++ c).length + 1) c r false 0 (by simp)
        (by simp only [List.length_append]; omega)
      simpa using this
    simp only [hcs, hpr, beq_self_eq_true, ↓reduceIte]
    cases f with
    | true => simp [stepRes]
    | false =>
      cases s with
      | nil => simp [stepRes]
      | cons x xs =>
        simp only [stepRes, decodeRune_ascii x xs hs.cons.1, itemMatches]
        cases hir : inRanges rs x.toNat <;> simp [hir]

/-- Item-wise matching of a prefix of the name; returns the unconsumed rest. -/
def prefixMatch : List Item → Bytes → Option Bytes
  | [], s => some s
  | _ :: _, [] => none
  | it :: its, x :: xs => if itemMatches it x.toNat then prefixMatch its xs else none

def chunkRes (its : List Item) (s : Bytes) (f : Bool) : ChunkRes :=
  if f then .nomatch
  else
    match prefixMatch its s with
    | some t => .ok t
    | none => .nomatch

theorem chunkRes_step (it : Item) (its : List Item) (s : Bytes) (f : Bool) :
    chunkRes its (stepRes it s f).1 (stepRes it s f).2 = chunkRes (it :: its) s f := by
  cases f with
  | true => simp [stepRes, chunkRes]
  | false =>
    cases s with
    | nil => simp [stepRes, chunkRes, prefixMatch]
    | cons x xs =>
      cases h : itemMatches it x.toNat <;> simp [stepRes, chunkRes, prefixMatch, h]

/-- Model on a well-formed chunk. -/
theorem matchChunkAux_chunk {st : Bool} {c : Bytes} {its : List Item} (h : Chunk st c its) :
    ∀ (F : Nat) (s : Bytes) (f : Bool), Ascii s → c.length < F →
      matchChunkAux F c s f = chunkRes its s f := by
  induction h with
  | nil =>
    intro F s f _ hF
    cases F with
    | zero => simp at hF
    | succ F =>
      rw [matchChunkAux_nil]
      cases f <;> simp [chunkRes, prefixMatch]
  | @cons t it c its ht _ ih =>
    intro F s f hs hF
    cases F with
    | zero => simp at hF
    | succ F =>
      have := ht.length_pos
      rw [matchChunkAux_tok ht F c s f hs,
        ih F _ _ (stepRes_ascii it s f hs) (by simp only [List.length_append] at hF; omega),
        chunkRes_step]

theorem matchChunk_chunk {st : Bool} {c : Bytes} {its : List Item} (h : Chunk st c its)
    (s : Bytes) (hs : Ascii s) : matchChunk c s = chunkRes its s false :=
  matchChunkAux_chunk h _ s false hs (Nat.lt_succ_self _)

/-! ### spec -/

theorem parsePat_tok {t : Bytes} {it : Item} (h : Tok false t it) (z : List Nat) :
    parsePat (nat t ++ z) = (parsePat z).map (it :: ·) := by
  cases h with
  | any =>
    simp [nat, parsePat_cons, Glob.cQuest, GlobSpec.cQuest, GlobSpec.cStar]
  | lit a ha h1 h2 h3 h4 =>
    have h5 : a ≠ Glob.cStar := fun h => by simpa using h4 h
    simp [nat, parsePat_cons, h1, h2, h3, h5]
  | esc a ha =>
    simp [nat, parsePat_cons, Glob.cBsl, GlobSpec.cBsl, GlobSpec.cQuest, GlobSpec.cStar,
      GlobSpec.cLBr]
  | @cls body rs hb hne =>
    have hcs : classStartS (nat body ++ z) = (false, nat body ++ z) := by
      obtain ⟨d, tl, rfl, _, _⟩ := hb.head
      have : d ≠ Glob.cCaret := fun h => hne tl (by rw [h])
      simp [classStartS, nat, this]
    have hpr := parseRangesS_cbody hb ((nat body ++ z).length + 1) z [] (by simp)
      (by simp only [nat, List.length_append, List.length_map]; omega)
    have hl : nat (Glob.cLBr :: body) ++ z = GlobSpec.cLBr :: (nat body ++ z) := by
      simp [nat, Glob.cLBr, GlobSpec.cLBr]
    rw [hl, parsePat_cons]
    simp only [hcs, hpr]
    simp [GlobSpec.cLBr, GlobSpec.cStar, GlobSpec.cQuest]
  | @ncls body rs hb =>
    have hcs : classStartS (GlobSpec.cCaret :: (nat body ++ z)) = (true, nat body ++ z) := by
      simp [classStartS]
    have hpr := parseRangesS_cbody hb ((nat body ++ z).length + 1) z [] (by simp)
      (by simp only [nat, List.length_append, List.length_map]; omega)
    have hl : nat (Glob.cLBr :: Glob.cCaret :: body) ++ z =
        GlobSpec.cLBr :: GlobSpec.cCaret :: (nat body ++ z) := by
      simp [nat, Glob.cLBr, GlobSpec.cLBr, Glob.cCaret, GlobSpec.cCaret]
    rw [hl, parsePat_cons]
    simp only [hcs, hpr]
    simp [GlobSpec.cLBr, GlobSpec.cStar, GlobSpec.cQuest]

theorem parsePat_chunk {c : Bytes} {its : List Item} (h : Chunk false c its) (z : List Nat) :
    parsePat (nat c ++ z) = (parsePat z).map (its ++ ·) := by
  induction h with
  | nil => simp [nat]
  | @cons t it c its ht _ ih =>
    have : nat (t ++ c) ++ z = nat t ++ (nat c ++ z) := by simp [nat]
    rw [this, parsePat_tok ht, ih]
    cases parsePat z <;> simp

theorem parsePat_star (z : List Nat) :
    parsePat (GlobSpec.cStar :: z) = (parsePat z).map (Item.star :: ·) := by
  simp [parsePat_cons]

/-! ### scan -/

theorem scan_tok {t : Bytes} {it : Item} (h : Tok false t it) (y : Bytes) :
    scan (t ++ y) false = t.length + scan y false := by
  cases h with
  | any => simp [scan_cons, Glob.cQuest, Glob.cBsl, Glob.cLBr, Glob.cRBr, Glob.cStar]
  | lit a ha h1 h2 h3 h4 =>
    have h5 : a ≠ Glob.cStar := fun h => by simpa using h4 h
    simp only [List.cons_append, List.nil_append, scan_cons, beq_iff_eq, h3, h2, h5, ↓reduceIte,
      List.length_cons, List.length_nil]
    split <;> omega
  | esc a ha => simp [scan_cons]
  | @cls body rs hb hne =>
    rw [List.cons_append, scan_cons]
    simp only [Glob.cLBr, Glob.cBsl, beq_self_eq_true, ↓reduceIte]
    rw [scan_cbody hb]
    simp only [List.length_cons]
    have : ((0x5B : UInt8) == 0x5C) = false := by decide
    simp only [this, Bool.false_eq_true, ↓reduceIte]
    omega
  | @ncls body rs hb =>
    rw [List.cons_append, scan_cons]
    have : ((0x5B : UInt8) == 0x5C) = false := by decide
    simp only [Glob.cLBr, Glob.cBsl, beq_self_eq_true, ↓reduceIte, this, Bool.false_eq_true]
    rw [List.cons_append, scan_cons]
    simp only [Glob.cCaret, Glob.cLBr, Glob.cBsl, Glob.cRBr, Glob.cStar]
    have e1 : ((0x5E : UInt8) == 0x5C) = false := by decide
    have e2 : ((0x5E : UInt8) == 0x5B) = false := by decide
    have e3 : ((0x5E : UInt8) == 0x5D) = false := by decide
    have e4 : ((0x5E : UInt8) == 0x2A) = false := by decide
    simp only [e1, e2, e3, e4, Bool.false_eq_true, ↓reduceIte]
    rw [scan_cbody hb]
    simp only [List.length_cons]
    omega

theorem scan_chunk {c : Bytes} {its : List Item} (h : Chunk false c its) (y : Bytes) :
    scan (c ++ y) false = c.length + scan y false := by
  induction h with
  | nil => simp
  | @cons t it c its ht _ ih =>
    rw [List.append_assoc, scan_tok ht, ih, List.length_append]; omega

theorem scan_star (y : Bytes) : scan (Glob.cStar :: y) false = 0 := by
  simp [scan_cons, Glob.cStar, Glob.cBsl, Glob.cLBr, Glob.cRBr]

/-! ### converses -/

theorem classStart_spec (crest : Bytes) :
    (∃ t, crest = Glob.cCaret :: t ∧ classStart crest = (true, t)) ∨
    ((∀ t, crest ≠ Glob.cCaret :: t) ∧ classStart crest = (false, crest)) := by
  cases crest with
  | nil => right; simp [classStart]
  | cons x t =>
    by_cases hx : x = Glob.cCaret
    · left; exact ⟨t, by rw [hx], by simp [classStart, hx]⟩
    · right
      refine ⟨?_, by simp [classStart, hx]⟩
      intro t' h
      exact hx (List.cons.inj h).1

/-- Model, converse: whatever `matchChunkAux` does not reject is a chunk (with `*` allowed as a
    literal). -/
theorem matchChunkAux_inv : ∀ (F : Nat) (c : Bytes), Ascii c → ∀ (s : Bytes) (f : Bool),
    matchChunkAux F c s f ≠ .bad → ∃ its, Chunk true c its := by
  intro F
  induction F with
  | zero => intro c _ s f h; exact absurd rfl h
  | succ F ih =>
    intro c hc s f h
    cases c with
    | nil => exact ⟨[], Chunk.nil⟩
    | cons x crest =>
      have hx := hc.cons.1
      have hcrest := hc.cons.2
      rw [matchChunkAux_cons] at h
      dsimp only at h
      split at h
      · rename_i hl
        simp only [beq_iff_eq] at hl
        subst hl
        split at h
        · exact absurd rfl h
        · rename_i m chunk2 hpr
          rcases classStart_spec crest with ⟨t, rfl, hcs⟩ | ⟨hne, hcs⟩
          · rw [hcs] at hpr h
            obtain ⟨body, rs, hb, hcb, _⟩ := parseRanges_inv _ _ hcrest.cons.2 _ _ _ _ _ hpr
            have hc2 : Ascii chunk2 := by
              have := hcrest.cons.2; rw [hb] at this; exact this.append_right
            obtain ⟨its, hch⟩ := ih chunk2 hc2 _ _ h
            refine ⟨Item.cls true rs :: its, ?_⟩
            have := Chunk.cons (Tok.ncls (st := true) (by simpa using hcb)) hch
            rw [hb]
            simpa using this
          · rw [hcs] at hpr h
            obtain ⟨body, rs, hb, hcb, _⟩ := parseRanges_inv _ _ hcrest _ _ _ _ _ hpr
            have hc2 : Ascii chunk2 := by
              have := hcrest; rw [hb] at this; exact this.append_right
            obtain ⟨its, hch⟩ := ih chunk2 hc2 _ _ h
            refine ⟨Item.cls false rs :: its, ?_⟩
            have hne' : ∀ tl, body ≠ Glob.cCaret :: tl := by
              intro tl hbt
              exact hne (tl ++ chunk2) (by rw [hb, hbt]; simp)
            have := Chunk.cons (Tok.cls (st := true) (by simpa using hcb) hne') hch
            rw [hb]
            simpa using this
      · rename_i hl
        simp only [beq_iff_eq] at hl
        split at h
        · rename_i hq
          simp only [beq_iff_eq] at hq
          subst hq
          obtain ⟨its, hch⟩ := ih crest hcrest _ _ h
          exact ⟨Item.any :: its, by simpa using Chunk.cons (Tok.any (st := true)) hch⟩
        · rename_i hq
          simp only [beq_iff_eq] at hq
          by_cases hb : x = Glob.cBsl
          · subst hb
            simp only [beq_self_eq_true, ↓reduceIte] at h
            cases crest with
            | nil => exact absurd rfl h
            | cons d drest =>
              have hrec : ∃ s' f', matchChunkAux F drest s' f' ≠ .bad := by
                dsimp only at h
                split at h
                · split at h
                  · exact ⟨_, _, h⟩
                  · exact ⟨_, _, h⟩
                · exact ⟨_, _, h⟩
              obtain ⟨s', f', h'⟩ := hrec
              obtain ⟨its, hch⟩ := ih drest hcrest.cons.2 _ _ h'
              exact ⟨Item.lit d.toNat :: its,
                by simpa using Chunk.cons (Tok.esc (st := true) d hcrest.cons.1) hch⟩
          · have hbf : (x == Glob.cBsl) = false := by simpa using hb
            simp only [hbf, Bool.false_eq_true, ↓reduceIte] at h
            have hrec : ∃ s' f', matchChunkAux F crest s' f' ≠ .bad := by
              split at h
              · split at h
                · exact ⟨_, _, h⟩
                · exact ⟨_, _, h⟩
              · exact ⟨_, _, h⟩
            obtain ⟨s', f', h'⟩ := hrec
            obtain ⟨its, hch⟩ := ih crest hcrest _ _ h'
            exact ⟨Item.lit x.toNat :: its,
              by simpa using Chunk.cons (Tok.lit (st := true) x hx hq hl hb (fun _ => rfl)) hch⟩

/-- A chunk that `scan` traverses completely has no top-level star. -/
theorem chunk_no_top_star {c : Bytes} {its : List Item} (h : Chunk true c its) :
    ∀ (y : Bytes), c.length ≤ scan (c ++ y) false → Chunk false c its := by
  induction h with
  | nil => intro _ _; exact Chunk.nil
  | @cons t it c its ht hc ih =>
    intro y hy
    have htok : Tok false t it := by
      cases ht with
      | any => exact Tok.any
      | lit a ha h1 h2 h3 h4 =>
        refine Tok.lit a ha h1 h2 h3 ?_
        intro hs
        subst hs
        simp only [List.cons_append, List.nil_append, scan_star, List.length_cons] at hy
        omega
      | esc a ha => exact Tok.esc a ha
      | cls hb hne => exact Tok.cls hb hne
      | ncls hb => exact Tok.ncls hb
    refine Chunk.cons htok (ih y ?_)
    rw [List.append_assoc, scan_tok htok] at hy
    simp only [List.length_append] at hy
    omega

theorem classStartS_spec (crest : Bytes) :
    (∃ t, crest = Glob.cCaret :: t ∧ classStartS (nat crest) = (true, nat t)) ∨
    ((∀ t, crest ≠ Glob.cCaret :: t) ∧ classStartS (nat crest) = (false, nat crest)) := by
  cases crest with
  | nil => right; simp [classStartS]
  | cons x t =>
    by_cases hx : x = Glob.cCaret
    · left; exact ⟨t, by rw [hx], by simp [classStartS, nat, hx]⟩
    · right
      refine ⟨?_, by simp [classStartS, nat, hx]⟩
      intro t' h
      exact hx (List.cons.inj h).1

/-- Spec, converse, one token. -/
theorem parsePat_tok_inv (x : UInt8) (p1 : Bytes) (hp : Ascii (x :: p1)) (hx : x ≠ Glob.cStar)
    (is : List Item) (h : parsePat (nat (x :: p1)) = some is) :
    ∃ t it z is1, x :: p1 = t ++ z ∧ Tok false t it ∧ parsePat (nat z) = some is1 ∧
      is = it :: is1 := by
  have hx1 := hp.cons.1
  have hp1 := hp.cons.2
  simp only [nat, List.map_cons] at h
  rw [parsePat_cons] at h
  simp only [toNat_eq_cStar, hx, ↓reduceIte, toNat_eq_cQuest, toNat_eq_cLBr, toNat_eq_cBsl] at h
  split at h
  · rename_i hq
    subst hq
    obtain ⟨is1, h1, h2⟩ := Option.map_eq_some_iff.1 h
    exact ⟨[Glob.cQuest], Item.any, p1, is1, rfl, Tok.any, h1, h2.symm⟩
  · rename_i hq
    split at h
    · rename_i hl
      subst hl
      split at h
      · cases h
      · rename_i rs rest' hpr
        obtain ⟨is1, h1, h2⟩ := Option.map_eq_some_iff.1 h
        rcases classStartS_spec p1 with ⟨t, rfl, hcs⟩ | ⟨hne, hcs⟩
        · have hcs' : classStartS (List.map UInt8.toNat (Glob.cCaret :: t)) = (true, nat t) := hcs
          rw [hcs'] at hpr h2
          obtain ⟨body, rs0, rest, hb, hrest, hcb, hrs⟩ :=
            parseRangesS_inv _ _ hp1.cons.2 _ _ _ hpr
          subst hrest
          simp only [List.reverse_nil, List.nil_append] at hrs
          subst hrs
          refine ⟨Glob.cLBr :: Glob.cCaret :: body, Item.cls true rs, rest, is1, by simp [hb],
            Tok.ncls (by simpa using hcb), h1, h2.symm⟩
        · have hcs' : classStartS (List.map UInt8.toNat p1) = (false, nat p1) := hcs
          rw [hcs'] at hpr h2
          obtain ⟨body, rs0, rest, hb, hrest, hcb, hrs⟩ := parseRangesS_inv _ _ hp1 _ _ _ hpr
          subst hrest
          simp only [List.reverse_nil, List.nil_append] at hrs
          subst hrs
          have hne' : ∀ tl, body ≠ Glob.cCaret :: tl := by
            intro tl hbt
            exact hne (tl ++ rest) (by rw [hb, hbt]; simp)
          refine ⟨Glob.cLBr :: body, Item.cls false rs, rest, is1, by simp [hb],
            Tok.cls (by simpa using hcb) hne', h1, h2.symm⟩
    · rename_i hl
      split at h
      · rename_i hb
        subst hb
        cases p1 with
        | nil => simp at h
        | cons d r =>
          simp only [List.map_cons] at h
          obtain ⟨is1, h1, h2⟩ := Option.map_eq_some_iff.1 h
          exact ⟨[Glob.cBsl, d], Item.lit d.toNat, r, is1, rfl, Tok.esc d hp1.cons.1, h1,
            h2.symm⟩
      · rename_i hb
        obtain ⟨is1, h1, h2⟩ := Option.map_eq_some_iff.1 h
        exact ⟨[x], Item.lit x.toNat, p1, is1, rfl,
          Tok.lit x hx1 hq hl hb (fun h => absurd h hx), h1, h2.symm⟩

/-- Spec, converse: a well-formed pattern splits into a first chunk and a rest that is empty or
    begins with a star. -/
theorem parsePat_chunk_inv : ∀ (n : Nat) (p : Bytes), p.length ≤ n → Ascii p →
    ∀ (is : List Item), parsePat (nat p) = some is →
    ∃ c its rest is', p = c ++ rest ∧ Chunk false c its ∧ is = its ++ is' ∧
      parsePat (nat rest) = some is' ∧ (rest = [] ∨ ∃ rest', rest = Glob.cStar :: rest') := by
  intro n
  induction n with
  | zero =>
    intro p hn _ is h
    have : p = [] := List.eq_nil_of_length_eq_zero (by omega)
    subst this
    exact ⟨[], [], [], is, rfl, Chunk.nil, rfl, h, Or.inl rfl⟩
  | succ n ih =>
    intro p hn hp is h
    cases p with
    | nil => exact ⟨[], [], [], is, rfl, Chunk.nil, rfl, h, Or.inl rfl⟩
    | cons x p1 =>
      by_cases hx : x = Glob.cStar
      · subst hx
        exact ⟨[], [], Glob.cStar :: p1, is, rfl, Chunk.nil, rfl, h, Or.inr ⟨p1, rfl⟩⟩
      · obtain ⟨t, it, z, is1, hsplit, htok, hz, his⟩ := parsePat_tok_inv x p1 hp hx is h
        have hzlen : z.length ≤ n := by
          have := congrArg List.length hsplit
          have := htok.length_pos
          simp only [List.length_cons, List.length_append] at *
          omega
        have hza : Ascii z := by rw [hsplit] at hp; exact hp.append_right
        obtain ⟨c, its, rest, is', hc, hch, hits, hrest, hform⟩ := ih z hzlen hza is1 hz
        refine ⟨t ++ c, it :: its, rest, is', ?_, Chunk.cons htok hch, ?_, hrest, hform⟩
        · rw [hsplit, hc]; simp
        · rw [his, hits]; simp

end InToto.GlobProofs
