import InToto.Model.Conc

namespace InToto.ConcProofs
open InToto.Conc

theorem runAlone_readonly {L S : Type} (a : List (StepFn L S)) (h : ∀ f ∈ a, ReadOnly f) (l : L) (s : S) :
    (runAlone a l s).2 = s := by
  induction a generalizing l with
  | nil => rfl
  | cons f rest ih =>
    simp only [runAlone]
    have hf := h f (by simp)
    rw [hf l s]
    exact ih (fun g hg => h g (by simp [hg])) _

/-- MAIN: if no step of either call writes the shared state, then under EVERY schedule each call
    ends with exactly the local result it has when run alone, and the shared state is untouched -/
theorem interleaving_equals_sequential {L S : Type} (sch : List Bool) (a b : List (StepFn L S))
    (ha : ∀ f ∈ a, ReadOnly f) (hb : ∀ f ∈ b, ReadOnly f) (la lb : L) (s : S) :
    runSched sch a b la lb s = ((runAlone a la s).1, (runAlone b lb s).1, s) := by
  induction sch generalizing a b la lb with
  | nil =>
    simp only [runSched]
    rw [runAlone_readonly a ha la s, runAlone_readonly b hb lb s]
  | cons c sch ih =>
    cases c with
    | true =>
      cases a with
      | nil => simp only [runSched]; exact ih [] b (by simp) hb la lb
      | cons f a' =>
        simp only [runSched, runAlone]
        have hf := ha f (by simp)
        rw [hf la s]
        exact ih a' b (fun g hg => ha g (by simp [hg])) hb _ lb
    | false =>
      cases b with
      | nil => simp only [runSched]; exact ih a [] ha (by simp) la lb
      | cons g b' =>
        simp only [runSched, runAlone]
        have hg := hb g (by simp)
        rw [hg lb s]
        exact ih a b' ha (fun f hf => hb f (by simp [hf])) la _

end InToto.ConcProofs
