import InToto.Proofs.GlobClass

/-!
`scanLoop`: fuel independence, offset independence, and its behaviour on class members and
class bodies.
-/
namespace InToto.GlobProofs
open InToto.Glob InToto.GlobSpec

theorem scanLoop_cons (f : Nat) (c : UInt8) (rest : Bytes) (inr : Bool) (i : Nat) :
    scanLoop (f + 1) (c :: rest) inr i =
      if c == Glob.cBsl then
        match rest with
        | _ :: rest' => scanLoop f rest' inr (i + 2)
        | [] => i + 1
      else if c == Glob.cLBr then scanLoop f rest true (i + 1)
      else if c == Glob.cRBr then scanLoop f rest false (i + 1)
      else if c == Glob.cStar then
        if !inr then i else scanLoop f rest inr (i + 1)
      else scanLoop f rest inr (i + 1) := by
  cases rest <;> rfl

theorem scanLoop_nil (f : Nat) (inr : Bool) (i : Nat) : scanLoop f [] inr i = i := by
  cases f <;> rfl

/-- Fuel and offset independence. -/
theorem scanLoop_fuel_offset : ∀ (n : Nat) (p : Bytes), p.length ≤ n →
    ∀ (F1 F2 : Nat) (inr : Bool) (i : Nat), p.length ≤ F1 → p.length ≤ F2 →
      scanLoop F1 p inr i = i + scanLoop F2 p inr 0 := by
  intro n
  induction n with
  | zero =>
    intro p hp F1 F2 inr i _ _
    have : p = [] := List.eq_nil_of_length_eq_zero (by omega)
    subst this
    simp [scanLoop_nil]
  | succ n ih =>
    intro p hp F1 F2 inr i h1 h2
    cases p with
    | nil => simp [scanLoop_nil]
    | cons c rest =>
      simp only [List.length_cons] at hp h1 h2
      cases F1 with
      | zero => omega
      | succ F1 =>
        cases F2 with
        | zero => omega
        | succ F2 =>
          rw [scanLoop_cons, scanLoop_cons]
          have hr1 : ∀ b j, scanLoop F1 rest b j = j + scanLoop n rest b 0 :=
            fun b j => ih rest (by omega) F1 n b j (by omega) (by omega)
          have hr2 : ∀ b j, scanLoop F2 rest b j = j + scanLoop n rest b 0 :=
            fun b j => ih rest (by omega) F2 n b j (by omega) (by omega)
          split
          · cases rest with
            | nil => simp
            | cons x rest' =>
              simp only [List.length_cons] at hp h1 h2
              dsimp only
              rw [ih rest' (by omega) F1 n inr (i + 2) (by omega) (by omega),
                ih rest' (by omega) F2 n inr (0 + 2) (by omega) (by omega)]
              omega
          · split
            · rw [hr1, hr2]; omega
            · split
              · rw [hr1, hr2]; omega
              · split
                · split
                  · rfl
                  · rw [hr1, hr2]; omega
                · rw [hr1, hr2]; omega

/-- Canonical scan: end index of the chunk starting at `p` in bracket state `inr`. -/
def scan (p : Bytes) (inr : Bool) : Nat := scanLoop p.length p inr 0

theorem scanLoop_eq_scan (F : Nat) (p : Bytes) (inr : Bool) (i : Nat) (h : p.length ≤ F) :
    scanLoop F p inr i = i + scan p inr :=
  scanLoop_fuel_offset p.length p (Nat.le_refl _) F p.length inr i h (Nat.le_refl _)

theorem scan_nil (inr : Bool) : scan [] inr = 0 := rfl

theorem scan_cons (c : UInt8) (rest : Bytes) (inr : Bool) :
    scan (c :: rest) inr =
      if c == Glob.cBsl then
        match rest with
        | _ :: rest' => 2 + scan rest' inr
        | [] => 1
      else if c == Glob.cLBr then 1 + scan rest true
      else if c == Glob.cRBr then 1 + scan rest false
      else if c == Glob.cStar then
        if !inr then 0 else 1 + scan rest inr
      else 1 + scan rest inr := by
  have h0 : scan (c :: rest) inr = scanLoop (rest.length + 1) (c :: rest) inr 0 := rfl
  rw [h0, scanLoop_cons]
  have hr : ∀ b, scanLoop rest.length rest b (0 + 1) = 1 + scan rest b :=
    fun b => by rw [scanLoop_eq_scan _ _ _ _ (Nat.le_refl _)]
  split
  · cases rest with
    | nil => rfl
    | cons x rest' =>
      dsimp only
      rw [scanLoop_eq_scan _ _ _ _ (by simp)]
  · split
    · rw [hr]
    · split
      · rw [hr]
      · split
        · split
          · rfl
          · rw [hr]
        · rw [hr]

theorem scan_member {t : Bytes} {lo : Nat} (h : Member t lo) (y : Bytes) :
    scan (t ++ y) true = t.length + scan y true := by
  cases h with
  | esc x hx =>
    simp [scan_cons]
  | plain c hc h1 h2 h3 =>
    simp only [List.cons_append, List.nil_append, scan_cons, beq_iff_eq, h3, h2, ↓reduceIte,
      Bool.not_true, Bool.false_eq_true, List.length_cons, List.length_nil]
    split <;> (try split) <;> omega

theorem scan_dash (y : Bytes) : scan (Glob.cDash :: y) true = 1 + scan y true := by
  simp [scan_cons, Glob.cDash, Glob.cBsl, Glob.cLBr, Glob.cRBr, Glob.cStar]

theorem scan_cbody {b : Bool} {body : Bytes} {rs : List (Nat × Nat)} (h : CBody b body rs)
    (y : Bytes) : scan (body ++ y) true = body.length + scan y false := by
  induction h with
  | close => simp [scan_cons, Glob.cBsl, Glob.cLBr, Glob.cRBr]
  | single b hm _ ih =>
    rw [List.append_assoc, scan_member hm, ih, List.length_append]; omega
  | range b h1 h2 _ ih =>
    rw [List.append_assoc, scan_member h1, List.cons_append, scan_dash, List.append_assoc,
      scan_member h2, ih]
    simp only [List.length_append, List.length_cons]; omega

/-- `scan` stops at the end of the pattern or at a star. -/
theorem scan_stop : ∀ (n : Nat) (p : Bytes), p.length ≤ n → ∀ (inr : Bool),
    scan p inr ≤ p.length ∧
      (p.drop (scan p inr) = [] ∨ ∃ r, p.drop (scan p inr) = Glob.cStar :: r) := by
  intro n
  induction n with
  | zero =>
    intro p hp inr
    have : p = [] := List.eq_nil_of_length_eq_zero (by omega)
    subst this
    simp [scan_nil]
  | succ n ih =>
    intro p hp inr
    cases p with
    | nil => simp [scan_nil]
    | cons c rest =>
      simp only [List.length_cons] at hp
      have hr : ∀ b, (1 + scan rest b) ≤ (c :: rest).length ∧
          ((c :: rest).drop (1 + scan rest b) = [] ∨
            ∃ r, (c :: rest).drop (1 + scan rest b) = Glob.cStar :: r) := by
        intro b
        have := ih rest (by omega) b
        rw [Nat.add_comm 1, List.drop_succ_cons]
        simp only [List.length_cons]
        exact ⟨by omega, this.2⟩
      rw [scan_cons]
      split
      · cases rest with
        | nil => simp
        | cons x rest' =>
          simp only [List.length_cons] at hp
          have := ih rest' (by omega) inr
          dsimp only
          rw [Nat.add_comm 2, List.drop_succ_cons, List.drop_succ_cons]
          simp only [List.length_cons]
          exact ⟨by omega, this.2⟩
      · split
        · exact hr _
        · split
          · exact hr _
          · split
            · rename_i hs
              simp only [beq_iff_eq] at hs
              split
              · simp [hs]
              · exact hr _
            · exact hr _

end InToto.GlobProofs
