import InToto.Model.Metadata
import InToto.Model.Keys
import InToto.Proofs.Json
import InToto.Proofs.Schema

/-!
C11 / C19: different content gives different signed bytes / a different key identifier preimage.
-/

namespace InToto.InjectiveProofs
open InToto InToto.Json InToto.Schema InToto.Metadata InToto.JsonProofs InToto.SchemaProofs InToto.Keys

/-- C11: the JSON encoding of well-typed link values is injective up to the omitempty normal form
    (an empty collection in an `omitempty` field is the same file as a nil one) -/
theorem encode_link_injective (v w : TVal) (hv : WT tyLink v) (hw : WT tyLink w)
    (h : encode tyLink v = encode tyLink w) : normOmit tyLink v = normOmit tyLink w := by
  have h1 := decode_encode true tyLink v goodTy_link hv
  have h2 := decode_encode true tyLink w goodTy_link hw
  rw [h, h2] at h1
  exact (Option.some.inj h1).symm

theorem encode_layout_injective (v w : TVal) (hv : WT tyLayout v) (hw : WT tyLayout w)
    (h : encode tyLayout v = encode tyLayout w) : normOmit tyLayout v = normOmit tyLayout w := by
  have h1 := decode_encode true tyLayout v goodTy_layout hv
  have h2 := decode_encode true tyLayout w goodTy_layout hw
  rw [h, h2] at h1
  exact (Option.some.inj h1).symm

theorem sortKeysList_strs (algs : List Str) : sortKeysList (algs.map JVal.str) = algs.map JVal.str := by
  induction algs with
  | nil => simp [sortKeysList]
  | cons a t ih => simp [sortKeysList, sortKeys, ih]

theorem map_str_injective : ∀ (a b : List Str), a.map JVal.str = b.map JVal.str → a = b
  | [], [], _ => rfl
  | [], _ :: _, h => by simp at h
  | _ :: _, [], h => by simp at h
  | x :: a, y :: b, h => by
    simp only [List.map_cons, List.cons.injEq, JVal.str.injEq] at h
    rw [h.1, map_str_injective a b h.2]

/-- the sorted form of the description: the four literal keys in code point order -/
theorem sortKeys_desc (kt sc pub : Str) (algs : List Str) :
    sortKeys (.obj [(lit% "keytype", .str kt), (lit% "scheme", .str sc),
      (lit% "keyid_hash_algorithms", .arr (algs.map .str)), (lit% "keyval", .obj [(lit% "public", .str pub)])])
    = .obj [(lit% "keyid_hash_algorithms", .arr (algs.map .str)), (lit% "keytype", .str kt),
      (lit% "keyval", .obj [(lit% "public", .str pub)]), (lit% "scheme", .str sc)] := by
  simp [sortKeys, sortKeysMembers, sortKeysList_strs, sortBy, insertSorted, strLt]

/-- C19 ("the identifier is determined by, and determines, the public description"): two key
    descriptions with the same identifier preimage are the same description — key type, scheme,
    hash algorithm list and public half all coincide (the identifier is SHA-256 of this preimage;
    collision resistance of SHA-256 is outside the model) -/
theorem idPreimage_injective (kt sc pub kt' sc' pub' : Str) (algs algs' : List Str) (s : Str)
    (h : idPreimage kt sc pub algs = some s) (h' : idPreimage kt' sc' pub' algs' = some s) :
    kt = kt' ∧ sc = sc' ∧ pub = pub' ∧ algs = algs' := by
  unfold idPreimage renderCanon at h h'
  have e := render_injective false _ _ s h h'
  rw [sortKeys_desc, sortKeys_desc] at e
  simp only [JVal.obj.injEq, List.cons.injEq, Prod.mk.injEq, JVal.str.injEq, JVal.arr.injEq, true_and,
    and_true] at e
  obtain ⟨ha, hk, hp, hs⟩ := e
  exact ⟨hk, hs, hp, map_str_injective _ _ ha⟩

/-- the preimage always exists (strings and lists of strings are always renderable) -/
theorem idPreimage_isSome (kt sc pub : Str) (algs : List Str) : (idPreimage kt sc pub algs).isSome = true := by
  unfold idPreimage renderCanon
  rw [sortKeys_desc, render_isSome_iff]
  refine .obj _ ?_
  intro kv hkv
  simp only [List.mem_cons, List.not_mem_nil, or_false] at hkv
  rcases hkv with rfl | rfl | rfl | rfl
  · refine .arr _ ?_
    intro v hv
    obtain ⟨a, _, rfl⟩ := List.mem_map.1 hv
    exact .str a
  · exact .str _
  · refine .obj _ ?_
    intro kv hkv
    simp only [List.mem_cons, List.not_mem_nil, or_false] at hkv
    subst hkv
    exact .str _
  · exact .str _

/-- the private half and the certificate do not enter the identifier: by construction the preimage
    is a function of the public description only; two loads of one pair (private or public form)
    therefore carry the same identifier -/
theorem idPreimage_forms_agree (k : Kind) (f f' : Form) (sch : Option (Str × List Str)) (l l' : Loaded)
    (h : load k f sch = .ok l) (h' : load k f' sch = .ok l') (pub : Str) :
    idPreimage l.keytype l.scheme pub l.idAlgs = idPreimage l'.keytype l'.scheme pub l'.idAlgs := by
  unfold load at h h'
  split at h
  · cases h
  split at h
  · cases h
  split at h
  · cases h
  split at h'
  · cases h'
  cases h; cases h'
  rfl

end InToto.InjectiveProofs
