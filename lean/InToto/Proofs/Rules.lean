import InToto.Spec.Rules

namespace InToto.RulesProofs
open InToto InToto.Rules InToto.RulesSpec

def toOption {α} : Outcome α → Option α
  | .ok a => some a
  | _ => none

theorem filter_id_of_all {α} (p : α → Bool) (l : List α) (h : ∀ x ∈ l, p x = true) :
    l.filter p = l := by
  induction l with
  | nil => rfl
  | cons a t ih =>
    simp only [List.filter]
    rw [h a (by simp)]
    simp only
    rw [ih (fun x hx => h x (by simp [hx]))]

theorem filter_nil_of_none {α} (p : α → Bool) (l : List α) (h : ∀ x ∈ l, p x = false) :
    l.filter p = [] := by
  induction l with
  | nil => rfl
  | cons a t ih =>
    simp only [List.filter]
    rw [h a (by simp)]
    simp only
    exact ih (fun x hx => h x (by simp [hx]))

theorem cleanArts_of_clean (a : Arts) (h : CleanArts a) : cleanArts a = a := by
  cases a with
  | none => rfl
  | some l =>
    have hk : ∀ kv ∈ l, Path.clean kv.1 = kv.1 := by
      intro kv hkv
      apply h
      simp only [artsKeys, List.mem_map]
      exact ⟨kv, hkv, rfl⟩
    have h1 : l.filter (fun kv => decide (Path.clean kv.1 = kv.1)) = l :=
      filter_id_of_all _ _ (fun kv hkv => by simp [hk kv hkv])
    have h2 : l.filter (fun kv => decide (Path.clean kv.1 ≠ kv.1)) = [] :=
      filter_nil_of_none _ _ (fun kv hkv => by simp [hk kv hkv])
    simp only [cleanArts, h1, h2, sortBy, List.foldr, List.foldl]

theorem lookup_mem {β} (k : Str) (l : List (Str × β)) (v : β) (h : lookup k l = some v) :
    (k, v) ∈ l := by
  induction l with
  | nil => cases h
  | cons e t ih =>
    obtain ⟨k', v'⟩ := e
    unfold lookup at h
    split at h
    · cases h; subst k'; exact List.mem_cons_self ..
    · exact List.mem_cons_of_mem _ (ih h)

/-- every artifact map read out of a context with clean names has clean names -/
theorem ctxArts_clean (ctx : Ctx) (h : CleanCtx ctx) (name : Str) (t : ArtType) :
    CleanArts (ctxArts ctx name t) := by
  unfold ctxArts
  cases hl : lookup name ctx with
  | none => intro k hk; cases hk
  | some o =>
    cases o with
    | none => intro k hk; cases hk
    | some l =>
      have hc := h _ (lookup_mem _ _ _ hl) l rfl
      cases t
      · exact hc.1
      · exact hc.2

/-- on a context with clean names the cleaned COPY of a map that `verifyMatchRule` reads is the map -/
theorem cleanArts_ctxArts (ctx : Ctx) (h : CleanCtx ctx) (name : Str) (t : ArtType) :
    cleanArts (ctxArts ctx name t) = ctxArts ctx name t :=
  cleanArts_of_clean _ (ctxArts_clean ctx h name t)

theorem contains_filter (q : List Str) (p : Str → Bool) (x : Str) :
    (q.filter p).contains x = (q.contains x && p x) := by
  induction q with
  | nil => simp
  | cons a t ih =>
    simp only [List.filter]
    by_cases hpa : p a = true
    · simp only [hpa, List.contains_cons, ih]
      by_cases hxa : x = a
      · subst hxa; simp [hpa]
      · have : (x == a) = false := by simp [hxa]
        simp [this]
    · have hpa' : p a = false := by simpa using hpa
      simp only [hpa', List.contains_cons, ih]
      by_cases hxa : x = a
      · subst hxa; simp [hpa']
      · have : (x == a) = false := by simp [hxa]
        simp [this]

theorem sdiff_filter (q : List Str) (p : Str → Bool) :
    sdiff q (q.filter p) = q.filter (fun a => !p a) := by
  unfold sdiff
  apply List.filter_congr
  intro x hx
  rw [contains_filter]
  have : q.contains x = true := by simpa using hx
  rw [this]
  simp

theorem sinter_filter (q c : List Str) (p : Str → Bool) :
    sinter (q.filter p) c = q.filter (fun a => p a && c.contains a) := by
  unfold sinter
  rw [List.filter_filter]
  apply List.filter_congr
  intro x _
  exact Bool.and_comm _ _

theorem sdiff_nil (q : List Str) : sdiff q [] = q := by
  unfold sdiff
  apply filter_id_of_all
  intro x _
  simp

theorem consumes_allow (E : Env) (p : Str) :
    consumes E (.simple .allow p) = fun a => E.glob (Path.clean p) a := by funext a; rfl
theorem consumes_create (E : Env) (p : Str) :
    consumes E (.simple .create p) = fun a => E.glob (Path.clean p) a && E.created.contains a := by
  funext a; rfl
theorem consumes_delete (E : Env) (p : Str) :
    consumes E (.simple .delete p) = fun a => E.glob (Path.clean p) a && E.deleted.contains a := by
  funext a; rfl
theorem consumes_modify (E : Env) (p : Str) :
    consumes E (.simple .modify p) = fun a => E.glob (Path.clean p) a && E.modified.contains a := by
  funext a; rfl
theorem consumes_disallow (E : Env) (p : Str) :
    consumes E (.simple .disallow p) = fun _ => false := by funext a; rfl
theorem consumes_require (E : Env) (p : Str) :
    consumes E (.simple .require p) = fun _ => false := by funext a; rfl
theorem consumes_mtch (E : Env) (p sp dp : Str) (dt : ArtType) (dn : Str) :
    consumes E (.mtch p sp dp dt dn) = fun a => matchConsumes E p sp dp dt dn a := by
  funext a; rfl

theorem filter_false {α} (l : List α) : l.filter (fun _ => false) = [] := by
  induction l with
  | nil => rfl
  | cons a t ih => simp [List.filter]

/-- Under clean artifact names, one rule of the interpreter is exactly the pointwise spec. -/
theorem ruleStep_spec (E : Env) (h : CleanCtx E.ctx) (r : Rule) (q : List Str) :
    ruleStep E.glob E.srcName E.srcType E.created E.deleted E.modified r q E.ctx =
      if fails E r q then none else some (q.filter (consumes E r), E.ctx) := by
  cases r with
  | simple t p =>
    cases t with
    | allow => simp only [ruleStep, fails, consumes_allow, Bool.false_eq_true, if_false]
    | create => simp only [ruleStep, fails, consumes_create, sinter_filter, Bool.false_eq_true, if_false]
    | delete => simp only [ruleStep, fails, consumes_delete, sinter_filter, Bool.false_eq_true, if_false]
    | modify => simp only [ruleStep, fails, consumes_modify, sinter_filter, Bool.false_eq_true, if_false]
    | disallow =>
      simp only [ruleStep, fails, consumes_disallow, filter_false]
      by_cases hf : (q.filter fun a => E.glob (Path.clean p) a).isEmpty = true
      · have hnil : q.filter (fun a => E.glob (Path.clean p) a) = [] := by
          simpa [List.isEmpty_iff] using hf
        have hany : q.any (fun a => E.glob (Path.clean p) a) = false := by
          rw [List.any_eq_false]
          intro x hx hg
          have : x ∈ q.filter (fun a => E.glob (Path.clean p) a) := by
            simp [List.mem_filter, hx, hg]
          rw [hnil] at this
          cases this
        rw [hf, hany]
        simp
      · have hany : q.any (fun a => E.glob (Path.clean p) a) = true := by
          cases hq : q.filter (fun a => E.glob (Path.clean p) a) with
          | nil => simp [hq] at hf
          | cons a t =>
            have : a ∈ q.filter (fun a => E.glob (Path.clean p) a) := by simp [hq]
            rw [List.mem_filter] at this
            rw [List.any_eq_true]
            exact ⟨a, this.1, this.2⟩
        have hf' : (q.filter fun a => E.glob (Path.clean p) a).isEmpty = false := by simpa using hf
        rw [hf', hany]
        simp
    | require =>
      simp only [ruleStep, fails, consumes_require, filter_false]
      by_cases hc : q.contains p = true
      · rw [hc]; simp
      · have hc' : q.contains p = false := by simpa using hc
        rw [hc']; simp
  | mtch p sp dp dt dn =>
    simp only [ruleStep, fails, consumes_mtch, Bool.false_eq_true, if_false]
    unfold verifyMatchRule
    cases hd : lookup dn E.ctx with
    | none =>
      have : (fun a => matchConsumes E p sp dp dt dn a) = fun _ => false := by
        funext a; simp [matchConsumes, hd]
      simp only [this, filter_false]
    | some o =>
      cases o with
      | none =>
        have : (fun a => matchConsumes E p sp dp dt dn a) = fun _ => false := by
          funext a; simp [matchConsumes, hd]
        simp only [this, filter_false]
      | some dst =>
        simp only
        rw [cleanArts_ctxArts E.ctx h E.srcName E.srcType, cleanArts_ctxArts E.ctx h dn dt]
        have hdst : ctxArts E.ctx dn dt = sel dt dst := by simp [ctxArts, hd]
        rw [hdst]
        congr 1
        congr 1
        apply List.filter_congr
        intro a _
        simp only [matchConsumes, hd, Env.srcArts]
        by_cases hsp : normPrefix sp = []
        · simp [hsp, Bool.and_assoc]
        · by_cases hst : (normPrefix sp).isPrefixOf a = true
          · simp [hsp, hst, Bool.and_assoc]
          · simp [hsp, hst]

theorem applyRules_spec (E : Env) (h : CleanCtx E.ctx) (rules : List (List Str)) (q : List Str) :
    toOption (applyRules E.glob E.srcName E.srcType E.created E.deleted E.modified rules q E.ctx) =
      ((parseAll rules).bind fun rs => run E rs q).map fun q' => (q', E.ctx) := by
  induction rules generalizing q with
  | nil => simp [applyRules, parseAll, run, toOption]
  | cons rule rest ih =>
    simp only [applyRules, parseAll]
    cases hu : unpackRule rule with
    | err e => simp [toOption]
    | panic s => simp [toOption]
    | ok r =>
      simp only
      rw [ruleStep_spec E h]
      by_cases hf : fails E r q = true
      · simp only [hf, if_true, toOption]
        cases parseAll rest <;> simp [run, hf]
      · have hf' : fails E r q = false := by simpa using hf
        simp only [hf', Bool.false_eq_true, if_false]
        rw [sdiff_filter, ih]
        cases parseAll rest <;> simp [run, hf']

end InToto.RulesProofs
