import InToto.Proofs.RulesAllNames

/-!
C03 for ALL artifact names, the remaining corollaries (no `CleanCtx` / `CleanArts` hypothesis):
one item, malformed rules, order of the items, the difference sets of the cleaned copy of a link —
and the shape of the names `path.Clean` produces.
-/

namespace InToto.PathClean
open InToto InToto.Path

/-! ### the shape of `path.Clean`'s output -/

/-- the component ".." -/
abbrev dotdot : List Char := ['.', '.']

/-- `cleanL` is: fold `step` over the components (giving a normal-form stack), join, and put a slash
    in front of a rooted path / replace the empty result by "." -/
theorem cleanL_shape (p : List Char) :
    ∃ rooted S, NF rooted S ∧
      cleanL p = (if rooted = true then '/' :: joinSlash S.reverse
        else if joinSlash S.reverse = [] then ['.'] else joinSlash S.reverse) := by
  cases p with
  | nil => exact ⟨false, [], trivial, by decide⟩
  | cons c t =>
    by_cases hc : c = '/'
    · subst hc
      refine ⟨true, (splitSlash ('/' :: t)).foldl (step true) [],
        foldl_NF true _ [] trivial (splitSlash_slashFree _), ?_⟩
      simp only [cleanL, decide_true, if_true]
    · have hd : decide (c = '/') = false := by simpa using hc
      refine ⟨false, (splitSlash (c :: t)).foldl (step false) [],
        foldl_NF false _ [] trivial (splitSlash_slashFree _), ?_⟩
      simp only [cleanL, hd, if_neg hc]
      simp

theorem joinSlash_ne_nil (comps : List (List Char)) (hne : comps ≠ []) (h : ∀ c ∈ comps, Good c) :
    joinSlash comps ≠ [] := by
  cases comps with
  | nil => exact absurd rfl hne
  | cons a t =>
    cases t with
    | nil => exact (h a (List.mem_cons_self ..)).1
    | cons b t' =>
      show a ++ '/' :: joinSlash (b :: t') ≠ []
      simp

/-- a rooted normal form has no ".." -/
theorem NF_true_no_dotdot : ∀ (S : List (List Char)), NF true S → dotdot ∉ S
  | [], _ => by simp
  | c :: rest, h => by
    intro hm
    rcases List.mem_cons.1 hm with e | hm
    · exact absurd (h.2.1 e.symm).1 (by simp)
    · exact NF_true_no_dotdot rest h.2.2 hm

/-- a non-rooted normal form (top first) is a ".."-free stack on top of a run of ".." -/
theorem NF_false_split : ∀ (S : List (List Char)), NF false S →
    ∃ k rest, S = rest ++ List.replicate k dotdot ∧ dotdot ∉ rest
  | [], _ => ⟨0, [], rfl, by simp⟩
  | c :: S', h => by
    obtain ⟨k, rest, hS, hr⟩ := NF_false_split S' h.2.2
    by_cases hc : c = dotdot
    · have hall := (h.2.1 hc).2
      have hrest : rest = [] := by
        cases rest with
        | nil => rfl
        | cons d r =>
          have : d = dotdot := hall d (by rw [hS]; simp)
          exact absurd (by rw [this]; exact List.mem_cons_self ..) hr
      subst hrest
      refine ⟨k + 1, [], ?_, by simp⟩
      rw [hS, hc]
      simp [List.replicate_succ]
    · refine ⟨k, c :: rest, by rw [hS]; rfl, ?_⟩
      intro hm
      rcases List.mem_cons.1 hm with e | hm
      · exact hc e.symm
      · exact hr hm

/-- The names `path.Clean` produces: ".", "/", or a non-empty list of components — none empty, none
    ".", none with a slash — joined by single slashes, either behind a leading slash and then
    without any "..", or without a leading slash and then with ".." only as a leading run. -/
def CleanForm (q : List Char) : Prop :=
  q = ['.'] ∨ q = ['/'] ∨
    ∃ comps : List (List Char), comps ≠ [] ∧
      (∀ c ∈ comps, c ≠ [] ∧ c ≠ ['.'] ∧ '/' ∉ c) ∧
      ((q = '/' :: joinSlash comps ∧ splitSlash q = [] :: comps ∧ dotdot ∉ comps) ∨
       (q = joinSlash comps ∧ splitSlash q = comps ∧
          ∃ k rest, comps = List.replicate k dotdot ++ rest ∧ dotdot ∉ rest))

theorem cleanL_form (p : List Char) : CleanForm (cleanL p) := by
  obtain ⟨rooted, S, hNF, he⟩ := cleanL_shape p
  rw [he]
  have hgood : ∀ c ∈ S.reverse, Good c := fun c hc => hNF.good c (List.mem_reverse.1 hc)
  by_cases hS : S = []
  · subst hS
    cases rooted
    · left; rfl
    · right; left; rfl
  · have hne : S.reverse ≠ [] := by simpa using hS
    have hsplit : splitSlash (joinSlash S.reverse) = S.reverse :=
      splitSlash_joinSlash _ hne (fun c hc => (hgood c hc).2.2)
    right; right
    refine ⟨S.reverse, hne, hgood, ?_⟩
    cases rooted with
    | true =>
      left
      rw [if_pos rfl]
      refine ⟨rfl, ?_, ?_⟩
      · rw [splitSlash_cons_slash, hsplit]
      · intro hm
        exact NF_true_no_dotdot S hNF (List.mem_reverse.1 hm)
    | false =>
      right
      rw [if_neg (by simp), if_neg (joinSlash_ne_nil _ hne hgood)]
      refine ⟨rfl, hsplit, ?_⟩
      obtain ⟨k, rest, hk, hr⟩ := NF_false_split S hNF
      refine ⟨k, rest.reverse, ?_, ?_⟩
      · rw [hk, List.reverse_append, List.reverse_replicate]
      · intro hm
        exact hr (List.mem_reverse.1 hm)

theorem NF_false_replicate : ∀ k : Nat, NF false ([] ++ List.replicate k dotdot)
  | 0 => trivial
  | n + 1 => by
    rw [List.nil_append, List.replicate_succ]
    refine ⟨good_dotdot, fun _ => ⟨rfl, fun d hd => (List.mem_replicate.1 hd).2⟩, ?_⟩
    simpa using NF_false_replicate n

/-- conversely, every name of that shape is a fixed point of `path.Clean`: the characterisation is
    exact -/
theorem cleanL_of_form (q : List Char) (h : CleanForm q) : cleanL q = q := by
  rcases h with rfl | rfl | ⟨comps, hne, hgood, h⟩
  · decide
  · decide
  · have hrev : comps.reverse.reverse = comps := List.reverse_reverse _
    have hne' : comps.reverse ≠ [] := by simpa using hne
    rcases h with ⟨hq, _, hdd⟩ | ⟨hq, _, k, rest, hk, hr⟩
    · -- rooted
      have hNF : NF true comps.reverse := by
        have : ∀ S : List (List Char), (∀ c ∈ S, Good c) → dotdot ∉ S → NF true S := by
          intro S
          induction S with
          | nil => intros; trivial
          | cons c r ih =>
            intro hg hd
            refine ⟨hg c (List.mem_cons_self ..), fun e => ?_,
              ih (fun d hd' => hg d (List.mem_cons_of_mem _ hd'))
                (fun hm => hd (List.mem_cons_of_mem _ hm))⟩
            exact absurd (by rw [e]; exact List.mem_cons_self ..) hd
        exact this _ (fun c hc => hgood c (List.mem_reverse.1 hc))
          (fun hm => hdd (List.mem_reverse.1 hm))
      have e2 : (splitSlash ('/' :: joinSlash comps)).foldl (step true) [] = comps.reverse := by
        rw [splitSlash_cons_slash, List.foldl_cons, step_nil_empty]
        have := resplit true comps.reverse hNF
        rwa [hrev] at this
      rw [hq]
      simp only [cleanL, decide_true, if_true, e2, hrev]
    · -- not rooted
      have hNF : NF false comps.reverse := by
        have : ∀ R : List (List Char), (∀ c ∈ R, Good c) → dotdot ∉ R →
            NF false (R ++ List.replicate k dotdot) := by
          intro R
          induction R with
          | nil =>
            intro _ _
            exact NF_false_replicate k
          | cons c r ih =>
            intro hg hd
            refine ⟨hg c (List.mem_cons_self ..), fun e => ?_,
              ih (fun d hd' => hg d (List.mem_cons_of_mem _ hd'))
                (fun hm => hd (List.mem_cons_of_mem _ hm))⟩
            exact absurd (by rw [e]; exact List.mem_cons_self ..) hd
        have hc : comps.reverse = rest.reverse ++ List.replicate k dotdot := by
          rw [hk, List.reverse_append, List.reverse_replicate]
        rw [hc]
        refine this _ (fun c hc' => hgood c ?_) (fun hm => hr (List.mem_reverse.1 hm))
        rw [hk]
        exact List.mem_append_right _ (List.mem_reverse.1 hc')
      have hgood' : ∀ c ∈ comps, Good c := hgood
      rw [hq]
      cases hb : joinSlash comps with
      | nil => exact absurd hb (joinSlash_ne_nil comps hne hgood')
      | cons x r =>
        have hx : x ≠ '/' := joinSlash_head comps hgood' x r hb
        have hdx : decide (x = '/') = false := by simpa using hx
        have e2 : (splitSlash (x :: r)).foldl (step false) [] = comps.reverse := by
          rw [← hb]
          have := resplit false comps.reverse hNF
          rwa [hrev] at this
        simp only [cleanL, hdx, e2, if_neg hx, hrev, hb]
        rw [if_neg (by simp)]

theorem cleanL_ne_nil (p : List Char) : cleanL p ≠ [] := by
  obtain ⟨rooted, S, _, he⟩ := cleanL_shape p
  rw [he]
  cases rooted with
  | true => simp
  | false =>
    rw [if_neg (by simp)]
    by_cases h : joinSlash S.reverse = []
    · rw [if_pos h]; simp
    · rw [if_neg h]; exact h

/-- `path.Clean` never returns the empty string -/
theorem clean_ne_nil (p : Str) : Path.clean p ≠ [] := cleanL_ne_nil p

/-- the shape of every name `path.Clean` returns -/
theorem clean_form (p : Str) : CleanForm (Path.clean p) := cleanL_form p

/-- the names of that shape are exactly the fixed points (= the range) of `path.Clean` -/
theorem clean_fixed_iff_form (q : Str) : Path.clean q = q ↔ CleanForm q :=
  ⟨fun h => by rw [← h]; exact clean_form q, cleanL_of_form q⟩

/-- the three shapes, as checked examples -/
example : Path.clean (lit% "a/../../b/./c//d/") = lit% "../b/c/d" := by decide
example : Path.clean (lit% "/../a/..//") = lit% "/" := by decide
example : Path.clean (lit% "/../a/./b/../c") = lit% "/a/c" := by decide
example : Path.clean (lit% "a/..") = lit% "." := by decide

end InToto.PathClean

namespace InToto.RulesAllNames
open InToto InToto.Rules InToto.RulesSpec InToto.RulesProofs InToto.RulesItems

/-! ### one item, all names -/

/-- C03 (one item) for ALL artifact names: `verifyItem` hands back the context it was given and
    succeeds exactly when the item meets the specification on the cleaned links -/
theorem verifyItem_spec_all_names (glob : Str → Str → Bool) (ctx : Ctx) (item : Item) :
    (∀ ctx', verifyItem glob ctx item = .ok ctx' → ctx' = ctx) ∧
    ((verifyItem glob ctx item).isOk = true ↔ ItemOK glob (cleanCtx ctx) item) := by
  refine ⟨fun ctx' h => verifyItem_ctx glob ctx item ctx' h, ?_⟩
  rw [← omap_isOk cleanCtx, verifyItem_sim]
  exact (verifyItem_spec glob (cleanCtx ctx) (cleanCtx_clean ctx) item).2

/-! ### malformed rules, all names -/

theorem parseAll_none_of_mem (rules : List (List Str)) (bad : List Str) (e : String)
    (hb : unpackRule bad = .err e) (hm : bad ∈ rules) : parseAll rules = none := by
  obtain ⟨pre, post, rfl⟩ := List.append_of_mem hm
  exact parseAll_malformed pre post bad e hb

/-- an item with a malformed rule in either rule list meets the specification on NO links -/
theorem not_itemOK_of_malformed (glob : Str → Str → Bool) (ctx : Ctx) (item : Item)
    (bad : List Str) (e : String) (hb : unpackRule bad = .err e)
    (hm : bad ∈ item.expMaterials ∨ bad ∈ item.expProducts) : ¬ ItemOK glob ctx item := by
  rintro ⟨l, _, ⟨rs, _, h1, _⟩, ⟨rs', _, h2, _⟩⟩
  rcases hm with hm | hm
  · rw [parseAll_none_of_mem _ bad e hb hm] at h1; cases h1
  · rw [parseAll_none_of_mem _ bad e hb hm] at h2; cases h2

/-- C03 for ALL artifact names: a rule that fits none of the formats, anywhere in the material or
    the product rules of an item, makes the item fail — whatever the links (with or without a link
    for the item, whatever the other rules) -/
theorem verifyItem_malformed (glob : Str → Str → Bool) (ctx : Ctx) (item : Item)
    (bad : List Str) (e : String) (hb : unpackRule bad = .err e)
    (hm : bad ∈ item.expMaterials ∨ bad ∈ item.expProducts) :
    (verifyItem glob ctx item).isOk = false := by
  cases h : (verifyItem glob ctx item).isOk with
  | false => rfl
  | true =>
    exact absurd ((verifyItem_spec_all_names glob ctx item).2.1 h)
      (not_itemOK_of_malformed glob _ item bad e hb hm)

/-- … and with it the whole of `VerifyArtifacts`, wherever the item stands in the list -/
theorem verifyArtifacts_malformed (glob : Str → Str → Bool) (items : List Item) (ctx : Ctx) (item : Item)
    (hi : item ∈ items) (bad : List Str) (e : String) (hb : unpackRule bad = .err e)
    (hm : bad ∈ item.expMaterials ∨ bad ∈ item.expProducts) :
    (verifyArtifacts glob items ctx).isOk = false := by
  cases h : (verifyArtifacts glob items ctx).isOk with
  | false => rfl
  | true =>
    exact absurd ((all_items_verified_iff_spec_all_names glob items ctx).1 h item hi)
      (not_itemOK_of_malformed glob _ item bad e hb hm)

/-- non-vacuity: unclean names, all rules that are reached pass, the malformed rule stands last -/
example :
    (verifyArtifacts goGlob
      [{ name := lit% "s", expMaterials := [],
         expProducts := [[lit% "MODIFY", lit% "*"], [lit% "DISALLOW", lit% "*"], [lit% "ALLOW"]] }]
      [(lit% "s", some { materials := some [(lit% "./a", some [(lit% "sha256", lit% "1")])],
                          products := some [(lit% "./a", some [(lit% "sha256", lit% "2")])] })]).isOk
      = false := by
  decide

/-! ### the order of the items, all names -/

theorem verifyArtifacts_perm_all_names (glob : Str → Str → Bool) (items₁ items₂ : List Item) (ctx : Ctx)
    (hp : items₁.Perm items₂) :
    (verifyArtifacts glob items₁ ctx).isOk = (verifyArtifacts glob items₂ ctx).isOk := by
  rw [Bool.eq_iff_iff, all_items_verified_iff_spec_all_names, all_items_verified_iff_spec_all_names]
  constructor
  · intro h' it hit; exact h' it (hp.mem_iff.2 hit)
  · intro h' it hit; exact h' it (hp.mem_iff.1 hit)

/-! ### the difference sets of the cleaned copy of a link -/

/-- created / deleted / modified as `verifyItem` computes them (`verifyItem_eq_gen`: from the cleaned
    copy of the item's own link) are what their names say, for EVERY link -/
theorem difference_sets_all_names (l : LinkArts) (a : Str) :
    (a ∈ createdOf (cleanLink l) ↔
      a ∈ artsKeys (cleanArts l.products) ∧ a ∉ artsKeys (cleanArts l.materials)) ∧
    (a ∈ deletedOf (cleanLink l) ↔
      a ∈ artsKeys (cleanArts l.materials) ∧ a ∉ artsKeys (cleanArts l.products)) ∧
    (a ∈ modifiedOf (cleanLink l) ↔
      a ∈ artsKeys (cleanArts l.materials) ∧ a ∈ artsKeys (cleanArts l.products) ∧
        artsGet (cleanArts l.materials) a ≠ artsGet (cleanArts l.products) a) :=
  difference_sets (cleanLink l) (cleanArts_clean _) (cleanArts_clean _) a

end InToto.RulesAllNames
