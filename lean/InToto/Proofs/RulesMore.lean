import InToto.Proofs.Rules

namespace InToto.RulesProofs
open InToto InToto.Rules InToto.RulesSpec

/-! ### helper lemmas -/

theorem unpackRule_no_panic (rule : List Str) : (unpackRule rule).isPanic = false := by
  unfold unpackRule
  dsimp only
  repeat' split
  all_goals rfl

theorem any_perm {α} (p : α → Bool) (l₁ l₂ : List α) (h : l₁.Perm l₂) : l₁.any p = l₂.any p := by
  rw [Bool.eq_iff_iff, List.any_eq_true, List.any_eq_true]
  constructor
  · rintro ⟨x, hx, hp⟩; exact ⟨x, h.mem_iff.1 hx, hp⟩
  · rintro ⟨x, hx, hp⟩; exact ⟨x, h.mem_iff.2 hx, hp⟩

theorem fails_perm (E : Env) (r : Rule) (q₁ q₂ : List Str) (h : q₁.Perm q₂) :
    fails E r q₁ = fails E r q₂ := by
  unfold fails
  split
  · exact any_perm _ _ _ h
  · rw [List.contains_eq_any_beq, List.contains_eq_any_beq, any_perm _ _ _ h]
  · rfl

theorem clean_star : Path.clean (lit% "*") = lit% "*" := by decide
theorem utf8_star : utf8 (lit% "*") = [0x2A] := by decide
theorem simpleType_match : simpleType (lit% "match") = none := by decide

/-! ### the lemmas used by Properties/C03.lean -/

theorem applyRules_no_panic (glob : Str → Str → Bool) (sn : Str) (st : ArtType) (c d m : List Str)
    (rules : List (List Str)) (q : List Str) (ctx : Ctx) :
    (applyRules glob sn st c d m rules q ctx).isPanic = false := by
  induction rules generalizing q ctx with
  | nil => rfl
  | cons rule rest ih =>
    unfold applyRules
    have hp := unpackRule_no_panic rule
    cases hu : unpackRule rule with
    | err e => rfl
    | panic s => rw [hu] at hp; cases hp
    | ok r =>
      simp only
      cases ruleStep glob sn st c d m r q ctx with
      | none => rfl
      | some x => exact ih _ _

theorem parseAll_malformed (pre post : List (List Str)) (bad : List Str) (e : String)
    (hb : unpackRule bad = .err e) : parseAll (pre ++ bad :: post) = none := by
  induction pre with
  | nil => simp [parseAll, hb]
  | cons r rest ih =>
    simp only [List.cons_append, parseAll, ih]
    cases unpackRule r <;> rfl

theorem run_mem (E : Env) (rs : List Rule) (q q' : List Str) (h : run E rs q = some q') (a : Str) :
    a ∈ q' ↔ a ∈ q ∧ ∀ r ∈ rs, consumes E r a = false := by
  induction rs generalizing q with
  | nil => simp [run] at h; simp [h]
  | cons r rest ih =>
    unfold run at h
    split at h
    · cases h
    · rw [ih _ h, List.mem_filter]
      simp [and_assoc]

theorem run_append (E : Env) (rs₁ rs₂ : List Rule) (q : List Str) :
    run E (rs₁ ++ rs₂) q = (run E rs₁ q).bind (run E rs₂) := by
  induction rs₁ generalizing q with
  | nil => simp [run]
  | cons r rest ih =>
    simp only [List.cons_append, run]
    split
    · rfl
    · exact ih _

theorem disallow_iff (E : Env) (p : Str) (q : List Str) :
    run E [.simple .disallow p] q = none ↔ ∃ a ∈ q, E.glob (Path.clean p) a = true := by
  simp [run, fails]

theorem require_iff (E : Env) (f : Str) (q : List Str) :
    run E [.simple .require f] q = none ↔ f ∉ q := by
  simp [run, fails]

theorem terminal_disallow (E : Env) (hstar : ∀ a, E.glob (Path.clean (lit% "*")) a = true)
    (rs : List Rule) (q : List Str) :
    (run E (rs ++ [.simple .disallow (lit% "*")]) q).isSome = true ↔ run E rs q = some [] := by
  rw [run_append]
  cases run E rs q with
  | none => simp
  | some q' =>
    cases q' with
    | nil => simp [run, fails]
    | cons a t => simp [run, fails, hstar]

theorem goGlob_star (a : Str) : goGlob (Path.clean (lit% "*")) a = true := by
  rw [clean_star]
  unfold goGlob
  rw [utf8_star]
  simp [Glob.filterHas, Glob.goMatch, Glob.goMatchAux, Glob.scanChunk, Glob.dropStars,
    Glob.scanLoop, Glob.cStar]

theorem run_perm (E : Env) (rs : List Rule) (q₁ q₂ : List Str) (h : q₁.Perm q₂) :
    (run E rs q₁).isSome = (run E rs q₂).isSome := by
  induction rs generalizing q₁ q₂ with
  | nil => rfl
  | cons r rest ih =>
    unfold run
    rw [fails_perm E r q₁ q₂ h]
    split
    · rfl
    · exact ih _ _ (h.filter _)

theorem match_needs_prefix (E : Env) (p sp dp : Str) (dt : ArtType) (dn a : Str)
    (h : consumes E (.mtch p sp dp dt dn) a = true) :
    normPrefix sp = [] ∨ (normPrefix sp).isPrefixOf a = true := by
  rw [consumes_mtch] at h
  unfold matchConsumes at h
  split at h
  · simp only [Bool.and_eq_true, Bool.or_eq_true, decide_eq_true_eq] at h
    exact h.1.1.1
  · cases h

theorem match_needs_equal_hash (E : Env) (p sp dp : Str) (dt : ArtType) (dn a : Str)
    (h : consumes E (.mtch p sp dp dt dn) a = true) :
    ∃ dst, lookup dn E.ctx = some (some dst) ∧
      artsHas (sel dt dst) (Path.clean (join2 (normPrefix dp) (trimPrefix a (normPrefix sp)))) = true ∧
      artsGet E.srcArts a =
        artsGet (sel dt dst) (Path.clean (join2 (normPrefix dp) (trimPrefix a (normPrefix sp)))) := by
  rw [consumes_mtch] at h
  unfold matchConsumes at h
  split at h
  · rename_i dst hd
    simp only [Bool.and_eq_true, beq_iff_eq] at h
    exact ⟨dst, hd, h.1.2, h.2⟩
  · cases h

theorem unpack_simple (k p : Str) (t : RType) (h : simpleType (goLower k) = some t) :
    unpackRule [k, p] = .ok (.simple t p) := by
  simp [unpackRule, h]

theorem unpack_match6 (m p w ty f s : Str) (t : ArtType)
    (hm : goLower m = lit% "match") (hw : goLower w = lit% "with") (hf : goLower f = lit% "from")
    (ht : artType (goLower ty) = some t) :
    unpackRule [m, p, w, ty, f, s] = .ok (.mtch p [] [] t s) := by
  simp [unpackRule, hm, hw, hf, ht, simpleType_match]

theorem unpack_match8_src (m p i sp w ty f s : Str) (t : ArtType)
    (hm : goLower m = lit% "match") (hi : goLower i = lit% "in") (hw : goLower w = lit% "with")
    (hf : goLower f = lit% "from") (ht : artType (goLower ty) = some t) :
    unpackRule [m, p, i, sp, w, ty, f, s] = .ok (.mtch p sp [] t s) := by
  simp [unpackRule, hm, hw, hf, hi, ht, simpleType_match]

theorem unpack_match10 (m p i sp w ty i2 dp f s : Str) (t : ArtType)
    (hm : goLower m = lit% "match") (hi : goLower i = lit% "in") (hw : goLower w = lit% "with")
    (hi2 : goLower i2 = lit% "in") (hf : goLower f = lit% "from") (ht : artType (goLower ty) = some t) :
    unpackRule [m, p, i, sp, w, ty, i2, dp, f, s] = .ok (.mtch p sp dp t s) := by
  simp [unpackRule, hm, hw, hf, hi, hi2, ht, simpleType_match]

theorem unpack_ok_length (rule : List Str) (r : Rule) (h : unpackRule rule = .ok r) :
    rule.length = 2 ∨ rule.length = 6 ∨ rule.length = 8 ∨ rule.length = 10 := by
  unfold unpackRule at h
  dsimp only at h
  repeat' split at h
  all_goals (cases h <;> simp)

end InToto.RulesProofs
