/-
Helper lemmas for InToto/Proofs/FileRoundTrip.lean (file-level round trip), in three parts:

* `JsonFile`  round trip of the FILE rendering `render esc true` (plain `json.Marshal`: integers of any
              size, non-integral literals written as they are) through the model parsers
              (`parse_render_file`); same proof as `pval_all` in InToto/Proofs/Json.lean with the two
              number cases changed.  `render_file_isSome`: that rendering never refuses.
* `Bytes`     the byte layers under the DSSE payload: UTF-8 (`bytesToStr_utf8`) and base64
              (`decodeFlex_encode`) round trips.
* `Sorted`    decoding the CANONICAL (key-sorted) encoding of a typed value (`decode_sorted`): the DSSE
              payload is `sortKeys (encode ty v)`, so struct members arrive in key order instead of
              schema order (`decodeFields_perm`) and map entries come back in key order (`sortT`);
              `sortT_normOmit`: key-sorting commutes with omitempty normalisation.
-/
import InToto.Model.Base64
import InToto.Proofs.Json
import InToto.Proofs.Schema
namespace InToto.FileProofs

section JsonFile
open InToto InToto.Json InToto.JsonProofs

/-- a literal of a non-integral number: it starts like a number and the parser reads it back as
    the same opaque literal (whatever non-number text follows) -/
def FracLit (l : Str) : Prop :=
  (∃ c t, l = c :: t ∧ (c = '-' ∨ isDigit c = true)) ∧
  ∀ rest, NumEnd rest → parseNum (l ++ rest) = some (.frac l, rest)

/-- every non-integral number inside the value is a number literal (`FracLit`);
    integers are unrestricted -/
inductive FracsOK : JVal → Prop where
  | null : FracsOK .null
  | bool (b : Bool) : FracsOK (.bool b)
  | num (i : Int) : FracsOK (.num i)
  | frac (l : Str) : FracLit l → FracsOK (.frac l)
  | str (s : Str) : FracsOK (.str s)
  | arr (l : List JVal) : (∀ v ∈ l, FracsOK v) → FracsOK (.arr l)
  | obj (l : List (Str × JVal)) : (∀ kv ∈ l, FracsOK kv.2) → FracsOK (.obj l)

theorem fracsOK_arr_iff (l : List JVal) : FracsOK (.arr l) ↔ ∀ v ∈ l, FracsOK v :=
  ⟨fun h => by cases h; assumption, FracsOK.arr l⟩

theorem fracsOK_obj_iff (l : List (Str × JVal)) : FracsOK (.obj l) ↔ ∀ kv ∈ l, FracsOK kv.2 :=
  ⟨fun h => by cases h; assumption, FracsOK.obj l⟩

/-- values without non-integral numbers (in particular everything the canonical renderer accepts) -/
theorem fracsOK_of_renderable (v : JVal) (h : Renderable v) : FracsOK v := by
  induction h with
  | null => exact .null
  | bool b => exact .bool b
  | num i _ _ => exact .num i
  | str s => exact .str s
  | arr l _ ih => exact .arr l ih
  | obj l _ ih => exact .obj l ih

/-- a rendered value starts with a character that is neither whitespace nor a closing bracket -/
theorem render_startF (esc : Bool) (v : JVal) (hv : FracsOK v) (s : Str) (h : render esc true v = some s) :
    ∃ c t, s = c :: t ∧ isWs c = false ∧ c ≠ ']' ∧ c ≠ '}' := by
  cases v with
  | null => simp [render] at h; subst h; exact ⟨_, _, rfl, by decide⟩
  | bool b => cases b <;> (simp [render] at h; subst h; exact ⟨_, _, rfl, by decide⟩)
  | num i =>
    simp [render] at h
    subst h
    obtain ⟨c, t, h1, h2⟩ := renderInt_start i
    obtain ⟨hw, _, _, _, _, _, _, hb, hc⟩ := numStart_facts c h2
    exact ⟨c, t, h1, hw, hb, hc⟩
  | frac l =>
    simp [render] at h
    subst h
    cases hv with
    | frac _ hl =>
      obtain ⟨⟨c, t, h1, h2⟩, _⟩ := hl
      obtain ⟨hw, _, _, _, _, _, _, hb, hc⟩ := numStart_facts c h2
      exact ⟨c, t, h1, hw, hb, hc⟩
  | str s0 => simp [render, renderStr] at h; subst h; exact ⟨_, _, rfl, by decide⟩
  | arr l =>
    simp [render] at h
    obtain ⟨b, _, rfl⟩ := h
    exact ⟨_, _, rfl, by decide⟩
  | obj l =>
    simp [render] at h
    obtain ⟨b, _, rfl⟩ := h
    exact ⟨_, _, rfl, by decide⟩

theorem renderList_startF (esc : Bool) (l : List JVal) (hv : ∀ v ∈ l, FracsOK v) (hne : l ≠ []) (body : Str)
    (h : renderList esc true l = some body) :
    ∃ c t, body = c :: t ∧ isWs c = false ∧ c ≠ ']' := by
  match l, hne with
  | [v], _ =>
    simp only [renderList] at h
    obtain ⟨c, t, h1, h2, h3, _⟩ := render_startF esc v (hv v (by simp)) body h
    exact ⟨c, t, h1, h2, h3⟩
  | v :: w :: rest, _ =>
    simp only [renderList] at h
    split at h
    · rename_i a b ha hb
      cases h
      obtain ⟨c, t, rfl, h2, h3, _⟩ := render_startF esc v (hv v (by simp)) a ha
      exact ⟨c, _, rfl, h2, h3⟩
    · cases h

theorem renderMembers_startF (esc : Bool) (l : List (Str × JVal)) (hne : l ≠ []) (body : Str)
    (h : renderMembers esc true l = some body) : ∃ t, body = '"' :: t := by
  match l, hne with
  | [(k, v)], _ =>
    simp only [renderMembers, renderStr, Option.map_eq_some_iff] at h
    obtain ⟨a, _, rfl⟩ := h
    exact ⟨_, rfl⟩
  | (k, v) :: w :: rest, _ =>
    simp only [renderMembers, renderStr] at h
    split at h
    · cases h; exact ⟨_, rfl⟩
    · cases h

def PValF (esc : Bool) (v : JVal) : Prop :=
  FracsOK v → ∀ s, render esc true v = some s → ∀ strict : Bool, (strict = true → esc = true) →
    ∀ fuel rest, s.length ≤ fuel → Follow rest → parseVal strict fuel (s ++ rest) = some (v, rest)

def PListF (esc : Bool) (l : List JVal) : Prop :=
  (∀ v ∈ l, FracsOK v) → ∀ body, l ≠ [] → renderList esc true l = some body →
    ∀ strict : Bool, (strict = true → esc = true) →
    ∀ fuel rest, body.length + 1 ≤ fuel → parseElems strict fuel (body ++ ']' :: rest) = some (l, rest)

def PMemF (esc : Bool) (l : List (Str × JVal)) : Prop :=
  (∀ kv ∈ l, FracsOK kv.2) → ∀ body, l ≠ [] → renderMembers esc true l = some body →
    ∀ strict : Bool, (strict = true → esc = true) →
    ∀ fuel rest, body.length + 1 ≤ fuel → parseMembers strict fuel (body ++ '}' :: rest) = some (l, rest)

theorem pvalF_null (esc : Bool) : PValF esc .null := by
  intro _ s h strict _ fuel rest hf _
  simp [render] at h; subst h
  obtain ⟨g, rfl⟩ : ∃ g, fuel = g + 1 := ⟨fuel - 1, by simp at hf; omega⟩
  exact parseVal_null ..

theorem pvalF_bool (esc : Bool) (b : Bool) : PValF esc (.bool b) := by
  intro _ s h strict _ fuel rest hf _
  cases b
  · simp [render] at h; subst h
    obtain ⟨g, rfl⟩ : ∃ g, fuel = g + 1 := ⟨fuel - 1, by simp at hf; omega⟩
    exact parseVal_false ..
  · simp [render] at h; subst h
    obtain ⟨g, rfl⟩ : ∃ g, fuel = g + 1 := ⟨fuel - 1, by simp at hf; omega⟩
    exact parseVal_true ..

theorem pvalF_num (esc : Bool) (i : Int) : PValF esc (.num i) := by
  intro _ s h strict _ fuel rest hf hfol
  simp [render] at h
  subst h
  obtain ⟨c, t, h1, h2⟩ := renderInt_start i
  obtain ⟨g, rfl⟩ : ∃ g, fuel = g + 1 := ⟨fuel - 1, by simp [h1] at hf; omega⟩
  have := parseNum_renderInt i rest hfol.numEnd
  rw [h1] at this ⊢
  rw [List.cons_append, parseVal_num strict g c _ h2]
  exact this

theorem pvalF_frac (esc : Bool) (l : Str) : PValF esc (.frac l) := by
  intro hv s h strict _ fuel rest hf hfol
  simp [render] at h
  subst h
  cases hv with
  | frac _ hl =>
    obtain ⟨⟨c, t, h1, h2⟩, hp⟩ := hl
    obtain ⟨g, rfl⟩ : ∃ g, fuel = g + 1 := ⟨fuel - 1, by simp [h1] at hf; omega⟩
    have := hp rest hfol.numEnd
    rw [h1] at this ⊢
    rw [List.cons_append, parseVal_num strict g c _ h2]
    exact this

theorem pvalF_str (esc : Bool) (s0 : Str) : PValF esc (.str s0) := by
  intro _ s h strict hse fuel rest hf _
  simp [render, renderStr] at h; subst h
  obtain ⟨g, rfl⟩ : ∃ g, fuel = g + 1 := ⟨fuel - 1, by simp at hf; omega⟩
  simp only [List.cons_append, List.append_assoc, parseVal_str]
  have := parseStrBody_renderStr strict esc hse s0 rest
  simp only [List.nil_append] at this ⊢
  rw [this]; rfl

theorem pvalF_arr (esc : Bool) (l : List JVal) (ih : PListF esc l) : PValF esc (.arr l) := by
  intro hv s h strict hse fuel rest hf _
  have hv' := (fracsOK_arr_iff l).1 hv
  simp only [render, Option.map_eq_some_iff] at h
  obtain ⟨body, hb, rfl⟩ := h
  obtain ⟨g, rfl⟩ : ∃ g, fuel = g + 1 := ⟨fuel - 1, by simp at hf; omega⟩
  by_cases hl : l = []
  · subst hl
    simp [renderList] at hb; subst hb
    exact parseVal_emptyArr ..
  · obtain ⟨c, t, hct, hws, hc⟩ := renderList_startF esc l hv' hl body hb
    have := ih hv' body hl hb strict hse g rest (by simp at hf; omega)
    simp only [List.cons_append, List.append_assoc, List.nil_append] at this ⊢
    rw [hct] at this ⊢
    rw [List.cons_append] at this ⊢
    rw [parseVal_arr strict g c _ hws hc, this]; rfl

theorem pvalF_obj (esc : Bool) (l : List (Str × JVal)) (ih : PMemF esc l) : PValF esc (.obj l) := by
  intro hv s h strict hse fuel rest hf _
  have hv' := (fracsOK_obj_iff l).1 hv
  simp only [render, Option.map_eq_some_iff] at h
  obtain ⟨body, hb, rfl⟩ := h
  obtain ⟨g, rfl⟩ : ∃ g, fuel = g + 1 := ⟨fuel - 1, by simp at hf; omega⟩
  by_cases hl : l = []
  · subst hl
    simp [renderMembers] at hb; subst hb
    exact parseVal_emptyObj ..
  · obtain ⟨t, hct⟩ := renderMembers_startF esc l hl body hb
    have := ih hv' body hl hb strict hse g rest (by simp at hf; omega)
    simp only [List.cons_append, List.append_assoc, List.nil_append] at this ⊢
    rw [hct] at this ⊢
    rw [List.cons_append] at this ⊢
    rw [parseVal_obj strict g '"' _ (by decide) (by decide), this]; rfl

theorem plistF_one (esc : Bool) (v : JVal) (ih : PValF esc v) : PListF esc [v] := by
  intro hv body _ h strict hse fuel rest hf
  simp only [renderList] at h
  obtain ⟨g, rfl⟩ : ∃ g, fuel = g + 1 := ⟨fuel - 1, by omega⟩
  exact parseElems_last strict g _ v rest
    (ih (hv v (by simp)) body h strict hse g (']' :: rest) (by omega) (follow_rbrack _))

theorem plistF_more (esc : Bool) (v w : JVal) (l : List JVal) (ih1 : PValF esc v) (ih2 : PListF esc (w :: l)) :
    PListF esc (v :: w :: l) := by
  intro hv body _ h strict hse fuel rest hf
  simp only [renderList] at h
  split at h
  · rename_i a b ha hb
    cases h
    obtain ⟨g, rfl⟩ : ∃ g, fuel = g + 1 := ⟨fuel - 1, by omega⟩
    simp only [List.length_append, List.length_cons] at hf
    have h1 := ih1 (hv v (by simp)) a ha strict hse g (',' :: (b ++ ']' :: rest)) (by omega) (follow_comma _)
    have h2 := ih2 (fun x hx => hv x (List.mem_cons_of_mem _ hx)) b (by simp) hb strict hse g rest (by omega)
    simp only [List.append_assoc, List.cons_append]
    rw [parseElems_more strict g _ v _ h1, h2]; rfl
  · cases h

theorem pmemF_one (esc : Bool) (k : Str) (v : JVal) (ih : PValF esc v) : PMemF esc [(k, v)] := by
  intro hv body _ h strict hse fuel rest hf
  simp only [renderMembers, Option.map_eq_some_iff] at h
  obtain ⟨a, ha, rfl⟩ := h
  obtain ⟨g, rfl⟩ : ∃ g, fuel = g + 1 := ⟨fuel - 1, by omega⟩
  simp only [renderStr, List.length_append, List.length_cons] at hf
  have hk := parseStrBody_renderStr strict esc hse k (':' :: (a ++ '}' :: rest))
  have hv := ih (hv (k, v) (by simp)) a ha strict hse g ('}' :: rest) (by omega) (follow_rbrace _)
  simp only [renderStr, List.append_assoc, List.cons_append, List.nil_append]
  exact parseMembers_last strict g _ k _ v rest hk hv

theorem pmemF_more (esc : Bool) (k : Str) (v : JVal) (m : Str × JVal) (l : List (Str × JVal))
    (ih1 : PValF esc v) (ih2 : PMemF esc (m :: l)) : PMemF esc ((k, v) :: m :: l) := by
  intro hv body _ h strict hse fuel rest hf
  simp only [renderMembers] at h
  split at h
  · rename_i a b ha hb
    cases h
    obtain ⟨g, rfl⟩ : ∃ g, fuel = g + 1 := ⟨fuel - 1, by omega⟩
    simp only [renderStr, List.length_append, List.length_cons] at hf
    have hk := parseStrBody_renderStr strict esc hse k (':' :: (a ++ ',' :: (b ++ '}' :: rest)))
    have h1 := ih1 (hv (k, v) (by simp)) a ha strict hse g (',' :: (b ++ '}' :: rest)) (by omega) (follow_comma _)
    have h2 := ih2 (fun x hx => hv x (List.mem_cons_of_mem _ hx)) b (by simp) hb strict hse g rest (by omega)
    simp only [renderStr, List.append_assoc, List.cons_append, List.nil_append]
    rw [parseMembers_more strict g _ k _ v _ hk h1, h2]; rfl
  · cases h

theorem pvalF_all (esc : Bool) (v : JVal) : PValF esc v := by
  refine render.induct esc true (PValF esc) (PMemF esc) (PListF esc)
    (pvalF_null esc) (pvalF_bool esc true) (pvalF_bool esc false)
    (fun i _ => pvalF_num esc i) (fun i _ => pvalF_num esc i)
    (fun l _ => pvalF_frac esc l) (fun l _ => pvalF_frac esc l)
    (pvalF_str esc) (pvalF_arr esc) (pvalF_obj esc)
    (fun _ _ h => absurd rfl h) (plistF_one esc)
    (fun v w rest _ _ _ _ ih1 ih2 => plistF_more esc v w rest ih1 ih2)
    (fun v w rest _ ih1 ih2 => plistF_more esc v w rest ih1 ih2)
    (fun _ _ h => absurd rfl h) (pmemF_one esc)
    (fun k v m rest _ _ _ _ ih1 ih2 => pmemF_more esc k v m rest ih1 ih2)
    (fun k v m rest _ ih1 ih2 => pmemF_more esc k v m rest ih1 ih2) v

/-- MAIN (file rendering): the strict parser reads what `json.Marshal` wrote back to exactly the
    value, provided the non-integral numbers in it are number literals -/
theorem parse_render_file (v : JVal) (hv : FracsOK v) (s : Str) (h : render true true v = some s) :
    parseJ s = some v := by
  have := pvalF_all true v hv s h true (fun _ => rfl) (s.length + 1) [] (by omega) follow_nil
  rw [List.append_nil] at this
  simp [parseJ, parseWith, this, skipWs]

/-- plain `json.Marshal` never refuses a value (so the hypothesis `dumpText m = some s` of the file
    round trips only names the text) -/
theorem render_file_isSome (esc : Bool) (v : JVal) : (render esc true v).isSome = true := by
  refine render.induct esc true
    (fun v => (render esc true v).isSome = true)
    (fun l => (renderMembers esc true l).isSome = true)
    (fun l => (renderList esc true l).isSome = true)
    ?_ ?_ ?_ ?_ ?_ ?_ ?_ ?_ ?_ ?_ ?_ ?_ ?_ ?_ ?_ ?_ ?_ ?_ v
  · simp [render]
  · simp [render]
  · simp [render]
  · intro i _; simp [render]
  · intro i h; simp at h
  · intro l _; simp [render]
  · intro l h; simp at h
  · intro s; simp [render]
  · intro l ih; simpa [render] using ih
  · intro l ih; simpa [render] using ih
  · simp [renderList]
  · intro v ih; simpa [renderList] using ih
  · intro v w rest a b hb ha _ _; simp [renderList, ha, hb]
  · intro v w rest hnone ih1 ih2
    obtain ⟨a, ha⟩ := Option.isSome_iff_exists.1 ih1
    obtain ⟨b, hb⟩ := Option.isSome_iff_exists.1 ih2
    exact (hnone a b ha hb).elim
  · simp [renderMembers]
  · intro k v ih; simpa [renderMembers] using ih
  · intro k v m rest a b hb ha _ _; simp [renderMembers, ha, hb]
  · intro k v m rest hnone ih1 ih2
    obtain ⟨a, ha⟩ := Option.isSome_iff_exists.1 ih1
    obtain ⟨b, hb⟩ := Option.isSome_iff_exists.1 ih2
    exact (hnone a b ha hb).elim

/-- a syntactic instance: digits, a point, digits -/
theorem fracLit_example : FracLit (lit% "1.5") := by
  refine ⟨⟨_, _, rfl, Or.inr (by decide)⟩, ?_⟩
  intro rest hend
  have h5 : takeDigits ('5' :: rest) = (['5'], rest) := by
    have := takeDigits_append ['5'] rest (by decide) (fun c t h => (hend c t h).1)
    simpa using this
  have h1 : takeDigits ('1' :: '.' :: '5' :: rest) = (['1'], '.' :: '5' :: rest) := by
    have := takeDigits_append ['1'] ('.' :: '5' :: rest) (by decide)
      (fun c t h => by simp at h; rw [← h.1]; decide)
    simpa using this
  rw [parseNum_pos _ (by intro t ht; simp at ht)]
  show parseNumCore false ('1' :: '.' :: '5' :: rest) = _
  unfold parseNumCore
  rw [h1]
  simp only [h5]
  cases rest with
  | nil => simp
  | cons c t =>
    obtain ⟨_, _, h2, h3⟩ := hend c t rfl
    simp [h2, h3]

/-- why `FracsOK` is needed: `json.Marshal` writes an opaque non-integral literal as it is, and a
    literal that is not a number does not parse -/
example : render true true (.frac (lit% "x")) = some (lit% "x") ∧ parseJ (lit% "x") = none := by
  constructor
  · simp [render]
  · simp [parseJ, parseWith, parseVal, skipWs, isWs, isDigit]

end JsonFile

section Bytes
open InToto InToto.B64 InToto.Glob

/-! ### UTF-8 -/

theorem decodeRune1 (b0 : UInt8) (rest : Bytes) (h0 : b0.toNat < 0x80) :
    decodeRune (b0 :: rest) = (b0.toNat, 1) := by
  have c1 : b0 < 0x80 := by rw [UInt8.lt_iff_toNat_lt]; simp; omega
  simp [decodeRune, c1]

theorem decodeRune2 (b0 b1 : UInt8) (rest : Bytes) (h0 : 0xC2 ≤ b0.toNat ∧ b0.toNat < 0xE0)
    (h1 : 0x80 ≤ b1.toNat ∧ b1.toNat ≤ 0xBF) :
    decodeRune (b0 :: b1 :: rest) = (b0.toNat % 32 * 64 + b1.toNat % 64, 2) := by
  have c1 : ¬ b0 < 0x80 := by rw [UInt8.lt_iff_toNat_lt]; simp; omega
  have c2 : ¬ b0 < 0xC2 := by rw [UInt8.lt_iff_toNat_lt]; simp; omega
  have c3 : b0 < 0xE0 := by rw [UInt8.lt_iff_toNat_lt]; simp; omega
  have c4 : isCont b1 = true := by simp [isCont, UInt8.le_iff_toNat_le]; omega
  simp [decodeRune, c1, c2, c3, c4]

theorem decodeRune3 (b0 b1 b2 : UInt8) (rest : Bytes) (h0 : 0xE0 ≤ b0.toNat ∧ b0.toNat < 0xF0)
    (h1 : (if b0.toNat = 0xE0 then 0xA0 else 0x80) ≤ b1.toNat ∧
      b1.toNat ≤ (if b0.toNat = 0xED then 0x9F else 0xBF))
    (h2 : 0x80 ≤ b2.toNat ∧ b2.toNat ≤ 0xBF) :
    decodeRune (b0 :: b1 :: b2 :: rest) =
      (b0.toNat % 16 * 4096 + b1.toNat % 64 * 64 + b2.toNat % 64, 3) := by
  have c1 : ¬ b0 < 0x80 := by rw [UInt8.lt_iff_toNat_lt]; simp; omega
  have c2 : ¬ b0 < 0xC2 := by rw [UInt8.lt_iff_toNat_lt]; simp; omega
  have c3 : ¬ b0 < 0xE0 := by rw [UInt8.lt_iff_toNat_lt]; simp; omega
  have c4 : b0 < 0xF0 := by rw [UInt8.lt_iff_toNat_lt]; simp; omega
  have c5 : isCont b2 = true := by simp [isCont, UInt8.le_iff_toNat_le]; omega
  have e1 : (b0 == 0xE0) = decide (b0.toNat = 0xE0) := by
    rw [Bool.eq_iff_iff]; simp [← UInt8.toNat_inj]
  have e2 : (b0 == 0xED) = decide (b0.toNat = 0xED) := by
    rw [Bool.eq_iff_iff]; simp [← UInt8.toNat_inj]
  simp only [decodeRune, c1, c2, c3, c4, c5, e1, e2, if_false, if_true]
  by_cases g1 : b0.toNat = 0xE0 <;> by_cases g2 : b0.toNat = 0xED <;>
    simp [g1, g2, UInt8.le_iff_toNat_le] at h1 ⊢ <;> omega

theorem decodeRune4 (b0 b1 b2 b3 : UInt8) (rest : Bytes) (h0 : 0xF0 ≤ b0.toNat ∧ b0.toNat < 0xF5)
    (h1 : (if b0.toNat = 0xF0 then 0x90 else 0x80) ≤ b1.toNat ∧
      b1.toNat ≤ (if b0.toNat = 0xF4 then 0x8F else 0xBF))
    (h2 : 0x80 ≤ b2.toNat ∧ b2.toNat ≤ 0xBF) (h3 : 0x80 ≤ b3.toNat ∧ b3.toNat ≤ 0xBF) :
    decodeRune (b0 :: b1 :: b2 :: b3 :: rest) =
      (b0.toNat % 8 * 262144 + b1.toNat % 64 * 4096 + b2.toNat % 64 * 64 + b3.toNat % 64, 4) := by
  have c1 : ¬ b0 < 0x80 := by rw [UInt8.lt_iff_toNat_lt]; simp; omega
  have c2 : ¬ b0 < 0xC2 := by rw [UInt8.lt_iff_toNat_lt]; simp; omega
  have c3 : ¬ b0 < 0xE0 := by rw [UInt8.lt_iff_toNat_lt]; simp; omega
  have c4 : ¬ b0 < 0xF0 := by rw [UInt8.lt_iff_toNat_lt]; simp; omega
  have c4' : b0 < 0xF5 := by rw [UInt8.lt_iff_toNat_lt]; simp; omega
  have c5 : isCont b2 = true := by simp [isCont, UInt8.le_iff_toNat_le]; omega
  have c6 : isCont b3 = true := by simp [isCont, UInt8.le_iff_toNat_le]; omega
  have e1 : (b0 == 0xF0) = decide (b0.toNat = 0xF0) := by
    rw [Bool.eq_iff_iff]; simp [← UInt8.toNat_inj]
  have e2 : (b0 == 0xF4) = decide (b0.toNat = 0xF4) := by
    rw [Bool.eq_iff_iff]; simp [← UInt8.toNat_inj]
  simp only [decodeRune, c1, c2, c3, c4, c4', c5, c6, e1, e2, if_false, if_true]
  by_cases g1 : b0.toNat = 0xF0 <;> by_cases g2 : b0.toNat = 0xF4 <;>
    simp [g1, g2, UInt8.le_iff_toNat_le] at h1 ⊢ <;> omega

theorem char_valid_nat (c : Char) : c.toNat < 0xD800 ∨ (0xDFFF < c.toNat ∧ c.toNat < 0x110000) := by
  have := c.valid
  simp only [UInt32.isValidChar, Nat.isValidChar] at this
  exact this

theorem toUInt8_toNat (k : Nat) (h : k < 256) : k.toUInt8.toNat = k := by
  simp; omega

/-- Go's rune decoder reads the UTF-8 encoding of a scalar value back -/
theorem decodeRune_utf8Char (c : Char) (rest : Bytes) :
    decodeRune (utf8Char c ++ rest) = (c.toNat, (utf8Char c).length) ∧
    (∃ b tl, utf8Char c = b :: tl) ∧ ((utf8Char c).length = 1 → c.toNat < 0x80) := by
  have hv := char_valid_nat c
  unfold utf8Char
  simp only []
  split
  · rename_i h
    refine ⟨?_, ⟨_, _, rfl⟩, fun _ => h⟩
    have e := toUInt8_toNat c.toNat (by omega)
    rw [List.cons_append, List.nil_append, decodeRune1 _ _ (by omega), e]
    rfl
  split
  · rename_i h1 h2
    refine ⟨?_, ⟨_, _, rfl⟩, fun hl => by simp at hl⟩
    have e0 := toUInt8_toNat (0xC0 + c.toNat / 64) (by omega)
    have e1 := toUInt8_toNat (0x80 + c.toNat % 64) (by omega)
    simp only [List.cons_append, List.nil_append]
    rw [decodeRune2 _ _ _ (by omega) (by omega), e0, e1]
    simp only [List.length_cons, List.length_nil, Prod.mk.injEq, and_true]
    omega
  split
  · rename_i h1 h2 h3
    refine ⟨?_, ⟨_, _, rfl⟩, fun hl => by simp at hl⟩
    have e0 := toUInt8_toNat (0xE0 + c.toNat / 4096) (by omega)
    have e1 := toUInt8_toNat (0x80 + c.toNat / 64 % 64) (by omega)
    have e2 := toUInt8_toNat (0x80 + c.toNat % 64) (by omega)
    simp only [List.cons_append, List.nil_append]
    rw [decodeRune3 _ _ _ _ (by omega) (by rw [e0, e1]; split <;> split <;> omega) (by omega), e0, e1, e2]
    simp only [List.length_cons, List.length_nil, Prod.mk.injEq, and_true]
    omega
  · rename_i h1 h2 h3
    refine ⟨?_, ⟨_, _, rfl⟩, fun hl => by simp at hl⟩
    have e0 := toUInt8_toNat (0xF0 + c.toNat / 262144) (by omega)
    have e1 := toUInt8_toNat (0x80 + c.toNat / 4096 % 64) (by omega)
    have e2 := toUInt8_toNat (0x80 + c.toNat / 64 % 64) (by omega)
    have e3 := toUInt8_toNat (0x80 + c.toNat % 64) (by omega)
    simp only [List.cons_append, List.nil_append]
    rw [decodeRune4 _ _ _ _ _ (by omega) (by rw [e0, e1]; split <;> split <;> omega) (by omega) (by omega),
      e0, e1, e2, e3]
    simp only [List.length_cons, List.length_nil, Prod.mk.injEq, and_true]
    omega

theorem utf8_cons (c : Char) (s : Str) : utf8 (c :: s) = utf8Char c ++ utf8 s := by
  simp [utf8]

theorem utf8_length_ge (s : Str) : s.length ≤ (utf8 s).length := by
  induction s with
  | nil => simp [utf8]
  | cons c s ih =>
    obtain ⟨_, ⟨b, tl, hb⟩, _⟩ := decodeRune_utf8Char c []
    rw [utf8_cons, List.length_append, hb]
    simp only [List.length_cons]
    omega

theorem utf8Decode_utf8 (s : Str) : ∀ fuel, s.length < fuel → utf8Decode fuel (utf8 s) = some s := by
  induction s with
  | nil =>
    intro fuel hf
    obtain ⟨g, rfl⟩ : ∃ g, fuel = g + 1 := ⟨fuel - 1, by simp at hf; omega⟩
    simp [utf8, utf8Decode]
  | cons c s ih =>
    intro fuel hf
    obtain ⟨g, rfl⟩ : ∃ g, fuel = g + 1 := ⟨fuel - 1, by simp at hf; omega⟩
    obtain ⟨hd, ⟨b, tl, hb⟩, h1⟩ := decodeRune_utf8Char c (utf8 s)
    have hne : ¬(c.toNat = runeError ∧ (utf8Char c).length = 1) := by
      rintro ⟨e1, e2⟩
      have := h1 e2
      simp [runeError] at e1
      omega
    have ih' := ih g (by simp at hf; omega)
    rw [utf8_cons]
    rw [hb] at hd hne ⊢
    simp only [List.cons_append] at hd ⊢
    rw [utf8Decode]
    simp only [hd]
    rw [if_neg (fun h => hne ⟨h.1, h.2.1⟩), if_neg hne]
    have hdrop : (b :: (tl ++ utf8 s)).drop (b :: tl).length = utf8 s := by simp
    rw [hdrop, ih']
    simp

/-- UTF-8 decoding reads the encoding of a model string back -/
theorem bytesToStr_utf8 (s : Str) : bytesToStr (utf8 s) = some s :=
  utf8Decode_utf8 s _ (by have := utf8_length_ge s; omega)

/-! ### base64 -/

theorem digit_alphaStd : ∀ n : Fin 64, digit false (alphaStd n.val) = some n.val ∧ alphaStd n.val ≠ '=' ∧
    alphaStd n.val ≠ '\r' ∧ alphaStd n.val ≠ '\n' := by decide

theorem digit_alpha (n : Nat) (h : n < 64) : digit false (alphaStd n) = some n := (digit_alphaStd ⟨n, h⟩).1
theorem alpha_ne_pad (n : Nat) (h : n < 64) : alphaStd n ≠ '=' := (digit_alphaStd ⟨n, h⟩).2.1
theorem alpha_keep (n : Nat) (h : n < 64) : (!(alphaStd n = '\r' || alphaStd n = '\n')) = true := by
  have := digit_alphaStd ⟨n, h⟩
  simp [this.2.2.1, this.2.2.2]

theorem stripNl_cons_alpha (n : Nat) (h : n < 64) (t : Str) :
    stripNl (alphaStd n :: t) = alphaStd n :: stripNl t := by
  have := digit_alphaStd ⟨n, h⟩
  simp [stripNl, this.2.2.1, this.2.2.2]

theorem stripNl_cons_pad (t : Str) : stripNl ('=' :: t) = '=' :: stripNl t := by
  simp [stripNl]

theorem stripNl_encode (bs : List UInt8) : stripNl (encode bs) = encode bs := by
  induction bs using encode.induct with
  | case1 => simp [encode, stripNl]
  | case2 a =>
    have := a.toNat_lt
    simp only [encode]
    rw [stripNl_cons_alpha _ (by omega), stripNl_cons_alpha _ (by omega), stripNl_cons_pad, stripNl_cons_pad]
    rfl
  | case3 a b =>
    have := a.toNat_lt; have := b.toNat_lt
    simp only [encode]
    rw [stripNl_cons_alpha _ (by omega), stripNl_cons_alpha _ (by omega), stripNl_cons_alpha _ (by omega),
      stripNl_cons_pad]
    rfl
  | case4 a b c rest ih =>
    have := a.toNat_lt; have := b.toNat_lt; have := c.toNat_lt
    simp only [encode]
    rw [stripNl_cons_alpha _ (by omega), stripNl_cons_alpha _ (by omega), stripNl_cons_alpha _ (by omega),
      stripNl_cons_alpha _ (by omega), ih]

/-- a full quantum (last character not padding) -/
theorem decodeQ_quad (url : Bool) (fuel : Nat) (a b c d : Char) (rest : Str) (hd : d ≠ '=') :
    decodeQ url (fuel + 1) (a :: b :: c :: d :: rest) =
      match digit url a, digit url b, digit url c, digit url d with
      | some w, some x, some y, some z =>
        let n := w * 262144 + x * 4096 + y * 64 + z
        (decodeQ url fuel rest).map fun r => (n / 65536).toUInt8 :: (n / 256 % 256).toUInt8 :: (n % 256).toUInt8 :: r
      | _, _, _, _ => none := by
  conv => lhs; unfold decodeQ
  split
  · rename_i heq; simp at heq
  · rename_i heq; simp at heq; exact absurd heq.2.2.2.1 hd
  · rename_i heq; simp at heq; exact absurd heq.2.2.2.1 hd
  · rename_i heq
    simp at heq
    obtain ⟨rfl, rfl, rfl, rfl, rfl⟩ := heq
    rfl
  · rename_i h1 h2 h3 h4 h5
    exact (h5 a b c d rest rfl).elim

theorem decodeQ_encode (bs : List UInt8) : ∀ fuel, (encode bs).length < fuel → decodeQ false fuel (encode bs) = some bs := by
  induction bs using encode.induct with
  | case1 =>
    intro fuel hf
    obtain ⟨g, rfl⟩ : ∃ g, fuel = g + 1 := ⟨fuel - 1, by omega⟩
    simp [encode, decodeQ]
  | case2 a =>
    intro fuel hf
    obtain ⟨g, rfl⟩ : ∃ g, fuel = g + 1 := ⟨fuel - 1, by omega⟩
    have := a.toNat_lt
    simp only [encode, decodeQ, digit_alpha (a.toNat / 4) (by omega), digit_alpha (a.toNat % 4 * 16) (by omega)]
    have e : a.toNat / 4 * 4 + a.toNat % 4 * 16 / 16 = a.toNat := by omega
    rw [e]; simp
  | case3 a b =>
    intro fuel hf
    obtain ⟨g, rfl⟩ : ∃ g, fuel = g + 1 := ⟨fuel - 1, by omega⟩
    have := a.toNat_lt; have := b.toNat_lt
    have hc : alphaStd ((a.toNat * 256 + b.toNat) % 16 * 4) ≠ '=' := alpha_ne_pad _ (by omega)
    simp only [encode]
    conv => lhs; unfold decodeQ
    split
    · rename_i heq; simp at heq
    · rename_i heq; simp at heq; exact absurd heq.2.2 hc
    · rename_i heq
      simp at heq
      obtain ⟨rfl, rfl, rfl⟩ := heq
      simp only [digit_alpha ((a.toNat * 256 + b.toNat) / 1024) (by omega),
        digit_alpha ((a.toNat * 256 + b.toNat) / 16 % 64) (by omega),
        digit_alpha ((a.toNat * 256 + b.toNat) % 16 * 4) (by omega)]
      have e1 : ((a.toNat * 256 + b.toNat) / 1024 * 4096 + (a.toNat * 256 + b.toNat) / 16 % 64 * 64 +
          (a.toNat * 256 + b.toNat) % 16 * 4) / 1024 = a.toNat := by omega
      have e2 : ((a.toNat * 256 + b.toNat) / 1024 * 4096 + (a.toNat * 256 + b.toNat) / 16 % 64 * 64 +
          (a.toNat * 256 + b.toNat) % 16 * 4) / 4 % 256 = b.toNat := by omega
      rw [e1, e2]; simp
    · rename_i x1 x2 heq
      simp at heq
      exact (x2 heq.2.2.2.1.symm heq.2.2.2.2).elim
    · rename_i h1 h2 h3 h4 h5
      exact (h4 _ _ _ rfl).elim
  | case4 a b c rest ih =>
    intro fuel hf
    obtain ⟨g, rfl⟩ : ∃ g, fuel = g + 1 := ⟨fuel - 1, by omega⟩
    have := a.toNat_lt; have := b.toNat_lt; have := c.toNat_lt
    simp only [encode] at hf ⊢
    rw [decodeQ_quad _ _ _ _ _ _ _ (alpha_ne_pad _ (by omega))]
    simp only [digit_alpha ((a.toNat * 65536 + b.toNat * 256 + c.toNat) / 262144) (by omega),
      digit_alpha ((a.toNat * 65536 + b.toNat * 256 + c.toNat) / 4096 % 64) (by omega),
      digit_alpha ((a.toNat * 65536 + b.toNat * 256 + c.toNat) / 64 % 64) (by omega),
      digit_alpha ((a.toNat * 65536 + b.toNat * 256 + c.toNat) % 64) (by omega)]
    rw [ih g (by simp at hf; omega)]
    have e : (a.toNat * 65536 + b.toNat * 256 + c.toNat) / 262144 * 262144 +
        (a.toNat * 65536 + b.toNat * 256 + c.toNat) / 4096 % 64 * 4096 +
        (a.toNat * 65536 + b.toNat * 256 + c.toNat) / 64 % 64 * 64 +
        (a.toNat * 65536 + b.toNat * 256 + c.toNat) % 64 = a.toNat * 65536 + b.toNat * 256 + c.toNat := by omega
    simp only [e, Option.map_some]
    have e1 : (a.toNat * 65536 + b.toNat * 256 + c.toNat) / 65536 = a.toNat := by omega
    have e2 : (a.toNat * 65536 + b.toNat * 256 + c.toNat) / 256 % 256 = b.toNat := by omega
    have e3 : (a.toNat * 65536 + b.toNat * 256 + c.toNat) % 256 = c.toNat := by omega
    rw [e1, e2, e3]; simp

/-- the flexible DSSE decoder reads a standard base64 encoding back -/
theorem decodeFlex_encode (bs : List UInt8) : decodeFlex (encode bs) = some bs := by
  have : decodeWith false (encode bs) = some bs := by
    simp only [decodeWith, stripNl_encode]
    exact decodeQ_encode bs _ (by omega)
  simp [decodeFlex, this]

end Bytes

section Sorted
open InToto InToto.Json InToto.Schema InToto.Metadata InToto.SchemaProofs

/-- order of members by key (the comparison `sortKeys` uses) -/
def keyLt {β} (a b : Str × β) : Bool := strLt a.1 b.1

mutual
  /-- maps (and the objects inside `interface{}` values) listed in key order, recursively;
      struct fields keep their schema order -/
  def sortT : TVal → TVal
    | .any v => .any (sortKeys v)
    | .list (some l) => .list (some (sortTList l))
    | .map (some m) => .map (some (sortBy keyLt (sortTMap m)))
    | .struct fs => .struct (sortTMap fs)
    | v => v
  def sortTList : List TVal → List TVal
    | [] => []
    | v :: rest => sortT v :: sortTList rest
  def sortTMap : List (Str × TVal) → List (Str × TVal)
    | [] => []
    | (k, v) :: rest => (k, sortT v) :: sortTMap rest
end

/-! ### insertion sort -/

theorem insertSorted_perm {α} (lt : α → α → Bool) (x : α) (l : List α) :
    (insertSorted lt x l).Perm (x :: l) := by
  induction l with
  | nil => exact .refl _
  | cons y ys ih =>
    simp only [insertSorted]
    split
    · exact .refl _
    · exact ((List.Perm.cons y ih).trans (List.Perm.swap x y ys))

theorem sortBy_perm {α} (lt : α → α → Bool) (l : List α) : (sortBy lt l).Perm l := by
  induction l with
  | nil => exact .refl _
  | cons x l ih =>
    simp only [sortBy, List.foldr_cons] at ih ⊢
    exact (insertSorted_perm lt x _).trans (List.Perm.cons x ih)

/-- sorting by key commutes with a map that keeps the keys -/
theorem insertSorted_mapVal {α β} (f : α → β) (x : Str × α) (l : List (Str × α)) :
    insertSorted keyLt (x.1, f x.2) (l.map fun kv => (kv.1, f kv.2)) =
      (insertSorted keyLt x l).map fun kv => (kv.1, f kv.2) := by
  induction l with
  | nil => rfl
  | cons y ys ih =>
    simp only [List.map_cons, insertSorted, keyLt]
    by_cases h : strLt x.1 y.1 = true
    · simp [h]
    · simp only [h, Bool.false_eq_true, if_false, List.map_cons]; rw [← ih]

theorem sortBy_mapVal {α β} (f : α → β) (l : List (Str × α)) :
    sortBy keyLt (l.map fun kv => (kv.1, f kv.2)) = (sortBy keyLt l).map fun kv => (kv.1, f kv.2) := by
  induction l with
  | nil => rfl
  | cons x l ih =>
    simp only [sortBy, List.map_cons, List.foldr_cons] at ih ⊢
    rw [ih]
    exact insertSorted_mapVal f x _

theorem sortKeysMembers_eq_map (l : List (Str × JVal)) :
    sortKeysMembers l = l.map fun kv => (kv.1, sortKeys kv.2) := by
  induction l with
  | nil => simp [sortKeysMembers]
  | cons a l ih => obtain ⟨k, v⟩ := a; simp [sortKeysMembers, ih]

theorem sortKeysList_eq_map (l : List JVal) : sortKeysList l = l.map sortKeys := by
  induction l with
  | nil => simp [sortKeysList]
  | cons a l ih => simp [sortKeysList, ih]

theorem sortTMap_eq_map (l : List (Str × TVal)) : sortTMap l = l.map fun kv => (kv.1, sortT kv.2) := by
  induction l with
  | nil => simp [sortTMap]
  | cons a l ih => obtain ⟨k, v⟩ := a; simp [sortTMap, ih]

theorem sortKeys_obj (l : List (Str × JVal)) :
    sortKeys (.obj l) = .obj (sortBy keyLt (sortKeysMembers l)) := by
  simp only [sortKeys]
  rfl

/-! ### `interface{}` values stay duplicate-free -/

theorem uniqueKeys_sortKeys (v : JVal) (h : UniqueKeys v) : UniqueKeys (sortKeys v) := by
  induction h with
  | null => simpa [sortKeys] using UniqueKeys.null
  | bool b => simpa [sortKeys] using UniqueKeys.bool b
  | num i => simpa [sortKeys] using UniqueKeys.num i
  | frac l => simpa [sortKeys] using UniqueKeys.frac l
  | str s => simpa [sortKeys] using UniqueKeys.str s
  | arr l _ ih =>
    simp only [sortKeys, sortKeysList_eq_map]
    refine .arr _ ?_
    intro v hv
    obtain ⟨w, hw, rfl⟩ := List.mem_map.1 hv
    exact ih w hw
  | obj l hnd _ ih =>
    rw [sortKeys_obj]
    have hp := sortBy_perm keyLt (sortKeysMembers l)
    refine .obj _ ?_ ?_
    · rw [(hp.map Prod.fst).nodup_iff, sortKeysMembers_eq_map]
      simpa [List.map_map, Function.comp_def] using hnd
    · intro kv hkv
      have := hp.subset hkv
      rw [sortKeysMembers_eq_map] at this
      obtain ⟨w, hw, rfl⟩ := List.mem_map.1 this
      exact ih w hw

/-! ### struct members in any order -/

/-- one member assigned to a struct (one iteration of `decodeFields`) -/
def stepF (strict : Bool) (fs : List (Str × Bool × Ty)) (acc : List (Str × TVal)) (m : Str × JVal) :
    Option (List (Str × TVal)) :=
  match findField fs m.1 with
  | none => if strict then none else some acc
  | some i =>
    match fs[i]?, acc[i]? with
    | some f, some (n, cur) =>
      match decode strict f.2.2 cur m.2 with
      | some v => some (setNth acc i (n, v))
      | none => none
    | _, _ => none

theorem decodeFields_cons (strict : Bool) (fs : List (Str × Bool × Ty)) (m : Str × JVal)
    (rest : List (Str × JVal)) (acc : List (Str × TVal)) :
    decodeFields strict fs (m :: rest) acc = (stepF strict fs acc m).bind (decodeFields strict fs rest) := by
  obtain ⟨k, j⟩ := m
  simp only [decodeFields, stepF]
  cases h : findField fs k with
  | none => cases strict <;> simp
  | some i =>
    simp only []
    cases hf : fs[i]? with
    | none => simp
    | some f =>
      cases ha : acc[i]? with
      | none => simp
      | some nc =>
        obtain ⟨n, c⟩ := nc
        cases hd : decode strict f.2.2 c j <;> simp [hd]

theorem decodeFields_foldl (strict : Bool) (fs : List (Str × Bool × Ty)) (L : List (Str × JVal)) :
    ∀ acc : Option (List (Str × TVal)),
      acc.bind (decodeFields strict fs L) = L.foldl (fun o m => o.bind fun a => stepF strict fs a m) acc := by
  induction L with
  | nil => intro acc; cases acc <;> simp [decodeFields]
  | cons m L ih =>
    intro acc
    rw [List.foldl_cons, ← ih]
    cases acc with
    | none => simp
    | some a => simp [decodeFields_cons]

theorem getElem?_setNth_ne {α} (l : List α) (i j : Nat) (a : α) (h : i ≠ j) : (setNth l i a)[j]? = l[j]? := by
  induction l generalizing i j with
  | nil => simp [setNth]
  | cons x l ih =>
    cases i with
    | zero =>
      cases j with
      | zero => exact absurd rfl h
      | succ j => simp [setNth]
    | succ i =>
      cases j with
      | zero => simp [setNth]
      | succ j => simp [setNth, ih i j (by omega)]

theorem setNth_comm {α} (l : List α) (i j : Nat) (a b : α) (h : i ≠ j) :
    setNth (setNth l i a) j b = setNth (setNth l j b) i a := by
  induction l generalizing i j with
  | nil => simp [setNth]
  | cons x l ih =>
    cases i with
    | zero =>
      cases j with
      | zero => exact absurd rfl h
      | succ j => simp [setNth]
    | succ i =>
      cases j with
      | zero => simp [setNth]
      | succ j => simp [setNth, ih i j (by omega)]

set_option linter.unusedSimpArgs false in
/-- assignments to different fields commute -/
theorem stepF_comm (strict : Bool) (fs : List (Str × Bool × Ty)) (x y : Str × JVal) (i i' : Nat)
    (hx : findField fs x.1 = some i) (hy : findField fs y.1 = some i') (hne : i ≠ i')
    (acc : List (Str × TVal)) :
    (stepF strict fs acc x).bind (fun a => stepF strict fs a y) =
      (stepF strict fs acc y).bind (fun a => stepF strict fs a x) := by
  simp only [stepF, hx, hy]
  cases hf : fs[i]? with
  | none =>
    cases hf' : fs[i']? with
    | none => simp
    | some f' =>
      cases ha' : acc[i']? with
      | none => simp
      | some nc' =>
        obtain ⟨n', c'⟩ := nc'
        cases hd' : decode strict f'.2.2 c' y.2 <;> simp [hf, hd']
  | some f =>
    cases hf' : fs[i']? with
    | none =>
      cases ha : acc[i]? with
      | none => simp
      | some nc =>
        obtain ⟨n, c⟩ := nc
        cases hd : decode strict f.2.2 c x.2 <;> simp [hf', hd]
    | some f' =>
      cases ha : acc[i]? with
      | none =>
        cases ha' : acc[i']? with
        | none => simp
        | some nc' =>
          obtain ⟨n', c'⟩ := nc'
          cases hd' : decode strict f'.2.2 c' y.2 <;>
            simp [hf, hd', getElem?_setNth_ne acc i' i _ (Ne.symm hne), ha]
      | some nc =>
        obtain ⟨n, c⟩ := nc
        cases ha' : acc[i']? with
        | none =>
          cases hd : decode strict f.2.2 c x.2 <;>
            simp [hf', hd, getElem?_setNth_ne acc i i' _ hne, ha']
        | some nc' =>
          obtain ⟨n', c'⟩ := nc'
          cases hd : decode strict f.2.2 c x.2 <;> cases hd' : decode strict f'.2.2 c' y.2 <;>
            simp [hf, hf', getElem?_setNth_ne acc i i' _ hne, getElem?_setNth_ne acc i' i _ (Ne.symm hne),
              ha, ha', hd, hd', setNth_comm acc i i' _ _ hne]

theorem findField_exact (fs : List (Str × Bool × Ty)) (k : Str) (hk : k ∈ fs.map fun f => f.1) :
    ∃ i f, findField fs k = some i ∧ fs[i]? = some f ∧ f.1 = k := by
  unfold findField
  cases h : fs.findIdx? (fun f => f.1 = k) with
  | none =>
    rw [List.findIdx?_eq_none_iff] at h
    obtain ⟨f, hf, rfl⟩ := List.mem_map.1 hk
    have := h f hf
    simp at this
  | some i =>
    rw [List.findIdx?_eq_some_iff_getElem] at h
    obtain ⟨hi, hp, _⟩ := h
    refine ⟨i, fs[i], rfl, by simp [hi], by simpa using hp⟩

theorem eq_of_key_eq {β} (L : List (Str × β)) (hnd : (L.map Prod.fst).Nodup) (x y : Str × β)
    (hx : x ∈ L) (hy : y ∈ L) (h : x.1 = y.1) : x = y := by
  induction L with
  | nil => cases hx
  | cons a L ih =>
    rw [List.map_cons, List.nodup_cons] at hnd
    rcases List.mem_cons.1 hx with hxa | hx' <;> rcases List.mem_cons.1 hy with hya | hy'
    · rw [hxa, hya]
    · exfalso; apply hnd.1; rw [← hxa, h]; exact List.mem_map_of_mem (f := Prod.fst) hy'
    · exfalso; apply hnd.1; rw [← hya, ← h]; exact List.mem_map_of_mem (f := Prod.fst) hx'
    · exact ih hnd.2 hx' hy'

/-- the order in which distinct, exactly named members arrive does not matter -/
theorem decodeFields_perm (strict : Bool) (fs : List (Str × Bool × Ty)) (L L' : List (Str × JVal))
    (hp : L.Perm L') (hnd : (L.map Prod.fst).Nodup) (hk : ∀ m ∈ L, m.1 ∈ fs.map fun f => f.1)
    (acc : List (Str × TVal)) :
    decodeFields strict fs L acc = decodeFields strict fs L' acc := by
  have h1 := decodeFields_foldl strict fs L (some acc)
  have h2 := decodeFields_foldl strict fs L' (some acc)
  simp only [Option.bind_some] at h1 h2
  rw [h1, h2]
  apply List.Perm.foldl_eq' hp
  intro x hx y hy z
  cases z with
  | none => simp
  | some a =>
    by_cases hxy : x = y
    · subst hxy; rfl
    · obtain ⟨i, f, hi, hfi, hfk⟩ := findField_exact fs x.1 (hk x hx)
      obtain ⟨i', f', hi', hfi', hfk'⟩ := findField_exact fs y.1 (hk y hy)
      have hne : i ≠ i' := by
        intro e
        subst e
        rw [hfi] at hfi'
        cases hfi'
        exact hxy (eq_of_key_eq L hnd x y hx hy (hfk.symm.trans hfk'))
      simpa using stepF_comm strict fs x y i i' hi hi' hne a

/-! ### decoding the canonical encoding -/

theorem sortT_zero (t : Ty) : sortT (zero t) = zero t := by
  refine zero.induct (fun t => sortT (zero t) = zero t) (fun fs => sortTMap (zeroFields fs) = zeroFields fs)
    ?_ ?_ ?_ ?_ ?_ ?_ ?_ ?_ t
  · simp [zero, sortT]
  · simp [zero, sortT]
  · simp [zero, sortT, sortKeys]
  · intro a; simp [zero, sortT]
  · intro a; simp [zero, sortT]
  · intro fs ih; simp [zero, sortT, ih]
  · simp [zeroFields, sortTMap]
  · intro n om t rest ih1 ih2; simp [zeroFields, sortTMap, ih1, ih2]

theorem decodeList_sorted (strict : Bool) (t : Ty) (l : List TVal)
    (h : ∀ v ∈ l, decode strict t (zero t) (sortKeys (encode t v)) = some (sortT (normOmit t v))) :
    decodeList strict t (sortKeysList (encodeList t l)) = some (sortTList (normOmitList t l)) := by
  induction l with
  | nil => simp [encodeList, sortKeysList, decodeList, normOmitList, sortTList]
  | cons a l ih =>
    simp [encodeList, sortKeysList, decodeList, normOmitList, sortTList, h a (by simp),
      ih (fun v hv => h v (by simp [hv]))]

theorem decodeMap_mapped (strict : Bool) (t : Ty) (enc : TVal → JVal) (nrm : TVal → TVal)
    (M : List (Str × TVal)) (h : ∀ kv ∈ M, decode strict t (zero t) (enc kv.2) = some (nrm kv.2)) :
    ∀ acc : List (Str × TVal), (acc.map Prod.fst ++ M.map Prod.fst).Nodup →
      decodeMap strict t (M.map fun kv => (kv.1, enc kv.2)) acc =
        some (acc ++ M.map fun kv => (kv.1, nrm kv.2)) := by
  induction M with
  | nil => intro acc _; simp [decodeMap]
  | cons a M ih =>
    intro acc hnd
    obtain ⟨k, v⟩ := a
    have hk : k ∉ acc.map Prod.fst := by
      intro hmem
      rw [List.nodup_append] at hnd
      exact hnd.2.2 k hmem k (by simp) rfl
    have hv := h (k, v) (by simp)
    simp only at hv
    simp only [List.map_cons, decodeMap, hv]
    rw [setAssoc_append k _ acc hk, ih (fun kv hkv => h kv (by simp [hkv]))]
    · simp
    · simpa using hnd

theorem encodeMap_eq_map (t : Ty) (m : List (Str × TVal)) :
    encodeMap t m = m.map fun kv => (kv.1, encode t kv.2) := by
  induction m with
  | nil => simp [encodeMap]
  | cons a m ih => obtain ⟨k, v⟩ := a; simp [encodeMap, ih]

theorem normOmitMap_eq_map (t : Ty) (m : List (Str × TVal)) :
    normOmitMap t m = m.map fun kv => (kv.1, normOmit t kv.2) := by
  induction m with
  | nil => simp [normOmitMap]
  | cons a m ih => obtain ⟨k, v⟩ := a; simp [normOmitMap, ih]

theorem decodeMap_sorted (strict : Bool) (t : Ty) (m : List (Str × TVal)) (hnd : (m.map Prod.fst).Nodup)
    (h : ∀ kv ∈ m, decode strict t (zero t) (sortKeys (encode t kv.2)) = some (sortT (normOmit t kv.2))) :
    decodeMap strict t (sortBy keyLt (sortKeysMembers (encodeMap t m))) [] =
      some (sortBy keyLt (sortTMap (normOmitMap t m))) := by
  have hp := sortBy_perm keyLt m
  have e1 : sortKeysMembers (encodeMap t m) = m.map fun kv => (kv.1, (fun v => sortKeys (encode t v)) kv.2) := by
    rw [sortKeysMembers_eq_map, encodeMap_eq_map, List.map_map]; rfl
  have e2 : sortTMap (normOmitMap t m) = m.map fun kv => (kv.1, (fun v => sortT (normOmit t v)) kv.2) := by
    rw [sortTMap_eq_map, normOmitMap_eq_map, List.map_map]; rfl
  rw [e1, e2, sortBy_mapVal (fun v => sortKeys (encode t v)) m, sortBy_mapVal (fun v => sortT (normOmit t v)) m]
  have := decodeMap_mapped strict t (fun v => sortKeys (encode t v)) (fun v => sortT (normOmit t v))
    (sortBy keyLt m) (fun kv hkv => h kv (hp.subset hkv)) []
    (by simpa using ((hp.map Prod.fst).nodup_iff).2 hnd)
  simpa using this

theorem decodeFields_sortedSchemaOrder (strict : Bool) (fs : List (Str × Bool × Ty))
    (hnd : (fs.map fun f => f.1).Nodup)
    (H : ∀ f ∈ fs, ∀ v, WT f.2.2 v →
      decode strict f.2.2 (zero f.2.2) (sortKeys (encode f.2.2 v)) = some (sortT (normOmit f.2.2 v))) :
    ∀ (suf pre : List (Str × Bool × Ty)) (vs A : List (Str × TVal)),
      fs = pre ++ suf → A.length = pre.length → WTFields suf vs →
      decodeFields strict fs (sortKeysMembers (encodeFields suf vs)) (A ++ zeroFields suf)
        = some (A ++ sortTMap (normOmitFields suf vs)) := by
  intro suf
  induction suf with
  | nil =>
    intro pre vs A _ _ hw
    cases hw
    simp [encodeFields, sortKeysMembers, decodeFields, zeroFields, normOmitFields, sortTMap]
  | cons f suf ih =>
    intro pre vs A hfs hlen hw
    cases hw with
    | cons n om t v _ vs' hv hrest =>
    have hfs' : fs = (pre ++ [(n, om, t)]) ++ suf := by simp [hfs]
    by_cases hom : (om && isEmptyValue v) = true
    · have := ih (pre ++ [(n, om, t)]) vs' (A ++ [(n, zero t)]) hfs' (by simp [hlen]) hrest
      simp only [encodeFields, hom, if_true, zeroFields, normOmitFields, sortTMap, sortT_zero]
      simpa using this
    · have hmem : (n, om, t) ∈ fs := by simp [hfs]
      have hdec := H _ hmem v hv
      simp only at hdec
      have hpre : ∀ a ∈ pre, a.1 ≠ n := by
        intro a ha e
        rw [hfs, List.map_append, List.nodup_append] at hnd
        exact hnd.2.2 a.1 (List.mem_map_of_mem ha) n (by simp) e
      have hfind : findField fs n = some A.length := by
        rw [hfs, hlen]; exact findField_hit pre (n, om, t) suf hpre
      have hfsi : fs[A.length]? = some (n, om, t) := by
        rw [hfs, hlen]; simp
      have hacci : (A ++ (n, zero t) :: zeroFields suf)[A.length]? = some (n, zero t) := by simp
      have := ih (pre ++ [(n, om, t)]) vs' (A ++ [(n, sortT (normOmit t v))]) hfs' (by simp [hlen]) hrest
      simp only [encodeFields, hom, zeroFields, normOmitFields, sortTMap, sortKeysMembers, Bool.false_eq_true,
        ↓reduceIte, decodeFields, hfind, hfsi, hacci, hdec, setNth_append]
      simpa using this

theorem encodeFields_keys_sublist (fs : List (Str × Bool × Ty)) (vs : List (Str × TVal)) :
    ((encodeFields fs vs).map Prod.fst).Sublist (fs.map fun f => f.1) := by
  induction fs generalizing vs with
  | nil => simp [encodeFields]
  | cons f fs ih =>
    obtain ⟨n, om, t⟩ := f
    cases vs with
    | nil => simp [encodeFields]
    | cons a vs =>
      obtain ⟨k, v⟩ := a
      simp only [encodeFields]
      split
      · exact (ih vs).trans (List.sublist_cons_self _ _)
      · simpa using (ih vs)

theorem decode_sorted_aux (strict : Bool) : ∀ (n : Nat) (ty : Ty), sizeOf ty < n → ∀ v, GoodTy ty → WT ty v →
    decode strict ty (zero ty) (sortKeys (encode ty v)) = some (sortT (normOmit ty v)) := by
  intro n
  induction n with
  | zero => intro ty h; omega
  | succ n ih =>
    intro ty hsz v hg hw
    cases hw with
    | str s => simp [encode, sortKeys, decode, normOmit, sortT]
    | int i h1 h2 => simp [encode, sortKeys, decode, normOmit, sortT, h1, h2]
    | any j hj => simp [encode, decode, normOmit, sortT, normAny_id _ (uniqueKeys_sortKeys j hj)]
    | listNil t => simp [encode, sortKeys, decode, normOmit, sortT]
    | list t l hl =>
      cases hg with
      | list _ hgt =>
        have hlt : sizeOf t < n := by simp only [Ty.list.sizeOf_spec] at hsz; omega
        have := decodeList_sorted strict t l (fun v hv => ih t hlt v hgt (hl v hv))
        simp [encode, sortKeys, decode, normOmit, sortT, this]
    | mapNil t => simp [encode, sortKeys, decode, normOmit, sortT]
    | map t m hnd hm =>
      cases hg with
      | map _ hgt =>
        have hlt : sizeOf t < n := by simp only [Ty.map.sizeOf_spec] at hsz; omega
        have := decodeMap_sorted strict t m hnd (fun kv hkv => ih t hlt kv.2 hgt (hm kv hkv))
        simp only [encode, sortKeys_obj, decode, zero, normOmit, sortT, this]
        rfl
    | struct fs vs hf =>
      cases hg with
      | struct _ hnd hgf =>
        have hnd' := nodup_names_of_fold fs hnd
        have h1 := decodeFields_sortedSchemaOrder strict fs hnd'
          (fun f hfm v hv => ih f.2.2 (by have := sizeOf_field_lt hfm; omega) v (GoodFields_mem hgf f hfm) hv)
          fs [] vs [] rfl rfl hf
        simp only [List.nil_append] at h1
        have hsub := encodeFields_keys_sublist fs vs
        have hkeys : (sortKeysMembers (encodeFields fs vs)).map Prod.fst = (encodeFields fs vs).map Prod.fst := by
          rw [sortKeysMembers_eq_map]; simp [List.map_map, Function.comp_def]
        have h2 := decodeFields_perm strict fs _ _ (sortBy_perm keyLt (sortKeysMembers (encodeFields fs vs)))
          (by
            rw [((sortBy_perm keyLt _).map Prod.fst).nodup_iff, hkeys]
            exact hsub.nodup hnd')
          (by
            intro m hm
            have : m.1 ∈ (sortBy keyLt (sortKeysMembers (encodeFields fs vs))).map Prod.fst :=
              List.mem_map_of_mem hm
            rw [((sortBy_perm keyLt _).map Prod.fst).mem_iff, hkeys] at this
            exact hsub.subset this)
          (zeroFields fs)
        simp only [encode, sortKeys_obj, decode, zero, normOmit, sortT, h2, h1]
        rfl

/-- MAIN (schema level, canonical form): decoding the key-sorted encoding of a well-typed value
    gives the value back up to `normOmit` and the order of map entries (`sortT`) -/
theorem decode_sorted (strict : Bool) (ty : Ty) (v : TVal) (hg : GoodTy ty) (hw : WT ty v) :
    decode strict ty (zero ty) (sortKeys (encode ty v)) = some (sortT (normOmit ty v)) :=
  decode_sorted_aux strict (sizeOf ty + 1) ty (Nat.lt_succ_self _) v hg hw

/-! ### `sortT` and `normOmit` commute -/

theorem isEmptyValue_sortT (v : TVal) : isEmptyValue (sortT v) = isEmptyValue v := by
  cases v with
  | any j => cases j <;> simp [sortT, isEmptyValue, sortKeys]
  | list o =>
    cases o with
    | none => simp [sortT]
    | some l => cases l <;> simp [sortT, sortTList, isEmptyValue]
  | map o =>
    cases o with
    | none => simp [sortT]
    | some m =>
      have h1 := (sortBy_perm keyLt (sortTMap m)).length_eq
      have h2 : (sortTMap m).length = m.length := by rw [sortTMap_eq_map]; simp
      simp only [sortT, isEmptyValue]
      rw [Bool.eq_iff_iff, List.isEmpty_iff_length_eq_zero, List.isEmpty_iff_length_eq_zero, h1, h2]
  | str s => simp [sortT]
  | int i => simp [sortT]
  | struct fs => simp [sortT, isEmptyValue]

theorem sortTList_normOmitList (t : Ty) (l : List TVal)
    (h : ∀ v ∈ l, sortT (normOmit t v) = normOmit t (sortT v)) :
    sortTList (normOmitList t l) = normOmitList t (sortTList l) := by
  induction l with
  | nil => simp [normOmitList, sortTList]
  | cons a l ih =>
    simp [normOmitList, sortTList, h a (by simp), ih (fun v hv => h v (by simp [hv]))]

theorem sortTMap_normOmitFields (fs : List (Str × Bool × Ty)) (vs : List (Str × TVal)) (hw : WTFields fs vs)
    (H : ∀ f ∈ fs, ∀ v, WT f.2.2 v → sortT (normOmit f.2.2 v) = normOmit f.2.2 (sortT v)) :
    sortTMap (normOmitFields fs vs) = normOmitFields fs (sortTMap vs) := by
  induction fs generalizing vs with
  | nil => cases hw; simp [normOmitFields, sortTMap]
  | cons f fs ih =>
    cases hw with
    | cons n om t v _ vs' hv hrest =>
      have h1 := H (n, om, t) (by simp) v hv
      simp only at h1
      have h2 := ih vs' hrest (fun f hf => H f (by simp [hf]))
      simp only [normOmitFields, sortTMap, isEmptyValue_sortT, h2]
      by_cases hc : (om && isEmptyValue v) = true
      · simp [hc, sortT_zero]
      · simp [hc, h1]

theorem sortT_normOmit_aux : ∀ (n : Nat) (ty : Ty), sizeOf ty < n → ∀ v, WT ty v →
    sortT (normOmit ty v) = normOmit ty (sortT v) := by
  intro n
  induction n with
  | zero => intro ty h; omega
  | succ n ih =>
    intro ty hsz v hw
    cases hw with
    | str s => simp [normOmit, sortT]
    | int i h1 h2 => simp [normOmit, sortT]
    | any j hj => simp [normOmit, sortT]
    | listNil t => simp [normOmit, sortT]
    | list t l hl =>
      have hlt : sizeOf t < n := by simp only [Ty.list.sizeOf_spec] at hsz; omega
      have := sortTList_normOmitList t l (fun v hv => ih t hlt v (hl v hv))
      simp [normOmit, sortT, this]
    | mapNil t => simp [normOmit, sortT]
    | map t m hnd hm =>
      have hlt : sizeOf t < n := by simp only [Ty.map.sizeOf_spec] at hsz; omega
      have e : sortBy keyLt (sortTMap (normOmitMap t m)) = normOmitMap t (sortBy keyLt (sortTMap m)) := by
        rw [normOmitMap_eq_map t (sortBy keyLt (sortTMap m)), sortTMap_eq_map, normOmitMap_eq_map, sortTMap_eq_map,
          ← sortBy_mapVal (normOmit t), List.map_map, List.map_map]
        congr 1
        apply List.map_congr_left
        intro kv hkv
        simp only [Function.comp_def]
        rw [ih t hlt kv.2 (hm kv hkv)]
      simp only [normOmit, sortT, e]
    | struct fs vs hf =>
      have := sortTMap_normOmitFields fs vs hf
        (fun f hfm v hv => ih f.2.2 (by have := sizeOf_field_lt hfm; omega) v hv)
      simp only [normOmit, sortT, this]

/-- listing maps in key order commutes with omitempty normalisation -/
theorem sortT_normOmit (ty : Ty) (v : TVal) (hw : WT ty v) : sortT (normOmit ty v) = normOmit ty (sortT v) :=
  sortT_normOmit_aux (sizeOf ty + 1) ty (Nat.lt_succ_self _) v hw

/-- why `sortT` is needed: a map whose entries are not listed in key order comes back from its
    canonical encoding in key order -/
example : decode true (.map .str) (zero (.map .str))
    (sortKeys (encode (.map .str) (.map (some [(lit% "b", .str []), (lit% "a", .str [])])))) =
    some (.map (some [(lit% "a", .str []), (lit% "b", .str [])])) := by
  simp [encode, encodeMap, sortKeys, sortKeysMembers, sortBy, insertSorted, strLt, decode, decodeMap, zero, setAssoc]

end Sorted

end InToto.FileProofs
