import InToto.Proofs.GlobUChunk

/-!
`prefixMatchU` versus `Matches`, `dropStars` / `scanChunk` on encoded patterns, and the star loop
(which advances by whole code points) — the UTF-8 version of `GlobStar.lean`.
-/
namespace InToto.GlobUtf8
open InToto.Glob InToto.GlobSpec InToto.GlobProofs

/-! ### prefixMatchU -/

theorem prefixMatchU_suffix : ∀ (its : List Item) (s t : List Nat), prefixMatchU its s = some t →
    t <:+ s ∧ t.length + its.length = s.length := by
  intro its
  induction its with
  | nil =>
    intro s t h
    simp only [prefixMatchU, Option.some.injEq] at h
    subst h
    exact ⟨List.suffix_refl _, by simp⟩
  | cons it its ih =>
    intro s t h
    cases s with
    | nil => simp [prefixMatchU] at h
    | cons x xs =>
      simp only [prefixMatchU] at h
      split at h
      · obtain ⟨h1, h2⟩ := ih xs t h
        exact ⟨h1.trans (List.suffix_cons x xs), by simp only [List.length_cons]; omega⟩
      · cases h

theorem prefixMatchU_mono {its : List Item} {n' n2 t' t2 : List Nat} (hsuf : n' <:+ n2)
    (h1 : prefixMatchU its n' = some t') (h2 : prefixMatchU its n2 = some t2) : t' <:+ t2 := by
  obtain ⟨a1, b1⟩ := prefixMatchU_suffix _ _ _ h1
  obtain ⟨a2, b2⟩ := prefixMatchU_suffix _ _ _ h2
  have hl := hsuf.length_le
  exact List.suffix_of_suffix_length_le (a1.trans hsuf) a2 (by omega)

/-- Soundness of `prefixMatchU`. -/
theorem matches_of_prefixMatchU : ∀ (its : List Item), (∀ it ∈ its, it ≠ Item.star) →
    ∀ (s t : List Nat) (is' : List Item), prefixMatchU its s = some t → Matches is' t →
      Matches (its ++ is') s := by
  intro its
  induction its with
  | nil =>
    intro _ s t is' h hm
    simp only [prefixMatchU, Option.some.injEq] at h
    subst h
    simpa using hm
  | cons it its ih =>
    intro hns s t is' h hm
    cases s with
    | nil => simp [prefixMatchU] at h
    | cons x xs =>
      simp only [prefixMatchU] at h
      split at h
      · rename_i hit
        have := ih (fun i hi => hns i (by simp [hi])) xs t is' h hm
        exact Matches.one it _ x _ (hns it (by simp)) hit this
      · cases h

/-- Completeness of `prefixMatchU`. -/
theorem prefixMatchU_of_matches : ∀ (its : List Item), (∀ it ∈ its, it ≠ Item.star) →
    ∀ (s : List Nat) (is' : List Item), Matches (its ++ is') s →
      ∃ t, prefixMatchU its s = some t ∧ Matches is' t := by
  intro its
  induction its with
  | nil =>
    intro _ s is' hm
    exact ⟨s, rfl, by simpa using hm⟩
  | cons it its ih =>
    intro hns s is' hm
    rw [List.cons_append] at hm
    rcases matches_cons_inv hm with ⟨h1, _⟩ | ⟨_, c, t, h2, h3, h4⟩
    · exact absurd h1 (hns it (by simp))
    · subst h2
      obtain ⟨t', ht', hm'⟩ := ih (fun i hi => hns i (by simp [hi])) t is' h4
      exact ⟨t', by simp [prefixMatchU, h3, ht'], hm'⟩

theorem matches_suffixU {is'' : List Item} {t' t : List Nat} (hsuf : t' <:+ t)
    (hm : Matches (Item.star :: is'') t') : Matches (Item.star :: is'') t := by
  obtain ⟨w, rfl⟩ := hsuf
  exact matches_star_prepend is'' w t' hm

/-! ### dropStars and scanChunk -/

theorem dropStarsU_spec : ∀ (p : List Nat), AllSc p → ∀ (b : Bool), ∃ k p',
    p = List.replicate k GlobSpec.cStar ++ p' ∧
      dropStars (encs p) b = (b || decide (0 < k), encs p') ∧
      (∀ tl, p' ≠ GlobSpec.cStar :: tl) := by
  intro p
  induction p with
  | nil => intro _ b; exact ⟨0, [], rfl, by simp [dropStars], by simp⟩
  | cons c rest ih =>
    intro hp b
    by_cases hc : c = GlobSpec.cStar
    · subst hc
      obtain ⟨k, p', h1, h2, h3⟩ := ih hp.cons.2 true
      refine ⟨k + 1, p', by rw [h1]; simp [List.replicate_succ], ?_, h3⟩
      simp [dropStars, h2]
    · refine ⟨0, c :: rest, rfl, ?_, ?_⟩
      · obtain ⟨b0, tl, he, hd, _, _⟩ := enc_head c hp.cons.1
        have : b0 ≠ Glob.cStar := fun h => hc (hd.eq_cStar.1 h)
        simp [he, dropStars, this]
      · intro tl h
        exact hc (List.cons.inj h).1

/-- `scanChunk` on an encoded pattern: leading stars, then a chunk and a rest that are both
    encoded sequences of code points (the pattern is cut at rune boundaries). -/
theorem scanChunkU_spec (p : List Nat) (hp : AllSc p) : ∃ k rc rr,
    p = List.replicate k GlobSpec.cStar ++ (rc ++ rr) ∧
      (∀ tl, rc ++ rr ≠ GlobSpec.cStar :: tl) ∧
      (rr = [] ∨ ∃ r, rr = GlobSpec.cStar :: r) ∧
      scan (encs (rc ++ rr)) false = (encs rc).length ∧
      scanChunk (encs p) = (decide (0 < k), encs rc, encs rr) := by
  obtain ⟨k, p', h1, h2, h3⟩ := dropStarsU_spec p hp false
  have hp' : AllSc p' := by rw [h1] at hp; exact hp.append_right
  obtain ⟨rc, rr, h4, h5, h6⟩ := scan_aligned p'.length p' (Nat.le_refl _) hp' false
  subst h4
  refine ⟨k, rc, rr, h1, h3, h6, h5, ?_⟩
  simp only [scanChunk, h2, Bool.false_or]
  rw [scanLoop_eq_scan _ _ _ _ (Nat.le_succ _), h5]
  simp

theorem parsePat_stars (k : Nat) (p' : List Nat) :
    parsePat (List.replicate k GlobSpec.cStar ++ p') =
      (parsePat p').map (List.replicate k Item.star ++ ·) := by
  induction k with
  | zero => simp
  | succ k ih =>
    rw [List.replicate_succ, List.cons_append, parsePat_star, ih]
    cases parsePat p' <;> simp [List.replicate_succ]

/-! ### the star loop -/

/-- The star loop skips exactly one code point of the name per iteration. -/
theorem starLoop_cons {chunk : List Nat} {its : List Item} (hch : ChunkU false chunk its)
    (last : Bool) (F : Nat) (x : Nat) (xs : List Nat) (hn : AllSc (x :: xs)) :
    starLoop false (encs chunk) last (F + 1) (encs (x :: xs)) =
      match prefixMatchU its xs with
      | some t =>
        if last && !t.isEmpty then starLoop false (encs chunk) last F (encs xs)
        else .found (encs t)
      | none => starLoop false (encs chunk) last F (encs xs) := by
  obtain ⟨b, R, k, hX, hdec, hdrop⟩ := name_step x xs hn.cons.1
  rw [hX, starLoop]
  simp only [skipWidth, Bool.false_eq_true, ↓reduceIte, hdec, hdrop]
  rw [matchChunk_chunk hch xs hn.cons.2]
  simp only [chunkResU, Bool.false_eq_true, ↓reduceIte]
  cases prefixMatchU its xs with
  | none => rfl
  | some t => simp only [encs_isEmpty]

/-- Whatever the star loop finds is a match of the chunk at some suffix (in code points) of the
    name. -/
theorem starLoop_sound {chunk : List Nat} {its : List Item} (hch : ChunkU false chunk its)
    (last : Bool) : ∀ (F : Nat) (n : List Nat), AllSc n → ∀ T,
      starLoop false (encs chunk) last F (encs n) = .found T →
      ∃ n' t, n' <:+ n ∧ prefixMatchU its n' = some t ∧ T = encs t := by
  intro F
  induction F with
  | zero => intro n _ t h; simp [starLoop] at h
  | succ F ih =>
    intro n hn T h
    cases n with
    | nil => simp [starLoop] at h
    | cons x xs =>
      rw [starLoop_cons hch last F x xs hn] at h
      have hrec : ∀ T, starLoop false (encs chunk) last F (encs xs) = .found T →
          ∃ n' t, n' <:+ x :: xs ∧ prefixMatchU its n' = some t ∧ T = encs t := by
        intro T hT
        obtain ⟨n', t, h1, h2, h3⟩ := ih xs hn.cons.2 T hT
        exact ⟨n', t, h1.trans (List.suffix_cons x xs), h2, h3⟩
      split at h
      · rename_i t0 hpm
        split at h
        · exact hrec T h
        · simp only [StarRes.found.injEq] at h
          subst h
          exact ⟨xs, t0, List.suffix_cons x xs, hpm, rfl⟩
      · exact hrec T h

/-- Non-final chunk: if the chunk matches at some later position, the loop finds the leftmost
    such position (which is at least as far left). -/
theorem starLoop_complete_first {chunk : List Nat} {its : List Item}
    (hch : ChunkU false chunk its) (n' t' : List Nat) (hpm : prefixMatchU its n' = some t') :
    ∀ (pre : List Nat), pre ≠ [] → ∀ (F : Nat), AllSc (pre ++ n') → (pre ++ n').length ≤ F →
      ∃ n2 t2, n2 <:+ pre ++ n' ∧ n' <:+ n2 ∧ prefixMatchU its n2 = some t2 ∧
        starLoop false (encs chunk) false F (encs (pre ++ n')) = .found (encs t2) := by
  intro pre
  induction pre with
  | nil => intro h; exact absurd rfl h
  | cons x pre ih =>
    intro _ F hn hF
    cases F with
    | zero => simp at hF
    | succ F =>
      rw [List.cons_append] at hn ⊢
      rw [starLoop_cons hch false F x _ hn]
      cases hp2 : prefixMatchU its (pre ++ n') with
      | some t2 =>
        exact ⟨pre ++ n', t2, List.suffix_cons _ _, List.suffix_append _ _, hp2, by simp⟩
      | none =>
        have hpre : pre ≠ [] := by
          intro h; subst h
          simp only [List.nil_append] at hp2
          rw [hpm] at hp2; cases hp2
        obtain ⟨n2, t2, h1, h2, h3, h4⟩ := ih hpre F hn.cons.2
          (by simp only [List.cons_append, List.length_cons] at hF; omega)
        exact ⟨n2, t2, h1.trans (List.suffix_cons _ _), h2, h3, h4⟩

/-- Final chunk: if the chunk matches exactly at the end of the name, the loop finds that. -/
theorem starLoop_complete_last {chunk : List Nat} {its : List Item}
    (hch : ChunkU false chunk its) (n' : List Nat) (hpm : prefixMatchU its n' = some []) :
    ∀ (pre : List Nat), pre ≠ [] → ∀ (F : Nat), AllSc (pre ++ n') → (pre ++ n').length ≤ F →
      starLoop false (encs chunk) true F (encs (pre ++ n')) = .found [] := by
  intro pre
  induction pre with
  | nil => intro h; exact absurd rfl h
  | cons x pre ih =>
    intro _ F hn hF
    cases F with
    | zero => simp at hF
    | succ F =>
      rw [List.cons_append] at hn ⊢
      rw [starLoop_cons hch true F x _ hn]
      by_cases hpre : pre = []
      · subst hpre
        simp [hpm]
      · have hrec := ih hpre F hn.cons.2
          (by simp only [List.cons_append, List.length_cons] at hF; omega)
        cases hp2 : prefixMatchU its (pre ++ n') with
        | some t2 =>
          cases t2 with
          | nil => simp
          | cons a t2 => simpa using hrec
        | none => simpa using hrec

end InToto.GlobUtf8
