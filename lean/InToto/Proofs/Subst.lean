import InToto.Spec.Subst

namespace InToto.SubstProofs
open InToto InToto.Schema InToto.Subst InToto.SubstSpec

/-! ### helpers -/

theorem validName_mem {a : Str} (h : validName a = true) : ∀ c ∈ a, isNameChar c = true := by
  simp only [validName, Bool.and_eq_true, List.all_eq_true] at h
  exact h.2

theorem name_close_inj (a b r1 r2 : Str) (ha : ∀ c ∈ a, isNameChar c = true)
    (hb : ∀ c ∈ b, isNameChar c = true) (h : a ++ '}' :: r1 = b ++ '}' :: r2) : a = b := by
  induction a generalizing b with
  | nil =>
    cases b with
    | nil => rfl
    | cons c b' =>
      simp only [List.nil_append, List.cons_append, List.cons.injEq] at h
      have := hb c (by simp)
      rw [← h.1] at this
      exact absurd this (by decide)
  | cons x a ih =>
    cases b with
    | nil =>
      simp only [List.nil_append, List.cons_append, List.cons.injEq] at h
      have := ha x (by simp)
      rw [h.1] at this
      exact absurd this (by decide)
    | cons c b' =>
      simp only [List.cons_append, List.cons.injEq] at h
      obtain ⟨h1, h2⟩ := h
      subst h1
      congr 1
      exact ih b' (fun c hc => ha c (by simp [hc])) (fun c hc => hb c (by simp [hc])) h2

theorem marker_append (name rest : Str) : marker name ++ rest = '{' :: (name ++ '}' :: rest) := by
  simp [marker]

theorem marker_isPrefixOf_self (name rest : Str) : (marker name).isPrefixOf (marker name ++ rest) = true := by
  rw [List.isPrefixOf_iff_prefix]
  exact List.prefix_append _ _

theorem marker_length (name : Str) : (marker name).length = name.length + 2 := by
  simp [marker]

/-- markers of valid names are prefix-free: at most one can start at a given position -/
theorem marker_unique (a b : Str) (s : Str) (ha : validName a = true) (hb : validName b = true)
    (h1 : (marker a).isPrefixOf s = true) (h2 : (marker b).isPrefixOf s = true) : a = b := by
  rw [List.isPrefixOf_iff_prefix] at h1 h2
  obtain ⟨r1, h1⟩ := h1
  obtain ⟨r2, h2⟩ := h2
  rw [← h2, marker_append, marker_append] at h1
  simp only [List.cons.injEq, true_and] at h1
  exact name_close_inj a b r1 r2 (validName_mem ha) (validName_mem hb) h1

theorem replaceAux_spec (P : List (Str × Str)) (fuel : Nat) (s : Str) (h : s.length < fuel) :
    SubstRel P s (replaceAux fuel (pairsOf P) s) := by
  induction fuel generalizing s with
  | zero => omega
  | succ n ih =>
    cases s with
    | nil => simp only [replaceAux]; exact .nil
    | cons c t =>
      simp only [replaceAux]
      split
      · next p hf =>
        have hmem := List.mem_of_find?_eq_some hf
        have hpred := List.find?_some hf
        simp only [pairsOf, List.mem_map] at hmem
        obtain ⟨⟨name, val⟩, hm, rfl⟩ := hmem
        simp only [Bool.and_eq_true] at hpred
        have hpre := hpred.2
        change (marker name).isPrefixOf (c :: t) = true at hpre
        rw [List.isPrefixOf_iff_prefix] at hpre
        obtain ⟨rest, hrest⟩ := hpre
        change SubstRel P (c :: t) (val ++ replaceAux n (pairsOf P) ((c :: t).drop (marker name).length))
        rw [← hrest, List.drop_left]
        refine .marker name val rest _ hm (ih rest ?_)
        have : (marker name ++ rest).length = (c :: t).length := by rw [hrest]
        simp only [List.length_append, marker_length, List.length_cons] at this h
        omega
      · next hf =>
        rw [List.find?_eq_none] at hf
        refine .char c t _ ?_ (ih t (by simp only [List.length_cons] at h; omega))
        intro name val hm
        have := hf ('{' :: name ++ ['}'], val) (by
          simp only [pairsOf, List.mem_map]
          exact ⟨(name, val), hm, rfl⟩)
        rw [Bool.eq_false_iff]
        simpa [marker] using this

/-- the replacer satisfies the specification -/
theorem replace_spec (P : List (Str × Str)) (hP : GoodParams P) (s : Str) :
    SubstRel P s (replace (pairsOf P) s) := by
  have _ := hP
  exact replaceAux_spec P _ s (Nat.lt_succ_self _)

theorem nodup_fst_val {P : List (Str × Str)} (hn : (P.map Prod.fst).Nodup) {n v1 v2 : Str}
    (h1 : (n, v1) ∈ P) (h2 : (n, v2) ∈ P) : v1 = v2 := by
  induction P with
  | nil => cases h1
  | cons p P ih =>
    simp only [List.map_cons, List.nodup_cons, List.mem_map, not_exists, not_and] at hn
    simp only [List.mem_cons] at h1 h2
    rcases h1 with h1 | h1 <;> rcases h2 with h2 | h2
    · rw [← h2] at h1; exact (Prod.mk.inj h1).2
    · exact absurd (by rw [← h1]) (hn.1 _ h2)
    · exact absurd (by rw [← h2]) (hn.1 _ h1)
    · exact ih hn.2 h1 h2

/-- the specification determines the result -/
theorem substRel_functional (P : List (Str × Str)) (hP : GoodParams P) (s o₁ o₂ : Str)
    (h1 : SubstRel P s o₁) (h2 : SubstRel P s o₂) : o₁ = o₂ := by
  induction h1 generalizing o₂ with
  | nil => cases h2 with
    | nil => rfl
  | marker name val rest out hm hr ih =>
    generalize hs : marker name ++ rest = s at h2
    cases h2 with
    | nil => simp [marker] at hs
    | marker name' val' rest' out' hm' hr' =>
      have hn : name = name' := by
        apply marker_unique name name' (marker name ++ rest) (hP.1 _ hm) (hP.1 _ hm')
          (marker_isPrefixOf_self _ _)
        rw [hs]; exact marker_isPrefixOf_self _ _
      subst hn
      have hv : val = val' := nodup_fst_val hP.2 hm hm'
      subst hv
      have hr2 : rest = rest' := List.append_cancel_left hs
      subst hr2
      rw [ih _ hr']
    | char c rest' out' hno' hr' =>
      have := hno' name val hm
      rw [← hs, marker_isPrefixOf_self] at this
      cases this
  | char c rest out hno hr ih =>
    generalize hs : c :: rest = s at h2
    cases h2 with
    | nil => cases hs
    | marker name' val' rest' out' hm' hr' =>
      have := hno name' val' hm'
      rw [hs, marker_isPrefixOf_self] at this
      cases this
    | char c' rest' out' hno' hr' =>
      cases hs
      rw [ih _ hr']

/-- the specification only looks at which (name, value) pairs are supplied, not at their order -/
theorem substRel_perm (P Q : List (Str × Str)) (h : P.Perm Q) (s o : Str) (hr : SubstRel P s o) :
    SubstRel Q s o := by
  induction hr with
  | nil => exact .nil
  | marker name val rest out hm _ ih => exact .marker name val rest out (h.mem_iff.1 hm) ih
  | char c rest out hno _ ih =>
    exact .char c rest out (fun name val hm => hno name val (h.mem_iff.2 hm)) ih

theorem goodParams_perm (P Q : List (Str × Str)) (h : P.Perm Q) (hP : GoodParams P) : GoodParams Q := by
  refine ⟨fun p hp => hP.1 p (h.mem_iff.2 hp), ?_⟩
  exact (h.map Prod.fst).nodup_iff.1 hP.2

/-- order-freeness of the replacer -/
theorem replace_perm (P Q : List (Str × Str)) (h : P.Perm Q) (hP : GoodParams P) (s : Str) :
    replace (pairsOf P) s = replace (pairsOf Q) s := by
  have hQ := goodParams_perm P Q h hP
  exact substRel_functional Q hQ s _ _ (substRel_perm P Q h s _ (replace_spec P hP s)) (replace_spec Q hQ s)

theorem substRel_id (P : List (Str × Str)) (s : Str)
    (h : ∀ pre suf, s = pre ++ suf → ∀ p ∈ P, (marker p.1).isPrefixOf suf = false) :
    SubstRel P s s := by
  induction s with
  | nil => exact .nil
  | cons c t ih =>
    exact .char c t t (fun name val hm => h [] (c :: t) rfl (name, val) hm)
      (ih fun pre suf hs p hp => h (c :: pre) suf (by rw [hs]; rfl) p hp)

/-- text without any known marker is unchanged -/
theorem replace_no_marker (P : List (Str × Str)) (hP : GoodParams P) (s : Str)
    (h : ∀ pre suf, s = pre ++ suf → ∀ p ∈ P, (marker p.1).isPrefixOf suf = false) :
    replace (pairsOf P) s = s :=
  substRel_functional P hP s _ _ (replace_spec P hP s) (substRel_id P s h)

/-- inserted values are not rescanned: a marker is replaced by exactly its value, then the pass
    continues behind the marker -/
theorem replace_marker (P : List (Str × Str)) (hP : GoodParams P) (name val rest : Str)
    (hm : (name, val) ∈ P) :
    replace (pairsOf P) (marker name ++ rest) = val ++ replace (pairsOf P) rest :=
  substRel_functional P hP _ _ _ (replace_spec P hP _)
    (.marker name val rest _ hm (replace_spec P hP rest))

theorem lookup_map_set (fs : List (Str × TVal)) (n m : Str) (x : TVal) (h : m ≠ n) :
    lookup m (fs.map fun e => if e.1 = n then (e.1, x) else e) = lookup m fs := by
  induction fs with
  | nil => rfl
  | cons e fs ih =>
    obtain ⟨k, v⟩ := e
    simp only [List.map_cons]
    by_cases hk : k = n
    · subst hk
      simp only [if_true, lookup, ih, if_neg (Ne.symm h)]
    · simp only [if_neg hk, lookup, ih]

theorem fget_fset_ne (v x : TVal) (n m : Str) (h : m ≠ n) : fget (fset v n x) m = fget v m := by
  cases v <;> try rfl
  simp only [fset, fget, lookup_map_set _ _ _ _ h]

/-- exactly the three step fields are rewritten -/
theorem substStep_other (pairs : List (Str × Str)) (st : TVal) (f : Str)
    (h1 : f ≠ lit% "expected_materials") (h2 : f ≠ lit% "expected_products")
    (h3 : f ≠ lit% "expected_command") : fget (substStep pairs st) f = fget st f := by
  simp only [substStep]
  rw [fget_fset_ne _ _ _ _ h3, fget_fset_ne _ _ _ _ h2, fget_fset_ne _ _ _ _ h1]

theorem substInspection_other (pairs : List (Str × Str)) (i : TVal) (f : Str)
    (h1 : f ≠ lit% "expected_materials") (h2 : f ≠ lit% "expected_products")
    (h3 : f ≠ lit% "run") : fget (substInspection pairs i) f = fget i f := by
  simp only [substInspection]
  rw [fget_fset_ne _ _ _ _ h3, fget_fset_ne _ _ _ _ h2, fget_fset_ne _ _ _ _ h1]

/-- every layout field other than `steps` and `inspect` is returned as it was -/
theorem substitute_other (layout r : TVal) (params : List (Str × Str)) (f : Str)
    (h : substitute layout params = .ok r) (h1 : f ≠ lit% "steps") (h2 : f ≠ lit% "inspect") :
    fget r f = fget layout f := by
  unfold substitute at h
  split at h
  · cases h; rfl
  · split at h
    · cases h
      rw [fget_fset_ne _ _ _ _ h2, fget_fset_ne _ _ _ _ h1]
    · cases h

theorem substitute_empty (layout : TVal) : substitute layout [] = .ok layout := by
  rfl

theorem substitute_invalid (layout : TVal) (params : List (Str × Str)) (p : Str × Str)
    (hp : p ∈ params) (hbad : validName p.1 = false) : (substitute layout params).isOk = false := by
  unfold substitute
  have hne : params.isEmpty = false := by
    cases params with
    | nil => cases hp
    | cons _ _ => rfl
  have hall : (params.all fun p => validName p.1) = false := by
    rw [Bool.eq_false_iff]
    intro H
    rw [List.all_eq_true] at H
    have := H p hp
    rw [hbad] at this
    cases this
  rw [hne, hall]
  rfl

/-- the verdict (ok / error) and the result do not depend on the order of the dictionary -/
theorem substitute_perm (layout : TVal) (P Q : List (Str × Str)) (h : P.Perm Q)
    (hn : (P.map Prod.fst).Nodup) : substitute layout P = substitute layout Q := by
  cases P with
  | nil =>
    have := h.nil_eq
    subst this
    rfl
  | cons p P' =>
    cases Q with
    | nil => exact absurd h.length_eq (by simp)
    | cons q Q' =>
      have hall : (List.all (p :: P') fun p => validName p.1) = (List.all (q :: Q') fun p => validName p.1) := by
        rw [Bool.eq_iff_iff]
        simp only [List.all_eq_true]
        exact ⟨fun H x hx => H x (h.mem_iff.2 hx), fun H x hx => H x (h.mem_iff.1 hx)⟩
      unfold substitute
      rw [← hall]
      simp only [List.isEmpty_cons, Bool.false_eq_true, if_false]
      split
      · next hv =>
        have hG : GoodParams (p :: P') := ⟨by rw [List.all_eq_true] at hv; exact hv, hn⟩
        have hfun : replace (pairsOf (p :: P')) = replace (pairsOf (q :: Q')) :=
          funext (replace_perm _ _ h hG)
        have e1 : substStrs (pairsOf (p :: P')) = substStrs (pairsOf (q :: Q')) := by
          funext v; simp only [substStrs, hfun]
        have e2 : substRules (pairsOf (p :: P')) = substRules (pairsOf (q :: Q')) := by
          funext v; simp only [substRules, e1]
        have e3 : substStep (pairsOf (p :: P')) = substStep (pairsOf (q :: Q')) := by
          funext v; simp only [substStep, e1, e2]
        have e4 : substInspection (pairsOf (p :: P')) = substInspection (pairsOf (q :: Q')) := by
          funext v; simp only [substInspection, e1, e2]
        simp only [e3, e4]
      · rfl

end InToto.SubstProofs
