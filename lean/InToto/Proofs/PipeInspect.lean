import InToto.Model.Verify

namespace InToto.PipeProofs
open InToto InToto.Json InToto.Schema InToto.Metadata InToto.Verify

def cmdOf (i : Inspection) : Str × List Str := (i.name, i.run)

/-! ### helpers -/

/-- directory after the command of inspection `i` -/
private def fsAfter (W : World) (i : Inspection) (st : InspState) : FS :=
  (W.exec i.run).dels.foldl fsDel ((W.exec i.run).sets.foldl (fun f e => fsSet f e.1 e.2) st.fs)

/-- state with which the remaining inspections are run after a successful inspection `i` -/
private def nextState (W : World) (rd : Str) (i : Inspection) (st : InspState) : InspState :=
  { fs := if rd = [] then fsSet (fsAfter W i st) (i.name ++ lit% ".link") (lit% "link-file:" ++ i.name)
          else fsAfter W i st,
    ran := st.ran ++ [(i.name, i.run)],
    links := Schema.setAssoc i.name
      { typ := lit% "link", name := i.name, materials := record rd st.fs,
        products := record rd (fsAfter W i st) } st.links }

private theorem run_nil (W : World) (rd : Str) (st : InspState) :
    runInspections W rd [] st = (.ok (), st) := by
  simp only [runInspections]

private theorem run_cons (W : World) (rd : Str) (i : Inspection) (rest : List Inspection) (st : InspState) :
    runInspections W rd (i :: rest) st =
      if i.run.isEmpty = true then (.err "inspection-no-return-value", st)
      else if (W.exec i.run).started = false then (.err "inspection-start", st)
      else if (W.exec i.run).exit ≠ 0 then
        (.err "inspection-exit", { st with fs := fsAfter W i st, ran := st.ran ++ [(i.name, i.run)] })
      else runInspections W rd rest (nextState W rd i st) := by
  simp only [runInspections, fsAfter, nextState]
  by_cases h1 : i.run.isEmpty = true
  · simp [h1]
  · by_cases h2 : (W.exec i.run).started = false
    · simp [h1, h2]
    · by_cases h3 : (W.exec i.run).exit = 0
      · simp [h1, h2, h3]
      · simp [h1, h2, h3]

private theorem run_cons_pass (W : World) (rd : Str) (i : Inspection) (rest : List Inspection) (st : InspState)
    (h1 : ¬ i.run.isEmpty = true) (h2 : ¬ (W.exec i.run).started = false) (h3 : (W.exec i.run).exit = 0) :
    runInspections W rd (i :: rest) st = runInspections W rd rest (nextState W rd i st) := by
  rw [run_cons]; simp [h1, h2, h3]

/-- if the run of `i :: rest` is ok, all guards passed for `i` and the run continues with `rest` -/
private theorem run_cons_ok (W : World) (rd : Str) (i : Inspection) (rest : List Inspection) (st : InspState)
    (h : (runInspections W rd (i :: rest) st).1 = .ok ()) :
    i.run ≠ [] ∧ (W.exec i.run).started = true ∧ (W.exec i.run).exit = 0 ∧
      runInspections W rd (i :: rest) st = runInspections W rd rest (nextState W rd i st) := by
  rw [run_cons] at h ⊢
  by_cases h1 : i.run.isEmpty = true
  · simp [h1] at h
  · by_cases h2 : (W.exec i.run).started = false
    · simp [h1, h2] at h
    · by_cases h3 : (W.exec i.run).exit = 0
      · refine ⟨?_, ?_, h3, ?_⟩
        · intro he; apply h1; simp [he]
        · cases hs : (W.exec i.run).started
          · exact absurd hs h2
          · rfl
        · simp [h1, h2, h3]
      · simp [h1, h2, h3] at h

private theorem lookup_setAssoc_self {β} (k : Str) (v : β) (l : List (Str × β)) :
    lookup k (Schema.setAssoc k v l) = some v := by
  induction l with
  | nil => simp [Schema.setAssoc, lookup]
  | cons a t ih =>
    obtain ⟨k', v'⟩ := a
    by_cases hk : k' = k
    · simp [Schema.setAssoc, lookup, hk]
    · simp [Schema.setAssoc, lookup, hk, ih]

private theorem lookup_setAssoc_ne {β} (n k : Str) (v : β) (l : List (Str × β)) (hne : k ≠ n) :
    lookup n (Schema.setAssoc k v l) = lookup n l := by
  induction l with
  | nil => simp [Schema.setAssoc, lookup, hne]
  | cons a t ih =>
    obtain ⟨k', v'⟩ := a
    by_cases hk : k' = k
    · subst hk
      simp [Schema.setAssoc, lookup, hne]
    · by_cases hn : k' = n
      · subst hn
        simp [Schema.setAssoc, lookup, hk]
      · simp [Schema.setAssoc, lookup, hk, hn, ih]

/-- running inspections with other names does not change the link recorded under `n` -/
private theorem run_lookup_other (W : World) (rd : Str) (n : Str) (rest : List Inspection) :
    ∀ st : InspState, (∀ j ∈ rest, j.name ≠ n) →
      lookup n (runInspections W rd rest st).2.links = lookup n st.links := by
  induction rest with
  | nil => intro st _; rw [run_nil]
  | cons j rest ih =>
    intro st hn
    by_cases h1 : j.run.isEmpty = true
    · rw [run_cons]; simp [h1]
    · by_cases h2 : (W.exec j.run).started = false
      · rw [run_cons]; simp [h1, h2]
      · by_cases h3 : (W.exec j.run).exit = 0
        · rw [run_cons_pass W rd j rest st h1 h2 h3]
          rw [ih _ (fun j' hj' => hn j' (List.mem_cons_of_mem _ hj'))]
          simp only [nextState]
          exact lookup_setAssoc_ne n j.name _ _ (hn j List.mem_cons_self)
        · rw [run_cons]; simp [h1, h2, h3]

/-! ### the statements -/

/-- inspections are executed in layout order: what was run is the earlier log plus a PREFIX of the
    inspection list -/
theorem runInspections_prefix (W : World) (rd : Str) (insps : List Inspection) (st : InspState) :
    ∃ k, (runInspections W rd insps st).2.ran = st.ran ++ (insps.take k).map cmdOf := by
  induction insps generalizing st with
  | nil => exact ⟨0, by simp [run_nil]⟩
  | cons i rest ih =>
    by_cases h1 : i.run.isEmpty = true
    · exact ⟨0, by rw [run_cons]; simp [h1]⟩
    · by_cases h2 : (W.exec i.run).started = false
      · exact ⟨0, by rw [run_cons]; simp [h1, h2]⟩
      · by_cases h3 : (W.exec i.run).exit = 0
        · obtain ⟨k, hk⟩ := ih (nextState W rd i st)
          refine ⟨k + 1, ?_⟩
          rw [run_cons_pass W rd i rest st h1 h2 h3, hk]
          simp [nextState, cmdOf, List.append_assoc]
        · exact ⟨1, by rw [run_cons]; simp [h1, h2, h3, cmdOf]⟩

/-- success means every inspection command was started, exited with status 0, and all were run -/
theorem runInspections_ok (W : World) (rd : Str) (insps : List Inspection) (st : InspState)
    (h : (runInspections W rd insps st).1 = .ok ()) :
    (runInspections W rd insps st).2.ran = st.ran ++ insps.map cmdOf ∧
    ∀ i ∈ insps, i.run ≠ [] ∧ (W.exec i.run).started = true ∧ (W.exec i.run).exit = 0 := by
  induction insps generalizing st with
  | nil => simp [run_nil]
  | cons i rest ih =>
    obtain ⟨h1, h2, h3, heq⟩ := run_cons_ok W rd i rest st h
    rw [heq] at h ⊢
    obtain ⟨hr, hall⟩ := ih (nextState W rd i st) h
    refine ⟨?_, ?_⟩
    · rw [hr]; simp [nextState, cmdOf, List.append_assoc]
    · intro j hj
      rcases List.mem_cons.mp hj with rfl | hj
      · exact ⟨h1, h2, h3⟩
      · exact hall j hj

/-- a command that cannot be started, an empty command, or a non-zero status fails the inspections -/
theorem runInspections_fail (W : World) (rd : Str) (insps : List Inspection) (st : InspState) (i : Inspection)
    (hi : i ∈ insps) (hbad : i.run = [] ∨ (W.exec i.run).started = false ∨ (W.exec i.run).exit ≠ 0) :
    (runInspections W rd insps st).1.isOk = false := by
  cases hres : (runInspections W rd insps st).1 with
  | ok u =>
    cases u
    obtain ⟨_, hall⟩ := runInspections_ok W rd insps st hres
    obtain ⟨h1, h2, h3⟩ := hall i hi
    rcases hbad with hb | hb | hb
    · exact absurd hb h1
    · rw [h2] at hb; cases hb
    · exact absurd h3 hb
  | err s => rfl
  | panic s => rfl

/-- the inspections never panic -/
theorem runInspections_no_panic (W : World) (rd : Str) (insps : List Inspection) (st : InspState) :
    (runInspections W rd insps st).1.isPanic = false := by
  induction insps generalizing st with
  | nil => simp [run_nil, Outcome.isPanic]
  | cons i rest ih =>
    by_cases h1 : i.run.isEmpty = true
    · rw [run_cons]; simp [h1, Outcome.isPanic]
    · by_cases h2 : (W.exec i.run).started = false
      · rw [run_cons]; simp [h1, h2, Outcome.isPanic]
      · by_cases h3 : (W.exec i.run).exit = 0
        · rw [run_cons_pass W rd i rest st h1 h2 h3]
          exact ih _
        · rw [run_cons]; simp [h1, h2, h3, Outcome.isPanic]

/-- the materials of the FIRST inspection are the recorded directory as it is before any command,
    its products the directory after its own command -/
theorem runInspections_first_link (W : World) (rd : Str) (i : Inspection) (rest : List Inspection) (st : InspState)
    (h : (runInspections W rd (i :: rest) st).1 = .ok ()) (hn : ∀ j ∈ rest, j.name ≠ i.name) :
    ∃ lv, lookup i.name (runInspections W rd (i :: rest) st).2.links = some lv ∧
      lv.materials = record rd st.fs ∧
      lv.products = record rd ((W.exec i.run).dels.foldl fsDel ((W.exec i.run).sets.foldl (fun f e => fsSet f e.1 e.2) st.fs)) := by
  obtain ⟨_, _, _, heq⟩ := run_cons_ok W rd i rest st h
  rw [heq, run_lookup_other W rd i.name rest _ hn]
  refine ⟨{ typ := lit% "link", name := i.name, materials := record rd st.fs,
             products := record rd (fsAfter W i st) }, ?_, rfl, rfl⟩
  simp only [nextState]
  exact lookup_setAssoc_self _ _ _

end InToto.PipeProofs
