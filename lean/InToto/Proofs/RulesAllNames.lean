import InToto.Proofs.CleanOrder
import InToto.Proofs.PathClean
import InToto.Proofs.RulesItems

/-!
C03 for ALL artifact names (no `CleanCtx` hypothesis).

`VerifyArtifacts` never reads a recorded artifact map as it is: an item's created / deleted /
modified sets and its two queues are computed from cleaned COPIES of the item's own two maps, and a
MATCH rule reads cleaned copies of its source and of its destination map (`cleanArts`, Go
`cleanArtifactPaths`).  The links themselves are never written to (finding F22, repaired; theorems
`verifyMatchRule_ctx` … `verifyArtifacts_leaves_links_untouched` below).  Cleaning is idempotent
(`cleanArts_idem`, from `PathClean.clean_idem`).  Hence the run is simulated by the run on the context
whose maps are all cleaned up front (`cleanCtx`): the simulation relation is simply
`cleanCtx ctx = ctx'`, and every stage of the interpreter commutes with `cleanCtx`.
-/

namespace InToto.RulesAllNames
open InToto InToto.Rules InToto.RulesSpec InToto.RulesProofs InToto.RulesItems

/-! ### cleaning is idempotent -/

/-- `CleanOrder.cleanArts_keys_clean` without the idempotence hypothesis -/
theorem cleanArts_keys_clean' (l : List (Str × HashObj)) :
    ∀ r, cleanArts (some l) = some r → ∀ x ∈ r, Path.clean x.1 = x.1 :=
  CleanOrder.cleanArts_keys_clean l (fun x _ => PathClean.clean_idem x.1)

/-- every name of a cleaned map is a clean path -/
theorem cleanArts_clean (a : Arts) : CleanArts (cleanArts a) := by
  cases a with
  | none => intro k hk; cases hk
  | some l =>
    cases hr : cleanArts (some l) with
    | none => intro k hk; cases hk
    | some r =>
      intro k hk
      simp only [artsKeys, List.mem_map] at hk
      obtain ⟨x, hx, rfl⟩ := hk
      exact cleanArts_keys_clean' l r hr x hx

theorem cleanArts_idem (a : Arts) : cleanArts (cleanArts a) = cleanArts a :=
  cleanArts_of_clean _ (cleanArts_clean a)

theorem cleanLink_idem (l : LinkArts) : cleanLink (cleanLink l) = cleanLink l := by
  simp only [cleanLink, cleanArts_idem]

/-! ### the context with every artifact map cleaned up front -/

def cleanCtx (ctx : Ctx) : Ctx :=
  ctx.map fun e => (e.1, e.2.map fun l =>
    { materials := cleanArts l.materials, products := cleanArts l.products })

theorem cleanCtx_eq (ctx : Ctx) : cleanCtx ctx = ctx.map fun e => (e.1, e.2.map cleanLink) := rfl

theorem cleanCtx_clean (ctx : Ctx) : CleanCtx (cleanCtx ctx) := by
  intro e he l hl
  obtain ⟨e0, _, rfl⟩ := List.mem_map.1 he
  cases h0 : e0.2 with
  | none => simp [h0] at hl
  | some l0 =>
    simp only [h0, Option.map] at hl
    cases hl
    exact ⟨cleanArts_clean _, cleanArts_clean _⟩

theorem cleanCtx_idem (ctx : Ctx) : cleanCtx (cleanCtx ctx) = cleanCtx ctx := by
  induction ctx with
  | nil => rfl
  | cons e t ih =>
    obtain ⟨k, v⟩ := e
    cases v with
    | none =>
      show (k, none) :: cleanCtx (cleanCtx t) = (k, none) :: cleanCtx t
      rw [ih]
    | some l =>
      show (k, some (cleanLink (cleanLink l))) :: cleanCtx (cleanCtx t) = (k, some (cleanLink l)) :: cleanCtx t
      rw [cleanLink_idem, ih]

/-! ### lookups in cleaned contexts -/

theorem lookup_cleanCtx (n : Str) (ctx : Ctx) :
    lookup n (cleanCtx ctx) = (lookup n ctx).map (Option.map cleanLink) := by
  induction ctx with
  | nil => rfl
  | cons e t ih =>
    obtain ⟨k, v⟩ := e
    show lookup n ((k, v.map cleanLink) :: cleanCtx t) = _
    simp only [lookup]
    split
    · rfl
    · exact ih

theorem sel_cleanLink (t : ArtType) (l : LinkArts) : sel t (cleanLink l) = cleanArts (sel t l) := by
  cases t <;> rfl

theorem ctxArts_cleanCtx (ctx : Ctx) (n : Str) (t : ArtType) :
    ctxArts (cleanCtx ctx) n t = cleanArts (ctxArts ctx n t) := by
  unfold ctxArts
  rw [lookup_cleanCtx]
  cases lookup n ctx with
  | none => rfl
  | some o =>
    cases o with
    | none => rfl
    | some l => exact sel_cleanLink t l

/-! ### every stage of the interpreter commutes with `cleanCtx` -/

def omap {α β} (f : α → β) : Outcome α → Outcome β
  | .ok a => .ok (f a)
  | .err e => .err e
  | .panic e => .panic e

theorem omap_isOk {α β} (f : α → β) (x : Outcome α) : (omap f x).isOk = x.isOk := by
  cases x <;> rfl

/-- MATCH: the run (on cleaned copies of the two maps it reads) consumes what the run on the fully
    cleaned context consumes, and hands back a context with the same cleaned view -/
theorem verifyMatchRule_sim (glob : Str → Str → Bool) (p sp dp : Str) (dt : ArtType) (dn sn : Str)
    (st : ArtType) (q : List Str) (ctx : Ctx) :
    ((verifyMatchRule glob p sp dp dt dn sn st q ctx).1,
      cleanCtx (verifyMatchRule glob p sp dp dt dn sn st q ctx).2) =
      verifyMatchRule glob p sp dp dt dn sn st q (cleanCtx ctx) := by
  unfold verifyMatchRule
  rw [lookup_cleanCtx]
  cases hd : lookup dn ctx with
  | none => rfl
  | some o =>
    cases o with
    | none => rfl
    | some d =>
      simp only [Option.map]
      rw [ctxArts_cleanCtx, ctxArts_cleanCtx, cleanArts_idem, cleanArts_idem]

theorem ruleStep_sim (glob : Str → Str → Bool) (sn : Str) (st : ArtType) (c d m : List Str) (r : Rule)
    (q : List Str) (ctx : Ctx) :
    (ruleStep glob sn st c d m r q ctx).map (fun x => (x.1, cleanCtx x.2)) =
      ruleStep glob sn st c d m r q (cleanCtx ctx) := by
  cases r with
  | simple t p =>
    cases t <;> simp only [ruleStep, Option.map]
    · by_cases h : (q.filter fun a => glob (Path.clean p) a).isEmpty = true
      · rw [if_pos h, if_pos h]
      · rw [if_neg h, if_neg h]
    · by_cases h : q.contains p = true
      · rw [if_pos h, if_pos h]
      · rw [if_neg h, if_neg h]
  | mtch p sp dp dt dn =>
    simp only [ruleStep, Option.map]
    rw [verifyMatchRule_sim]

theorem applyRules_sim (glob : Str → Str → Bool) (sn : Str) (st : ArtType) (c d m : List Str)
    (rules : List (List Str)) (q : List Str) (ctx : Ctx) :
    omap (fun x => (x.1, cleanCtx x.2)) (applyRules glob sn st c d m rules q ctx) =
      applyRules glob sn st c d m rules q (cleanCtx ctx) := by
  induction rules generalizing q ctx with
  | nil => rfl
  | cons rule rest ih =>
    simp only [applyRules]
    cases unpackRule rule with
    | err e => rfl
    | panic s => rfl
    | ok r =>
      simp only
      rw [← ruleStep_sim]
      cases ruleStep glob sn st c d m r q ctx with
      | none => rfl
      | some x =>
        obtain ⟨cons, ctx2⟩ := x
        simp only [Option.map]
        exact ih _ _

theorem verifyItem_sim (glob : Str → Str → Bool) (ctx : Ctx) (item : Item) :
    omap cleanCtx (verifyItem glob ctx item) = verifyItem glob (cleanCtx ctx) item := by
  have hlc := lookup_cleanCtx item.name ctx
  cases hl : lookup item.name ctx with
  | none =>
    rw [hl] at hlc
    unfold verifyItem
    rw [hl, hlc]
    rfl
  | some o =>
    cases o with
    | none =>
      rw [hl] at hlc
      unfold verifyItem
      rw [hl, hlc]
      rfl
    | some l =>
      rw [hl] at hlc
      rw [verifyItem_eq_gen glob ctx item l hl,
        verifyItem_eq_gen glob (cleanCtx ctx) item (cleanLink l) hlc,
        cleanLink_idem]
      have h1 := applyRules_sim glob item.name .materials (createdOf (cleanLink l))
        (deletedOf (cleanLink l)) (modifiedOf (cleanLink l)) item.expMaterials
        (matQueue (cleanLink l)) ctx
      rw [← h1]
      cases applyRules glob item.name .materials (createdOf (cleanLink l))
        (deletedOf (cleanLink l)) (modifiedOf (cleanLink l)) item.expMaterials
        (matQueue (cleanLink l)) ctx with
      | err e => rfl
      | panic e => rfl
      | ok x =>
        obtain ⟨q1, ctx1⟩ := x
        simp only [omap]
        have h2 := applyRules_sim glob item.name .products (createdOf (cleanLink l))
          (deletedOf (cleanLink l)) (modifiedOf (cleanLink l)) item.expProducts
          (prodQueue (cleanLink l)) ctx1
        rw [← h2]
        cases applyRules glob item.name .products (createdOf (cleanLink l))
          (deletedOf (cleanLink l)) (modifiedOf (cleanLink l)) item.expProducts
          (prodQueue (cleanLink l)) ctx1 with
        | err e => rfl
        | panic e => rfl
        | ok y => rfl

theorem verifyArtifacts_sim (glob : Str → Str → Bool) (items : List Item) (ctx : Ctx) :
    omap cleanCtx (verifyArtifacts glob items ctx) = verifyArtifacts glob items (cleanCtx ctx) := by
  induction items generalizing ctx with
  | nil => rfl
  | cons item rest ih =>
    unfold verifyArtifacts
    rw [← verifyItem_sim]
    cases verifyItem glob ctx item with
    | ok ctx1 => exact ih ctx1
    | err e => rfl
    | panic e => rfl

/-! ### the links are never written to (finding F22, repaired) -/

/-- MATCH hands the context back as it came, whatever the artifact names -/
theorem verifyMatchRule_ctx (glob : Str → Str → Bool)
    (pattern srcPrefix dstPrefix : Str) (dstType : ArtType) (dstName : Str)
    (srcName : Str) (srcType : ArtType) (queue : List Str) (ctx : Ctx) :
    (verifyMatchRule glob pattern srcPrefix dstPrefix dstType dstName srcName srcType queue ctx).2 = ctx := by
  unfold verifyMatchRule
  split <;> rfl

/-- no rule changes the context -/
theorem ruleStep_ctx (glob : Str → Str → Bool) (sn : Str) (st : ArtType) (c d m : List Str) (r : Rule)
    (q : List Str) (ctx : Ctx) (consumed : List Str) (ctx' : Ctx)
    (h : ruleStep glob sn st c d m r q ctx = some (consumed, ctx')) : ctx' = ctx := by
  cases r with
  | simple t p =>
    cases t <;> simp only [ruleStep] at h
    · cases h; rfl
    · cases h; rfl
    · cases h; rfl
    · cases h; rfl
    · split at h
      · cases h; rfl
      · cases h
    · split at h
      · cases h; rfl
      · cases h
  | mtch p sp dp dt dn =>
    simp only [ruleStep, Option.some.injEq] at h
    have := verifyMatchRule_ctx glob p sp dp dt dn sn st q ctx
    rw [h] at this
    exact this

/-- the rule loop of one round returns the context it was given -/
theorem applyRules_ctx (glob : Str → Str → Bool) (sn : Str) (st : ArtType) (c d m : List Str)
    (rules : List (List Str)) (q : List Str) (ctx : Ctx) (q' : List Str) (ctx' : Ctx)
    (h : applyRules glob sn st c d m rules q ctx = .ok (q', ctx')) : ctx' = ctx := by
  induction rules generalizing q with
  | nil =>
    simp only [applyRules] at h
    cases h
    rfl
  | cons rule rest ih =>
    simp only [applyRules] at h
    cases hu : unpackRule rule with
    | err e => rw [hu] at h; cases h
    | panic s => rw [hu] at h; cases h
    | ok r =>
      rw [hu] at h
      simp only at h
      cases hr : ruleStep glob sn st c d m r q ctx with
      | none => rw [hr] at h; cases h
      | some x =>
        obtain ⟨consumed, ctx1⟩ := x
        rw [hr] at h
        simp only at h
        have e := ruleStep_ctx glob sn st c d m r q ctx consumed ctx1 hr
        subst e
        exact ih _ h

/-- one item (both rounds) returns the context it was given -/
theorem verifyItem_ctx (glob : Str → Str → Bool) (ctx : Ctx) (item : Item) (ctx' : Ctx)
    (h : verifyItem glob ctx item = .ok ctx') : ctx' = ctx := by
  cases hl : lookup item.name ctx with
  | none =>
    unfold verifyItem at h
    rw [hl] at h
    cases h
  | some o =>
    cases o with
    | none =>
      unfold verifyItem at h
      rw [hl] at h
      cases h
    | some l =>
      rw [verifyItem_eq_gen glob ctx item l hl] at h
      cases h1 : applyRules glob item.name .materials (createdOf (cleanLink l))
        (deletedOf (cleanLink l)) (modifiedOf (cleanLink l)) item.expMaterials
        (matQueue (cleanLink l)) ctx with
      | err e => rw [h1] at h; cases h
      | panic e => rw [h1] at h; cases h
      | ok x =>
        obtain ⟨q1, ctx1⟩ := x
        rw [h1] at h
        simp only at h
        have e1 := applyRules_ctx _ _ _ _ _ _ _ _ _ _ _ h1
        subst e1
        cases h2 : applyRules glob item.name .products (createdOf (cleanLink l))
          (deletedOf (cleanLink l)) (modifiedOf (cleanLink l)) item.expProducts
          (prodQueue (cleanLink l)) ctx1 with
        | err e => rw [h2] at h; cases h
        | panic e => rw [h2] at h; cases h
        | ok y =>
          obtain ⟨q2, ctx2⟩ := y
          rw [h2] at h
          simp only at h
          have e2 := applyRules_ctx _ _ _ _ _ _ _ _ _ _ _ h2
          cases h
          exact e2

/-- `VerifyArtifacts` never writes to the links it verifies, whatever their artifact names: a
    successful run hands back exactly the context it was given -/
theorem verifyArtifacts_leaves_links_untouched (glob : Str → Str → Bool) (items : List Item)
    (ctx ctx' : Ctx) (h : verifyArtifacts glob items ctx = .ok ctx') : ctx' = ctx := by
  induction items generalizing ctx with
  | nil =>
    simp only [verifyArtifacts] at h
    cases h
    rfl
  | cons item rest ih =>
    unfold verifyArtifacts at h
    cases hv : verifyItem glob ctx item with
    | ok ctx1 =>
      rw [hv] at h
      simp only at h
      have e := verifyItem_ctx glob ctx item ctx1 hv
      subst e
      exact ih _ h
    | err e => rw [hv] at h; cases h
    | panic e => rw [hv] at h; cases h

/-! ### the theorems -/

/-- C03 for ALL artifact names: the verdict of `VerifyArtifacts` on arbitrary links is the verdict on
    the links with every artifact map cleaned up front -/
theorem verifyArtifacts_all_names (glob : Str → Str → Bool) (items : List Item) (ctx : Ctx) :
    (verifyArtifacts glob items ctx).isOk = (verifyArtifacts glob items (cleanCtx ctx)).isOk := by
  rw [← verifyArtifacts_sim, omap_isOk]

/-- more precisely: a successful run corresponds to a successful run, the caller-visible link maps
    after it are, once cleaned, the up-front cleaned maps; and the two runs fail at the same stage -/
theorem verifyArtifacts_all_names_outcome (glob : Str → Str → Bool) (items : List Item) (ctx : Ctx) :
    (∀ ctx1, verifyArtifacts glob items ctx = .ok ctx1 →
      verifyArtifacts glob items (cleanCtx ctx) = .ok (cleanCtx ctx) ∧ cleanCtx ctx1 = cleanCtx ctx) ∧
    (∀ e, verifyArtifacts glob items ctx = .err e ↔ verifyArtifacts glob items (cleanCtx ctx) = .err e) := by
  have hs := verifyArtifacts_sim glob items ctx
  refine ⟨?_, ?_⟩
  · intro ctx1 hv
    rw [hv] at hs
    have := (verifyArtifacts_spec glob items (cleanCtx ctx) (cleanCtx_clean ctx)).1 _ hs.symm
    refine ⟨?_, this⟩
    rw [← hs]
    show Outcome.ok (cleanCtx ctx1) = _
    rw [this]
  · intro e
    cases hv : verifyArtifacts glob items ctx with
    | ok ctx1 =>
      rw [hv] at hs
      rw [← hs]
      constructor <;> intro h <;> cases h
    | err e' =>
      rw [hv] at hs
      rw [← hs]
      constructor <;> intro h <;> cases h <;> rfl
    | panic s =>
      rw [hv] at hs
      rw [← hs]
      constructor <;> intro h <;> cases h

/-- C03 for ALL artifact names, combined with the specification: `VerifyArtifacts` accepts exactly
    when every item meets the queue-algorithm specification on the cleaned links -/
theorem all_items_verified_iff_spec_all_names (glob : Str → Str → Bool) (items : List Item) (ctx : Ctx) :
    (verifyArtifacts glob items ctx).isOk = true ↔ ∀ item ∈ items, ItemOK glob (cleanCtx ctx) item := by
  rw [verifyArtifacts_all_names]
  exact (verifyArtifacts_spec glob items (cleanCtx ctx) (cleanCtx_clean ctx)).2

/-- non-vacuity (the witness of finding F21): material `./a` with hash 1, product `./a` with hash 2;
    `MODIFY *` consumes `a`, so `DISALLOW *` finds nothing -/
example :
    (verifyArtifacts (fun _ _ => true)
      [{ name := lit% "s", expMaterials := [],
         expProducts := [[lit% "MODIFY", lit% "*"], [lit% "DISALLOW", lit% "*"]] }]
      [(lit% "s", some { materials := some [(lit% "./a", some [(lit% "sha256", lit% "1")])],
                          products := some [(lit% "./a", some [(lit% "sha256", lit% "2")])] })]).isOk
      = true := by
  decide

/-- the same with the matcher of the real code -/
example :
    (verifyArtifacts goGlob
      [{ name := lit% "s", expMaterials := [],
         expProducts := [[lit% "MODIFY", lit% "*"], [lit% "DISALLOW", lit% "*"]] }]
      [(lit% "s", some { materials := some [(lit% "./a", some [(lit% "sha256", lit% "1")])],
                          products := some [(lit% "./a", some [(lit% "sha256", lit% "2")])] })]).isOk
      = true := by
  decide

/-- control: it is the MODIFY rule that makes the difference (without it `DISALLOW *` rejects) -/
example :
    (verifyArtifacts (fun _ _ => true)
      [{ name := lit% "s", expMaterials := [],
         expProducts := [[lit% "DISALLOW", lit% "*"]] }]
      [(lit% "s", some { materials := some [(lit% "./a", some [(lit% "sha256", lit% "1")])],
                          products := some [(lit% "./a", some [(lit% "sha256", lit% "2")])] })]).isOk
      = false := by
  decide

/-- control: an UNCHANGED `./a` is not "modified", `DISALLOW *` rejects -/
example :
    (verifyArtifacts (fun _ _ => true)
      [{ name := lit% "s", expMaterials := [],
         expProducts := [[lit% "MODIFY", lit% "*"], [lit% "DISALLOW", lit% "*"]] }]
      [(lit% "s", some { materials := some [(lit% "./a", some [(lit% "sha256", lit% "1")])],
                          products := some [(lit% "./a", some [(lit% "sha256", lit% "1")])] })]).isOk
      = false := by
  decide

end InToto.RulesAllNames
