import InToto.Proofs.CleanOrder
import InToto.Proofs.PathClean
import InToto.Proofs.RulesItems

/-!
C03 for ALL artifact names (no `CleanCtx` hypothesis).

`VerifyArtifacts` cleans artifact maps in place, lazily: an item's own two maps at the top of the
item's round, the source and the destination map of a MATCH rule when the rule is evaluated.  Every
READ of a map happens after that map was cleaned, and cleaning is idempotent (`cleanArts_idem`, from
`PathClean.clean_idem`).  Hence the lazily cleaned run is simulated by the run on the context whose
maps are all cleaned up front (`cleanCtx`): the simulation relation is simply
`cleanCtx ctx = ctx'`, and every stage of the interpreter commutes with `cleanCtx`.
-/

namespace InToto.RulesAllNames
open InToto InToto.Rules InToto.RulesSpec InToto.RulesProofs InToto.RulesItems

/-! ### cleaning is idempotent -/

/-- `CleanOrder.cleanArts_keys_clean` without the idempotence hypothesis -/
theorem cleanArts_keys_clean' (l : List (Str × HashObj)) :
    ∀ r, cleanArts (some l) = some r → ∀ x ∈ r, Path.clean x.1 = x.1 :=
  CleanOrder.cleanArts_keys_clean l (fun x _ => PathClean.clean_idem x.1)

/-- every name of a cleaned map is a clean path -/
theorem cleanArts_clean (a : Arts) : CleanArts (cleanArts a) := by
  cases a with
  | none => intro k hk; cases hk
  | some l =>
    cases hr : cleanArts (some l) with
    | none => intro k hk; cases hk
    | some r =>
      intro k hk
      simp only [artsKeys, List.mem_map] at hk
      obtain ⟨x, hx, rfl⟩ := hk
      exact cleanArts_keys_clean' l r hr x hx

theorem cleanArts_idem (a : Arts) : cleanArts (cleanArts a) = cleanArts a :=
  cleanArts_of_clean _ (cleanArts_clean a)

theorem cleanLink_idem (l : LinkArts) : cleanLink (cleanLink l) = cleanLink l := by
  simp only [cleanLink, cleanArts_idem]

/-! ### the context with every artifact map cleaned up front -/

def cleanCtx (ctx : Ctx) : Ctx :=
  ctx.map fun e => (e.1, e.2.map fun l =>
    { materials := cleanArts l.materials, products := cleanArts l.products })

theorem cleanCtx_eq (ctx : Ctx) : cleanCtx ctx = ctx.map fun e => (e.1, e.2.map cleanLink) := rfl

theorem cleanCtx_clean (ctx : Ctx) : CleanCtx (cleanCtx ctx) := by
  intro e he l hl
  obtain ⟨e0, _, rfl⟩ := List.mem_map.1 he
  cases h0 : e0.2 with
  | none => simp [h0] at hl
  | some l0 =>
    simp only [h0, Option.map] at hl
    cases hl
    exact ⟨cleanArts_clean _, cleanArts_clean _⟩

theorem cleanCtx_idem (ctx : Ctx) : cleanCtx (cleanCtx ctx) = cleanCtx ctx := by
  have h := ctxUpdate_cleanLink_clean (cleanCtx ctx) (cleanCtx_clean ctx)
  induction ctx with
  | nil => rfl
  | cons e t ih =>
    obtain ⟨k, v⟩ := e
    cases v with
    | none =>
      show (k, none) :: cleanCtx (cleanCtx t) = (k, none) :: cleanCtx t
      rw [ih (fun name => by
        have := h name
        simp only [cleanCtx, ctxUpdate, List.map_cons, List.cons.injEq] at this
        exact this.2)]
    | some l =>
      show (k, some (cleanLink (cleanLink l))) :: cleanCtx (cleanCtx t) = (k, some (cleanLink l)) :: cleanCtx t
      rw [cleanLink_idem, ih (fun name => by
        have := h name
        simp only [cleanCtx, ctxUpdate, List.map_cons, List.cons.injEq] at this
        exact this.2)]

/-! ### lookups in updated / cleaned contexts -/

theorem lookup_cleanCtx (n : Str) (ctx : Ctx) :
    lookup n (cleanCtx ctx) = (lookup n ctx).map (Option.map cleanLink) := by
  induction ctx with
  | nil => rfl
  | cons e t ih =>
    obtain ⟨k, v⟩ := e
    show lookup n ((k, v.map cleanLink) :: cleanCtx t) = _
    simp only [lookup]
    split
    · rfl
    · exact ih

theorem lookup_ctxUpdate (n name : Str) (f : LinkArts → LinkArts) (ctx : Ctx) :
    lookup n (ctxUpdate ctx name f) =
      if n = name then (lookup n ctx).map (Option.map f) else lookup n ctx := by
  induction ctx with
  | nil => simp [ctxUpdate, lookup]
  | cons e t ih =>
    obtain ⟨k, v⟩ := e
    have ih' : lookup n (List.map (fun e => if e.1 = name then (e.1, e.2.map f) else e) t) =
        if n = name then (lookup n t).map (Option.map f) else lookup n t := ih
    simp only [ctxUpdate, List.map_cons]
    by_cases hk : k = name
    · simp only [hk, if_true, lookup]
      by_cases hn : name = n
      · simp [hn]
      · rw [if_neg hn, if_neg hn, ih']
    · simp only [hk, if_false, lookup]
      by_cases hn : k = n
      · subst hn
        simp [hk]
      · rw [if_neg hn, if_neg hn, ih']

theorem sel_cleanLink (t : ArtType) (l : LinkArts) : sel t (cleanLink l) = cleanArts (sel t l) := by
  cases t <;> rfl

theorem sel_setSel (t t' : ArtType) (l : LinkArts) (a : Arts) :
    sel t' (setSel t l a) = if t' = t then a else sel t' l := by
  cases t <;> cases t' <;> simp [sel, setSel]

theorem ctxArts_cleanCtx (ctx : Ctx) (n : Str) (t : ArtType) :
    ctxArts (cleanCtx ctx) n t = cleanArts (ctxArts ctx n t) := by
  unfold ctxArts
  rw [lookup_cleanCtx]
  cases lookup n ctx with
  | none => rfl
  | some o =>
    cases o with
    | none => rfl
    | some l => exact sel_cleanLink t l

/-- reading a map after the in-place clean-up of one map (of type `t` of the link `name`) -/
theorem ctxArts_upd (ctx : Ctx) (name : Str) (t : ArtType) (n : Str) (t' : ArtType) :
    ctxArts (ctxUpdate ctx name fun l => setSel t l (cleanArts (sel t l))) n t' =
      if n = name ∧ t' = t then cleanArts (ctxArts ctx n t') else ctxArts ctx n t' := by
  unfold ctxArts
  rw [lookup_ctxUpdate]
  by_cases hn : n = name
  · simp only [hn, if_true, true_and]
    cases lookup name ctx with
    | none =>
      simp only [Option.map]
      split <;> rfl
    | some o =>
      cases o with
      | none =>
        simp only [Option.map]
        split <;> rfl
      | some l =>
        simp only [Option.map, sel_setSel]
        split
        · rename_i ht; rw [ht]
        · rfl
  · simp only [hn, if_false, false_and]

/-- after the two clean-ups of a MATCH rule, the source map and the destination map ARE cleaned -/
theorem ctxArts_upd2 (ctx : Ctx) (sn : Str) (st : ArtType) (dn : Str) (dt : ArtType) (n : Str)
    (t : ArtType) (h : (n = sn ∧ t = st) ∨ (n = dn ∧ t = dt)) :
    ctxArts (ctxUpdate (ctxUpdate ctx sn fun l => setSel st l (cleanArts (sel st l))) dn
        fun l => setSel dt l (cleanArts (sel dt l))) n t = cleanArts (ctxArts ctx n t) := by
  rw [ctxArts_upd, ctxArts_upd]
  by_cases h1 : n = sn ∧ t = st
  · rw [if_pos h1]
    split
    · exact cleanArts_idem _
    · rfl
  · rw [if_neg h1]
    rcases h with h | h
    · exact absurd h h1
    · rw [if_pos h]

theorem cleanLink_upd (t : ArtType) (l : LinkArts) :
    cleanLink (setSel t l (cleanArts (sel t l))) = cleanLink l := by
  cases t <;> simp only [cleanLink, setSel, sel, cleanArts_idem]

/-- the in-place clean-up of one map is invisible after `cleanCtx` -/
theorem cleanCtx_upd (ctx : Ctx) (name : Str) (t : ArtType) :
    cleanCtx (ctxUpdate ctx name fun l => setSel t l (cleanArts (sel t l))) = cleanCtx ctx := by
  induction ctx with
  | nil => rfl
  | cons e rest ih =>
    obtain ⟨k, v⟩ := e
    have ih' : cleanCtx (List.map (fun e => if e.1 = name then
        (e.1, e.2.map fun l => setSel t l (cleanArts (sel t l))) else e) rest) = cleanCtx rest := ih
    simp only [ctxUpdate, List.map_cons]
    by_cases hk : k = name
    · simp only [hk, if_true]
      show (name, _) :: cleanCtx _ = (name, _) :: cleanCtx rest
      rw [ih']
      cases v with
      | none => rfl
      | some l =>
        show (name, some (cleanLink (setSel t l (cleanArts (sel t l))))) :: _ = (name, some (cleanLink l)) :: _
        rw [cleanLink_upd]
    · simp only [hk, if_false]
      show (k, _) :: cleanCtx _ = (k, _) :: cleanCtx rest
      rw [ih']

/-- the in-place clean-up of an item's own link is invisible after `cleanCtx` -/
theorem cleanCtx_updLink (ctx : Ctx) (name : Str) :
    cleanCtx (ctxUpdate ctx name cleanLink) = cleanCtx ctx := by
  induction ctx with
  | nil => rfl
  | cons e rest ih =>
    obtain ⟨k, v⟩ := e
    have ih' : cleanCtx (List.map (fun e => if e.1 = name then (e.1, e.2.map cleanLink) else e) rest)
        = cleanCtx rest := ih
    simp only [ctxUpdate, List.map_cons]
    by_cases hk : k = name
    · simp only [hk, if_true]
      show (name, _) :: cleanCtx _ = (name, _) :: cleanCtx rest
      rw [ih']
      cases v with
      | none => rfl
      | some l =>
        show (name, some (cleanLink (cleanLink l))) :: _ = (name, some (cleanLink l)) :: _
        rw [cleanLink_idem]
    · simp only [hk, if_false]
      show (k, _) :: cleanCtx _ = (k, _) :: cleanCtx rest
      rw [ih']

/-! ### every stage of the interpreter commutes with `cleanCtx` -/

def omap {α β} (f : α → β) : Outcome α → Outcome β
  | .ok a => .ok (f a)
  | .err e => .err e
  | .panic e => .panic e

theorem omap_isOk {α β} (f : α → β) (x : Outcome α) : (omap f x).isOk = x.isOk := by
  cases x <;> rfl

/-- MATCH: the lazily cleaned run consumes what the run on the fully cleaned context consumes, and
    leaves a context with the same cleaned view -/
theorem verifyMatchRule_sim (glob : Str → Str → Bool) (p sp dp : Str) (dt : ArtType) (dn sn : Str)
    (st : ArtType) (q : List Str) (ctx : Ctx) :
    ((verifyMatchRule glob p sp dp dt dn sn st q ctx).1,
      cleanCtx (verifyMatchRule glob p sp dp dt dn sn st q ctx).2) =
      verifyMatchRule glob p sp dp dt dn sn st q (cleanCtx ctx) := by
  unfold verifyMatchRule
  rw [lookup_cleanCtx]
  cases hd : lookup dn ctx with
  | none => rfl
  | some o =>
    cases o with
    | none => rfl
    | some d =>
      simp only [Option.map]
      rw [ctxUpdate_clean (cleanCtx ctx) (cleanCtx_clean ctx) sn st,
        ctxUpdate_clean (cleanCtx ctx) (cleanCtx_clean ctx) dn dt,
        cleanCtx_upd, cleanCtx_upd, ctxArts_cleanCtx, ctxArts_cleanCtx,
        ctxArts_upd2 ctx sn st dn dt sn st (Or.inl ⟨rfl, rfl⟩),
        ctxArts_upd2 ctx sn st dn dt dn dt (Or.inr ⟨rfl, rfl⟩)]

theorem ruleStep_sim (glob : Str → Str → Bool) (sn : Str) (st : ArtType) (c d m : List Str) (r : Rule)
    (q : List Str) (ctx : Ctx) :
    (ruleStep glob sn st c d m r q ctx).map (fun x => (x.1, cleanCtx x.2)) =
      ruleStep glob sn st c d m r q (cleanCtx ctx) := by
  cases r with
  | simple t p =>
    cases t <;> simp only [ruleStep, Option.map]
    · by_cases h : (q.filter fun a => glob (Path.clean p) a).isEmpty = true
      · rw [if_pos h, if_pos h]
      · rw [if_neg h, if_neg h]
    · by_cases h : q.contains p = true
      · rw [if_pos h, if_pos h]
      · rw [if_neg h, if_neg h]
  | mtch p sp dp dt dn =>
    simp only [ruleStep, Option.map]
    rw [verifyMatchRule_sim]

theorem applyRules_sim (glob : Str → Str → Bool) (sn : Str) (st : ArtType) (c d m : List Str)
    (rules : List (List Str)) (q : List Str) (ctx : Ctx) :
    omap (fun x => (x.1, cleanCtx x.2)) (applyRules glob sn st c d m rules q ctx) =
      applyRules glob sn st c d m rules q (cleanCtx ctx) := by
  induction rules generalizing q ctx with
  | nil => rfl
  | cons rule rest ih =>
    simp only [applyRules]
    cases unpackRule rule with
    | err e => rfl
    | panic s => rfl
    | ok r =>
      simp only
      rw [← ruleStep_sim]
      cases ruleStep glob sn st c d m r q ctx with
      | none => rfl
      | some x =>
        obtain ⟨cons, ctx2⟩ := x
        simp only [Option.map]
        exact ih _ _

theorem verifyItem_sim (glob : Str → Str → Bool) (ctx : Ctx) (item : Item) :
    omap cleanCtx (verifyItem glob ctx item) = verifyItem glob (cleanCtx ctx) item := by
  have hlc := lookup_cleanCtx item.name ctx
  cases hl : lookup item.name ctx with
  | none =>
    rw [hl] at hlc
    unfold verifyItem
    rw [hl, hlc]
    rfl
  | some o =>
    cases o with
    | none =>
      rw [hl] at hlc
      unfold verifyItem
      rw [hl, hlc]
      rfl
    | some l =>
      rw [hl] at hlc
      rw [verifyItem_eq_gen glob ctx item l hl,
        verifyItem_eq_gen glob (cleanCtx ctx) item (cleanLink l) hlc,
        cleanLink_idem, ctxUpdate_cleanLink_clean (cleanCtx ctx) (cleanCtx_clean ctx)]
      have h1 := applyRules_sim glob item.name .materials (createdOf (cleanLink l))
        (deletedOf (cleanLink l)) (modifiedOf (cleanLink l)) item.expMaterials
        (matQueue (cleanLink l)) (ctxUpdate ctx item.name cleanLink)
      rw [cleanCtx_updLink] at h1
      rw [← h1]
      cases applyRules glob item.name .materials (createdOf (cleanLink l))
        (deletedOf (cleanLink l)) (modifiedOf (cleanLink l)) item.expMaterials
        (matQueue (cleanLink l)) (ctxUpdate ctx item.name cleanLink) with
      | err e => rfl
      | panic e => rfl
      | ok x =>
        obtain ⟨q1, ctx1⟩ := x
        simp only [omap]
        have h2 := applyRules_sim glob item.name .products (createdOf (cleanLink l))
          (deletedOf (cleanLink l)) (modifiedOf (cleanLink l)) item.expProducts
          (prodQueue (cleanLink l)) ctx1
        rw [← h2]
        cases applyRules glob item.name .products (createdOf (cleanLink l))
          (deletedOf (cleanLink l)) (modifiedOf (cleanLink l)) item.expProducts
          (prodQueue (cleanLink l)) ctx1 with
        | err e => rfl
        | panic e => rfl
        | ok y => rfl

theorem verifyArtifacts_sim (glob : Str → Str → Bool) (items : List Item) (ctx : Ctx) :
    omap cleanCtx (verifyArtifacts glob items ctx) = verifyArtifacts glob items (cleanCtx ctx) := by
  induction items generalizing ctx with
  | nil => rfl
  | cons item rest ih =>
    unfold verifyArtifacts
    rw [← verifyItem_sim]
    cases verifyItem glob ctx item with
    | ok ctx1 => exact ih ctx1
    | err e => rfl
    | panic e => rfl

/-! ### the theorems -/

/-- C03 for ALL artifact names: the verdict of `VerifyArtifacts` on arbitrary links is the verdict on
    the links with every artifact map cleaned up front -/
theorem verifyArtifacts_all_names (glob : Str → Str → Bool) (items : List Item) (ctx : Ctx) :
    (verifyArtifacts glob items ctx).isOk = (verifyArtifacts glob items (cleanCtx ctx)).isOk := by
  rw [← verifyArtifacts_sim, omap_isOk]

/-- more precisely: a successful run corresponds to a successful run, the caller-visible link maps
    after it are, once cleaned, the up-front cleaned maps; and the two runs fail at the same stage -/
theorem verifyArtifacts_all_names_outcome (glob : Str → Str → Bool) (items : List Item) (ctx : Ctx) :
    (∀ ctx1, verifyArtifacts glob items ctx = .ok ctx1 →
      verifyArtifacts glob items (cleanCtx ctx) = .ok (cleanCtx ctx) ∧ cleanCtx ctx1 = cleanCtx ctx) ∧
    (∀ e, verifyArtifacts glob items ctx = .err e ↔ verifyArtifacts glob items (cleanCtx ctx) = .err e) := by
  have hs := verifyArtifacts_sim glob items ctx
  refine ⟨?_, ?_⟩
  · intro ctx1 hv
    rw [hv] at hs
    have := (verifyArtifacts_spec glob items (cleanCtx ctx) (cleanCtx_clean ctx)).1 _ hs.symm
    refine ⟨?_, this⟩
    rw [← hs]
    show Outcome.ok (cleanCtx ctx1) = _
    rw [this]
  · intro e
    cases hv : verifyArtifacts glob items ctx with
    | ok ctx1 =>
      rw [hv] at hs
      rw [← hs]
      constructor <;> intro h <;> cases h
    | err e' =>
      rw [hv] at hs
      rw [← hs]
      constructor <;> intro h <;> cases h <;> rfl
    | panic s =>
      rw [hv] at hs
      rw [← hs]
      constructor <;> intro h <;> cases h

/-- C03 for ALL artifact names, combined with the specification: `VerifyArtifacts` accepts exactly
    when every item meets the queue-algorithm specification on the cleaned links -/
theorem all_items_verified_iff_spec_all_names (glob : Str → Str → Bool) (items : List Item) (ctx : Ctx) :
    (verifyArtifacts glob items ctx).isOk = true ↔ ∀ item ∈ items, ItemOK glob (cleanCtx ctx) item := by
  rw [verifyArtifacts_all_names]
  exact (verifyArtifacts_spec glob items (cleanCtx ctx) (cleanCtx_clean ctx)).2

/-- non-vacuity (the witness of finding F21): material `./a` with hash 1, product `./a` with hash 2;
    `MODIFY *` consumes `a`, so `DISALLOW *` finds nothing -/
example :
    (verifyArtifacts (fun _ _ => true)
      [{ name := lit% "s", expMaterials := [],
         expProducts := [[lit% "MODIFY", lit% "*"], [lit% "DISALLOW", lit% "*"]] }]
      [(lit% "s", some { materials := some [(lit% "./a", some [(lit% "sha256", lit% "1")])],
                          products := some [(lit% "./a", some [(lit% "sha256", lit% "2")])] })]).isOk
      = true := by
  decide

/-- the same with the matcher of the real code -/
example :
    (verifyArtifacts goGlob
      [{ name := lit% "s", expMaterials := [],
         expProducts := [[lit% "MODIFY", lit% "*"], [lit% "DISALLOW", lit% "*"]] }]
      [(lit% "s", some { materials := some [(lit% "./a", some [(lit% "sha256", lit% "1")])],
                          products := some [(lit% "./a", some [(lit% "sha256", lit% "2")])] })]).isOk
      = true := by
  decide

/-- control: it is the MODIFY rule that makes the difference (without it `DISALLOW *` rejects) -/
example :
    (verifyArtifacts (fun _ _ => true)
      [{ name := lit% "s", expMaterials := [],
         expProducts := [[lit% "DISALLOW", lit% "*"]] }]
      [(lit% "s", some { materials := some [(lit% "./a", some [(lit% "sha256", lit% "1")])],
                          products := some [(lit% "./a", some [(lit% "sha256", lit% "2")])] })]).isOk
      = false := by
  decide

/-- control: an UNCHANGED `./a` is not "modified", `DISALLOW *` rejects -/
example :
    (verifyArtifacts (fun _ _ => true)
      [{ name := lit% "s", expMaterials := [],
         expProducts := [[lit% "MODIFY", lit% "*"], [lit% "DISALLOW", lit% "*"]] }]
      [(lit% "s", some { materials := some [(lit% "./a", some [(lit% "sha256", lit% "1")])],
                          products := some [(lit% "./a", some [(lit% "sha256", lit% "1")])] })]).isOk
      = false := by
  decide

end InToto.RulesAllNames
