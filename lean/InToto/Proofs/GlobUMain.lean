import InToto.Proofs.GlobUStar

/-!
Main correspondence between the model of `match` (`goMatchAux`, star loop advancing by one rune)
run on UTF-8 ENCODED pattern and name, and the declarative glob specification over CODE POINTS:
induction over the chunks of the pattern (the UTF-8 version of `Glob.lean`).
-/
namespace InToto.GlobUtf8
open InToto.Glob InToto.GlobSpec InToto.GlobProofs

theorem goMatchAux_ne (f : Nat) (p name : Bytes) (h : p ≠ []) :
    goMatchAux false (f + 1) p name =
      goStep (goMatchAux false f) (scanChunk p).1 (scanChunk p).2.1 (scanChunk p).2.2 name := by
  cases p with
  | nil => exact absurd rfl h
  | cons c p0 => rfl

theorem goStep_chunk (rec : Bytes → Bytes → Option Bool) (star : Bool) {rc : List Nat}
    {its : List Item} (hch : ChunkU false rc its) (rr n : List Nat) (hn : AllSc n) :
    goStep rec star (encs rc) (encs rr) (encs n) =
      if star && rc.isEmpty then some true
      else
        match prefixMatchU its n with
        | some t =>
          if t.isEmpty || !rr.isEmpty then rec (encs rr) (encs t)
          else starBranch rec star (encs rc) (encs rr) (encs n)
        | none => starBranch rec star (encs rc) (encs rr) (encs n) := by
  unfold goStep
  rw [encs_isEmpty]
  split
  · rfl
  · rw [matchChunk_chunk hch n hn]
    simp only [chunkResU, Bool.false_eq_true, ↓reduceIte]
    cases prefixMatchU its n with
    | none => simp
    | some t =>
      simp only [encs_isEmpty]
      by_cases hc : (t.isEmpty || !rr.isEmpty) = true
      · simp [hc]
      · simp [hc]

/-! ### soundness -/

theorem matches_stars_intro (k : Nat) (is : List Item) (pre n' : List Nat)
    (hk : pre ≠ [] → 0 < k) (h : Matches is n') :
    Matches (List.replicate k Item.star ++ is) (pre ++ n') := by
  rw [matches_stars_iff]
  split
  · rename_i hk0
    have : pre = [] := by
      by_cases hp : pre = []
      · exact hp
      · have := hk hp; omega
    subst this
    simpa using h
  · exact ⟨pre, n', rfl, h⟩

theorem goMatchAux_sound : ∀ (fuel : Nat) (p n : List Nat), AllSc p → AllSc n →
    goMatchAux false fuel (encs p) (encs n) = some true →
    ∃ is, parsePat p = some is ∧ Matches is n := by
  intro fuel
  induction fuel with
  | zero => intro p n _ _ h; simp [goMatchAux] at h
  | succ f ih =>
    intro p n hp hn h
    cases p with
    | nil =>
      rw [encs_nil, goMatchAux_nil, encs_isEmpty] at h
      have : n = [] := by simpa using h
      subst this
      exact ⟨[], rfl, Matches.nil⟩
    | cons c p0 =>
      have hne : encs (c :: p0) ≠ [] := fun h0 => by simpa using encs_eq_nil.1 h0
      rw [goMatchAux_ne _ _ _ hne] at h
      obtain ⟨k, rc, rr, hsplit, hnostar, hform, hscan, hsc⟩ := scanChunkU_spec (c :: p0) hp
      rw [hsc] at h
      simp only at h
      have hp' : AllSc (rc ++ rr) := by rw [hsplit] at hp; exact hp.append_right
      have hrcA : AllSc rc := hp'.append_left
      have hrrA : AllSc rr := hp'.append_right
      rw [hsplit, parsePat_stars]
      by_cases hse : (decide (0 < k) && (encs rc).isEmpty) = true
      · -- pattern consists of stars only
        rw [encs_isEmpty] at hse
        simp only [Bool.and_eq_true, decide_eq_true_eq, List.isEmpty_iff] at hse
        obtain ⟨hk, hce⟩ := hse
        subst hce
        have hrrnil : rr = [] := by
          rcases hform with h1 | ⟨r, h1⟩
          · exact h1
          · exact absurd (by simpa using h1) (hnostar r)
        subst hrrnil
        refine ⟨List.replicate k Item.star ++ [], by simp [parsePat_nil], ?_⟩
        have := matches_stars_intro k [] n [] (fun _ => hk) Matches.nil
        simpa using this
      · have hbad := goStep_bad _ _ _ _ _ h hse
        obtain ⟨its, hch1⟩ := matchChunkAux_inv rc.length rc (Nat.le_refl _) hrcA _ _ _ hbad
        have hch : ChunkU false rc its := by
          apply chunk_no_top_star hch1 (encs rr)
          rw [← encs_append, hscan]
          exact Nat.le_refl _
        rw [goStep_chunk _ _ hch rr n hn] at h
        rw [encs_isEmpty] at hse
        simp only [hse, Bool.false_eq_true, ↓reduceIte] at h
        have hparse : ∀ is', parsePat rr = some is' →
            parsePat (rc ++ rr) = some (its ++ is') := by
          intro is' hr
          rw [parsePat_chunk hch, hr]; rfl
        -- the two ways to succeed
        have hdirect : ∀ t, prefixMatchU its n = some t →
            goMatchAux false f (encs rr) (encs t) = some true →
            ∃ is, Option.map (fun x => List.replicate k Item.star ++ x) (parsePat (rc ++ rr)) =
              some is ∧ Matches is n := by
          intro t hpm hrec
          have htA : AllSc t := AllSc.suffix (prefixMatchU_suffix _ _ _ hpm).1 hn
          obtain ⟨is', hr, hm⟩ := ih rr t hrrA htA hrec
          refine ⟨List.replicate k Item.star ++ (its ++ is'), by rw [hparse is' hr]; rfl, ?_⟩
          have := matches_of_prefixMatchU its hch.no_star n t is' hpm hm
          simpa using matches_stars_intro k _ [] n (fun h => absurd rfl h) this
        have hstar : starBranch (goMatchAux false f) (decide (0 < k)) (encs rc) (encs rr) (encs n)
              = some true →
            ∃ is, Option.map (fun x => List.replicate k Item.star ++ x) (parsePat (rc ++ rr)) =
              some is ∧ Matches is n := by
          intro hsb
          obtain ⟨hk, T, hsl, hrec⟩ := starBranch_true hsb
          simp only [decide_eq_true_eq] at hk
          obtain ⟨n', t, hsuf, hpm, hT⟩ := starLoop_sound hch _ _ n hn T hsl
          subst hT
          have hn'A : AllSc n' := AllSc.suffix hsuf hn
          have htA : AllSc t := AllSc.suffix (prefixMatchU_suffix _ _ _ hpm).1 hn'A
          obtain ⟨is', hr, hm⟩ := ih rr t hrrA htA hrec
          refine ⟨List.replicate k Item.star ++ (its ++ is'), by rw [hparse is' hr]; rfl, ?_⟩
          have := matches_of_prefixMatchU its hch.no_star n' t is' hpm hm
          obtain ⟨pre, rfl⟩ := hsuf
          exact matches_stars_intro k _ pre n' (fun _ => hk) this
        split at h
        · rename_i t hpm
          split at h
          · exact hdirect t hpm h
          · exact hstar h
        · exact hstar h

/-! ### completeness -/

theorem stars_split_unique : ∀ {k k' : Nat} {a b : List Nat},
    (∀ tl, a ≠ GlobSpec.cStar :: tl) → (∀ tl, b ≠ GlobSpec.cStar :: tl) →
    List.replicate k GlobSpec.cStar ++ a = List.replicate k' GlobSpec.cStar ++ b →
    k = k' ∧ a = b := by
  intro k
  induction k with
  | zero =>
    intro k' a b ha hb h
    cases k' with
    | zero => exact ⟨rfl, by simpa using h⟩
    | succ k' =>
      simp only [List.replicate_zero, List.nil_append, List.replicate_succ,
        List.cons_append] at h
      exact absurd h (ha _)
  | succ k ih =>
    intro k' a b ha hb h
    cases k' with
    | zero =>
      simp only [List.replicate_zero, List.nil_append, List.replicate_succ,
        List.cons_append] at h
      exact absurd h.symm (hb _)
    | succ k' =>
      simp only [List.replicate_succ, List.cons_append, List.cons.injEq, true_and] at h
      obtain ⟨e1, e2⟩ := ih ha hb h
      exact ⟨by rw [e1], e2⟩

theorem goMatchAux_complete : ∀ (fuel : Nat) (p n : List Nat), AllSc p → AllSc n →
    (encs p).length < fuel →
    ∀ is, parsePat p = some is → Matches is n →
    goMatchAux false fuel (encs p) (encs n) = some true := by
  intro fuel
  induction fuel with
  | zero => intro p n _ _ h; omega
  | succ f ih =>
    intro p n hp hn hfuel is hparse hm
    cases p with
    | nil =>
      rw [encs_nil, goMatchAux_nil, encs_isEmpty]
      simp only [parsePat_nil, Option.some.injEq] at hparse
      subst hparse
      have := matches_nil_inv hm
      subst this
      rfl
    | cons c p0 =>
      have hne : encs (c :: p0) ≠ [] := fun h0 => by simpa using encs_eq_nil.1 h0
      rw [goMatchAux_ne _ _ _ hne]
      obtain ⟨k, rc0, rr0, hsplit, hnostar, _, _, hsc⟩ := scanChunkU_spec (c :: p0) hp
      have hp' : AllSc (rc0 ++ rr0) := by rw [hsplit] at hp; exact hp.append_right
      rw [hsplit, parsePat_stars] at hparse
      obtain ⟨is1, hparse1, his⟩ := Option.map_eq_some_iff.1 hparse
      subst his
      obtain ⟨chunk, its, rest, is', hp'split, hch, his1, hparseR, hform⟩ :=
        parsePat_chunk_inv (rc0 ++ rr0).length (rc0 ++ rr0) (Nat.le_refl _) hp' is1 hparse1
      subst his1
      have hchA : AllSc chunk := by rw [hp'split] at hp'; exact hp'.append_left
      have hrestA : AllSc rest := by rw [hp'split] at hp'; exact hp'.append_right
      -- the scan finds exactly this chunk
      have hscan : scan (encs (rc0 ++ rr0)) false = (encs chunk).length := by
        rw [hp'split, encs_append, scan_chunk hch]
        rcases hform with rfl | ⟨r, rfl⟩
        · simp [scan_nil]
        · simp [scan_star]
      have hsc' : scanChunk (encs (c :: p0)) = (decide (0 < k), encs chunk, encs rest) := by
        obtain ⟨k', p'', h1, h2, h3⟩ := dropStarsU_spec (c :: p0) hp false
        have hkk : k' = k ∧ p'' = rc0 ++ rr0 :=
          stars_split_unique h3 hnostar (h1.symm.trans hsplit)
        obtain ⟨rfl, rfl⟩ := hkk
        simp only [scanChunk, h2, Bool.false_or]
        rw [scanLoop_eq_scan _ _ _ _ (Nat.le_succ _), hscan, hp'split, encs_append]
        simp
      rw [hsc']
      simp only
      rw [goStep_chunk _ _ hch rest n hn]
      split
      · rfl
      · rename_i hse
        -- the rest of the pattern is strictly shorter
        have hlen : (encs rest).length < f := by
          have h1 := congrArg (fun l => (encs l).length) hsplit
          have h2 := congrArg (fun l => (encs l).length) hp'split
          have hrep : ∀ j, (encs (List.replicate j GlobSpec.cStar)).length = j := by
            intro j
            induction j with
            | zero => rfl
            | succ j ihj => simp [List.replicate_succ, ihj]
          simp only [encs_append, List.length_append, hrep] at h1 h2
          by_cases hk : 0 < k
          · omega
          · have hk0 : k = 0 := by omega
            have hcne : chunk ≠ [] := by
              intro hce
              subst hce hk0
              simp only [List.replicate_zero, List.nil_append] at hsplit hp'split
              rcases hform with rfl | ⟨r, rfl⟩
              · rw [hp'split] at hsplit; cases hsplit
              · exact hnostar r hp'split
            have : 0 < (encs chunk).length :=
              List.length_pos_iff.2 (fun h0 => hcne (encs_eq_nil.1 h0))
            omega
        have hrec : ∀ t, AllSc t → Matches is' t →
            goMatchAux false f (encs rest) (encs t) = some true :=
          fun t htA hmt => ih rest t hrestA htA hlen is' hparseR hmt
        -- shape of the remaining items
        have hshape : (rest = [] ∧ is' = []) ∨ (rest ≠ [] ∧ ∃ is'', is' = Item.star :: is'') := by
          rcases hform with rfl | ⟨r, rfl⟩
          · left
            simp only [parsePat_nil, Option.some.injEq] at hparseR
            exact ⟨rfl, hparseR.symm⟩
          · right
            refine ⟨by simp, ?_⟩
            rw [parsePat_star] at hparseR
            obtain ⟨is'', _, h2⟩ := Option.map_eq_some_iff.1 hparseR
            exact ⟨is'', h2.symm⟩
        rw [matches_stars_iff] at hm
        split at hm
        · -- no star in front of the chunk: the chunk must match at position 0
          obtain ⟨t, hpm, hmt⟩ := prefixMatchU_of_matches its hch.no_star n is' hm
          have htA : AllSc t := AllSc.suffix (prefixMatchU_suffix _ _ _ hpm).1 hn
          have hcond : (t.isEmpty || !rest.isEmpty) = true := by
            rcases hshape with ⟨_, rfl⟩ | ⟨hr, _⟩
            · have := matches_nil_inv hmt
              subst this; rfl
            · cases rest with
              | nil => exact absurd rfl hr
              | cons _ _ => simp
          simp only [hpm, hcond, ↓reduceIte]
          exact hrec t htA hmt
        · rename_i hk
          have hk' : decide (0 < k) = true := by simp; omega
          obtain ⟨pre, n', rfl, hm0⟩ := hm
          obtain ⟨t', hpm', hmt'⟩ := prefixMatchU_of_matches its hch.no_star n' is' hm0
          have hn'A : AllSc n' := hn.append_right
          have hfuelN : (pre ++ n').length ≤ (encs (pre ++ n')).length + 1 := by
            have := length_le_encs (pre ++ n'); omega
          rw [hk']
          rcases hshape with ⟨rfl, rfl⟩ | ⟨hr, is'', rfl⟩
          · -- final chunk: must match at the very end of the name
            have ht' := matches_nil_inv hmt'
            subst ht'
            have hfin : goMatchAux false f [] [] = some true := hrec [] allSc_nil hmt'
            by_cases hpre : pre = []
            · subst hpre
              simp only [List.nil_append, hpm']
              simpa using hfin
            · have hsl := starLoop_complete_last hch n' hpm' pre hpre
                ((encs (pre ++ n')).length + 1) hn hfuelN
              have hsb : starBranch (goMatchAux false f) true (encs chunk) (encs [])
                  (encs (pre ++ n')) = some true := by
                rw [starBranch_found (by simpa using hsl)]; exact hfin
              cases hpm : prefixMatchU its (pre ++ n') with
              | none => simpa using hsb
              | some t =>
                cases t with
                | nil => simpa using hfin
                | cons a t => simpa using hsb
          · -- non-final chunk: the leftmost match is at least as good
            have hrne : rest.isEmpty = false := by
              cases rest with
              | nil => exact absurd rfl hr
              | cons _ _ => rfl
            cases hpm : prefixMatchU its (pre ++ n') with
            | some t =>
              have htA : AllSc t := AllSc.suffix (prefixMatchU_suffix _ _ _ hpm).1 hn
              have hsuf : t' <:+ t := prefixMatchU_mono (List.suffix_append _ _) hpm' hpm
              simp only [hrne, Bool.not_false, Bool.or_true, ↓reduceIte]
              exact hrec t htA (matches_suffixU hsuf hmt')
            | none =>
              have hpre : pre ≠ [] := by
                intro h; subst h
                simp only [List.nil_append] at hpm
                rw [hpm'] at hpm; cases hpm
              obtain ⟨n2, t2, h1, h2, h3, h4⟩ := starLoop_complete_first hch n' t' hpm' pre hpre
                ((encs (pre ++ n')).length + 1) hn hfuelN
              have hn2A : AllSc n2 := AllSc.suffix h1 hn
              have ht2A : AllSc t2 := AllSc.suffix (prefixMatchU_suffix _ _ _ h3).1 hn2A
              have hsuf : t' <:+ t2 := prefixMatchU_mono h2 hpm' h3
              simp only
              rw [starBranch_found (by rw [encs_isEmpty, hrne]; exact h4)]
              exact hrec t2 ht2A (matches_suffixU hsuf hmt')

end InToto.GlobUtf8
