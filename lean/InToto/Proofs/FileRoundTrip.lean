import InToto.Model.Metadata
import InToto.Proofs.Json
import InToto.Proofs.Schema
import InToto.Proofs.FileRoundTripAux

/-!
C12 at FILE level: what `Dump` writes, `LoadMetadata` (and the deprecated `Metablock.Load`) read
back as the same metadata — text → JSON → typed value, as one theorem per wrapper.
-/

namespace InToto.FileProofs
open InToto InToto.Json InToto.Schema InToto.Metadata InToto.JsonProofs InToto.SchemaProofs

/-- the `_type` marker of a link / layout value is the right one (what `Validate*` demands and
    what every metadata object the library creates carries) -/
def TypeMarked (p : Payload) : Prop :=
  match p with
  | .link v => fget v (lit% "_type") = .str (lit% "link")
  | .layout v => fget v (lit% "_type") = .str (lit% "layout")

/-- well-typed payload -/
def PayloadWT (p : Payload) : Prop :=
  match p with
  | .link v => WT tyLink v
  | .layout v => WT tyLayout v

/-- the payload after a dump/load cycle -/
def normPayload : Payload → Payload
  | .link v => .link (normOmit tyLink v)
  | .layout v => .layout (normOmit tyLayout v)

/-- maps listed in key order (the DSSE payload is the canonical, key-sorted encoding, so this is
    the order in which the entries of every map come back) -/
def sortPayload : Payload → Payload
  | .link v => .link (sortT v)
  | .layout v => .layout (sortT v)

/-! ### `lastVal` -/

theorem lastVal_fold_isSome (k : Str) (l : List (Str × JVal)) :
    ∀ init : Option JVal, (init.isSome = true ∨ k ∈ l.map Prod.fst) →
      (l.foldl (fun acc e => if e.1 = k then some e.2 else acc) init).isSome = true := by
  induction l with
  | nil => intro init h; rcases h with h | h; exact h; cases h
  | cons a l ih =>
    intro init h
    rw [List.foldl_cons]
    apply ih
    by_cases ha : a.1 = k
    · left; simp [ha]
    · rcases h with h | h
      · left; simp [ha, h]
      · right
        rcases List.mem_cons.1 h with h | h
        · exact absurd h.symm ha
        · exact h

theorem lastVal_isSome_of_mem (k : Str) (l : List (Str × JVal)) (h : k ∈ l.map Prod.fst) :
    (lastVal k l).isSome = true :=
  lastVal_fold_isSome k l none (Or.inr h)

theorem lastVal_fold_not_mem (k : Str) (l : List (Str × JVal)) (h : k ∉ l.map Prod.fst) :
    ∀ init : Option JVal, l.foldl (fun acc e => if e.1 = k then some e.2 else acc) init = init := by
  induction l with
  | nil => intro init; rfl
  | cons a l ih =>
    intro init
    simp only [List.map_cons, List.mem_cons, not_or] at h
    rw [List.foldl_cons, if_neg (fun e => h.1 e.symm), ih h.2]

theorem lastVal_fold_of_mem (k : Str) (x : JVal) (l : List (Str × JVal)) (hnd : (l.map Prod.fst).Nodup)
    (h : (k, x) ∈ l) :
    ∀ init : Option JVal, l.foldl (fun acc e => if e.1 = k then some e.2 else acc) init = some x := by
  induction l with
  | nil => cases h
  | cons a l ih =>
    intro init
    rw [List.map_cons, List.nodup_cons] at hnd
    rw [List.foldl_cons]
    rcases List.mem_cons.1 h with h | h
    · subst h
      simp only [if_true]
      exact lastVal_fold_not_mem k l hnd.1 _
    · exact ih hnd.2 h _

/-- with distinct keys, `lastVal` finds the member -/
theorem lastVal_of_mem (k : Str) (x : JVal) (l : List (Str × JVal)) (hnd : (l.map Prod.fst).Nodup)
    (h : (k, x) ∈ l) : lastVal k l = some x :=
  lastVal_fold_of_mem k x l hnd h none

/-! ### the members `encode` writes for a struct -/

theorem mem_requiredFields (fs : List (Str × Bool × Ty)) (f : Str) (h : f ∈ requiredFields fs) :
    ∃ t, (f, false, t) ∈ fs := by
  simp only [requiredFields, List.mem_map, List.mem_filter] at h
  obtain ⟨⟨n, om, t⟩, ⟨hm, hom⟩, rfl⟩ := h
  simp only [Bool.not_eq_true'] at hom
  subst hom
  exact ⟨t, hm⟩

/-- every non-omitempty field is written -/
theorem encodeFields_required (fs : List (Str × Bool × Ty)) (vs : List (Str × TVal)) (hw : WTFields fs vs)
    (n : Str) (t : Ty) (h : (n, false, t) ∈ fs) : n ∈ (encodeFields fs vs).map Prod.fst := by
  induction fs generalizing vs with
  | nil => cases h
  | cons f fs ih =>
    cases hw with
    | cons n' om t' v _ vs' hv hrest =>
      simp only [encodeFields]
      rcases List.mem_cons.1 h with h | h
      · cases h
        simp
      · split
        · exact ih vs' hrest h
        · simp [ih vs' hrest h]

/-- what is needed of the member list of a payload object, whatever its order -/
theorem members_facts (fs : List (Str × Bool × Ty)) (vs : List (Str × TVal))
    (hnd : (fs.map fun f => f.1).Nodup) (hw : WTFields fs vs) (L : List (Str × JVal))
    (hk : (L.map Prod.fst).Perm ((encodeFields fs vs).map Prod.fst)) :
    (L.map Prod.fst).Nodup ∧ ∀ f ∈ requiredFields fs, (lastVal f L).isSome = true := by
  refine ⟨hk.nodup_iff.2 ((encodeFields_keys_sublist fs vs).nodup hnd), ?_⟩
  intro f hf
  obtain ⟨t, ht⟩ := mem_requiredFields fs f hf
  exact lastVal_isSome_of_mem f L (hk.mem_iff.2 (encodeFields_required fs vs hw f t ht))

theorem loadPayload_link (L : List (Str × JVal)) (v : TVal) (hnd : (L.map Prod.fst).Nodup)
    (ht : (lit% "_type", JVal.str (lit% "link")) ∈ L)
    (hreq : ∀ f ∈ requiredFields fieldsLink, (lastVal f L).isSome = true)
    (hdec : decode true tyLink (zero tyLink) (.obj L) = some v) :
    loadPayload (.obj L) = .ok (.link v) := by
  have hall : ((requiredFields fieldsLink).all fun f => (lastVal f L).isSome) = true :=
    List.all_eq_true.2 hreq
  unfold loadPayload
  simp only [lastVal_of_mem _ _ L hnd ht, if_true, hall, hdec]

theorem loadPayload_layout (L : List (Str × JVal)) (v : TVal) (hnd : (L.map Prod.fst).Nodup)
    (ht : (lit% "_type", JVal.str (lit% "layout")) ∈ L)
    (hreq : ∀ f ∈ requiredFields fieldsLayout, (lastVal f L).isSome = true)
    (hdec : decode true tyLayout (zero tyLayout) (.obj L) = some v) :
    loadPayload (.obj L) = .ok (.layout v) := by
  have hall : ((requiredFields fieldsLayout).all fun f => (lastVal f L).isSome) = true :=
    List.all_eq_true.2 hreq
  have hne : ¬ (lit% "layout" : Str) = lit% "link" := by decide
  unfold loadPayload
  simp only [lastVal_of_mem _ _ L hnd ht, if_neg hne, if_true, hall, hdec]

theorem type_member_link (vs : List (Str × TVal)) (hw : WTFields fieldsLink vs)
    (ht : fget (.struct vs) (lit% "_type") = .str (lit% "link")) :
    (lit% "_type", JVal.str (lit% "link")) ∈ encodeFields fieldsLink vs := by
  unfold fieldsLink at hw ⊢
  cases hw with
  | cons n om t v _ vs' hv hrest =>
    simp only [fget, lookup, if_true, Option.getD_some] at ht
    subst ht
    simp [encodeFields, encode]

theorem type_member_layout (vs : List (Str × TVal)) (hw : WTFields fieldsLayout vs)
    (ht : fget (.struct vs) (lit% "_type") = .str (lit% "layout")) :
    (lit% "_type", JVal.str (lit% "layout")) ∈ encodeFields fieldsLayout vs := by
  unfold fieldsLayout at hw ⊢
  cases hw with
  | cons n om t v _ vs' hv hrest =>
    simp only [fget, lookup, if_true, Option.getD_some] at ht
    subst ht
    simp [encodeFields, encode]

theorem nodup_fieldsLink : (fieldsLink.map fun f => f.1).Nodup := by decide
theorem nodup_fieldsLayout : (fieldsLayout.map fun f => f.1).Nodup := by decide

/-- the payload object as `encode` writes it loads back as the payload (omitempty-normalised) -/
theorem loadPayload_toJ (p : Payload) (hp : PayloadWT p) (ht : TypeMarked p) :
    loadPayload p.toJ = .ok (normPayload p) := by
  cases p with
  | link v =>
    have hw : WT tyLink v := hp
    have hdec := decode_encode true tyLink v goodTy_link hw
    cases hw with
    | struct _ vs hf =>
      obtain ⟨h1, h2⟩ := members_facts fieldsLink vs nodup_fieldsLink hf (encodeFields fieldsLink vs) (.refl _)
      simp only [Payload.toJ, Payload.ty, Payload.tval, tyLink, encode] at hdec ⊢
      exact loadPayload_link _ _ h1 (type_member_link vs hf ht) h2 hdec
  | layout v =>
    have hw : WT tyLayout v := hp
    have hdec := decode_encode true tyLayout v goodTy_layout hw
    cases hw with
    | struct _ vs hf =>
      obtain ⟨h1, h2⟩ := members_facts fieldsLayout vs nodup_fieldsLayout hf (encodeFields fieldsLayout vs) (.refl _)
      simp only [Payload.toJ, Payload.ty, Payload.tval, tyLayout, encode] at hdec ⊢
      exact loadPayload_layout _ _ h1 (type_member_layout vs hf ht) h2 hdec

/-! ### signature lists contain no numbers -/

theorem fracsOK_encode_str (v : TVal) : FracsOK (encode .str v) := by
  cases v <;> simp [encode] <;> constructor

theorem fracsOK_encodeFields_strs (fs : List (Str × Bool × Ty)) (hstr : ∀ f ∈ fs, f.2.2 = Ty.str)
    (vs : List (Str × TVal)) : ∀ kv ∈ encodeFields fs vs, FracsOK kv.2 := by
  induction fs generalizing vs with
  | nil => simp [encodeFields]
  | cons f fs ih =>
    obtain ⟨n, om, t⟩ := f
    cases vs with
    | nil => simp [encodeFields]
    | cons a vs =>
      obtain ⟨k, v⟩ := a
      have ht : t = .str := hstr (n, om, t) (by simp)
      subst ht
      simp only [encodeFields]
      split
      · exact ih (fun f hf => hstr f (by simp [hf])) vs
      · intro kv hkv
        rcases List.mem_cons.1 hkv with rfl | hkv
        · exact fracsOK_encode_str v
        · exact ih (fun f hf => hstr f (by simp [hf])) vs kv hkv

theorem fracsOK_encode_structStrs (fs : List (Str × Bool × Ty)) (hstr : ∀ f ∈ fs, f.2.2 = Ty.str) (v : TVal) :
    FracsOK (encode (.struct fs) v) := by
  cases v with
  | struct vs => simp only [encode]; exact .obj _ (fracsOK_encodeFields_strs fs hstr vs)
  | _ => simp only [encode]; exact .null

theorem fracsOK_encodeList_structStrs (fs : List (Str × Bool × Ty)) (hstr : ∀ f ∈ fs, f.2.2 = Ty.str)
    (l : List TVal) : ∀ x ∈ encodeList (.struct fs) l, FracsOK x := by
  induction l with
  | nil => simp [encodeList]
  | cons a l ih =>
    intro x hx
    simp only [encodeList, List.mem_cons] at hx
    rcases hx with rfl | hx
    · exact fracsOK_encode_structStrs fs hstr a
    · exact ih x hx

/-- a list of structs of strings (a signature list) is written without any number -/
theorem fracsOK_encode_sigList (fs : List (Str × Bool × Ty)) (hstr : ∀ f ∈ fs, f.2.2 = Ty.str) (v : TVal) :
    FracsOK (encode (.list (.struct fs)) v) := by
  cases v with
  | list o =>
    cases o with
    | none => simp only [encode]; exact .null
    | some l => simp only [encode]; exact .arr _ (fracsOK_encodeList_structStrs fs hstr l)
  | _ => simp only [encode]; exact .null

theorem strs_fieldsSignature : ∀ f ∈ fieldsSignature, f.2.2 = Ty.str := by
  intro f hf
  simp only [fieldsSignature, List.mem_cons, List.not_mem_nil, or_false] at hf
  rcases hf with rfl | rfl | rfl <;> rfl

theorem strs_fieldsDsseSig : ∀ f ∈ fieldsDsseSig, f.2.2 = Ty.str := by
  intro f hf
  simp only [fieldsDsseSig, List.mem_cons, List.not_mem_nil, or_false] at hf
  rcases hf with rfl | rfl <;> rfl

theorem nonNilList_wt (t : Ty) (sigs : TVal) (hs : WT (.list t) sigs) :
    WT (.list t) (nonNilList sigs) ∧ ∃ sl, nonNilList sigs = .list (some sl) := by
  cases hs with
  | listNil => exact ⟨.list _ [] (fun v hv => by cases hv), [], rfl⟩
  | list _ l hl => exact ⟨.list _ l hl, l, rfl⟩

theorem nonNull_toJ (p : Payload) (hp : PayloadWT p) : nonNull (some p.toJ) = true := by
  cases p with
  | link v =>
    have hw : WT tyLink v := hp
    cases hw with
    | struct _ vs hf => simp [Payload.toJ, Payload.ty, Payload.tval, tyLink, encode, nonNull]
  | layout v =>
    have hw : WT tyLayout v := hp
    cases hw with
    | struct _ vs hf => simp [Payload.toJ, Payload.ty, Payload.tval, tyLayout, encode, nonNull]

/-! ### the Metablock wrapper -/

theorem loadLegacy_dump (p : Payload) (sigs : TVal) (hp : PayloadWT p) (ht : TypeMarked p) (hs : WT tySigs sigs) :
    loadLegacy [(lit% "signed", p.toJ), (lit% "signatures", encode tySigs (nonNilList sigs))] =
      .ok (.legacy (normPayload p) (normOmit tySigs (nonNilList sigs))) := by
  obtain ⟨hsw, sl, hsl⟩ := nonNilList_wt _ sigs hs
  have e1 : lastVal (lit% "signed") [(lit% "signed", p.toJ), (lit% "signatures", encode tySigs (nonNilList sigs))]
      = some p.toJ := by simp [lastVal]
  have e2 : lastVal (lit% "signatures")
      [(lit% "signed", p.toJ), (lit% "signatures", encode tySigs (nonNilList sigs))]
      = some (encode tySigs (nonNilList sigs)) := by simp [lastVal]
  have n1 := nonNull_toJ p hp
  have n2 : nonNull (some (encode tySigs (nonNilList sigs))) = true := by
    rw [hsl]; simp [tySigs, encode, nonNull]
  unfold loadLegacy
  rw [e1, e2, if_pos ⟨n1, n2⟩]
  simp only [Option.getD_some, decode_encode false tySigs _ goodTy_sigs hsw, loadPayload_toJ p hp ht]

/-- C12 (Metablock file round trip): dumping a well-typed, type-marked payload with a well-typed
    signature list gives a text that `LoadMetadata` and `Metablock.Load` both read back as the same
    payload and the same signatures (omitempty-normalised; a nil signature list comes back empty).
    `hf`: the non-integral numbers inside `interface{}` values (byproducts, environment) are number
    literals — plain `json.Marshal` writes them as they are. -/
theorem dump_load_legacy (p : Payload) (sigs : TVal) (hp : PayloadWT p) (ht : TypeMarked p) (hs : WT tySigs sigs)
    (hf : FracsOK p.toJ)
    (s : Str) (h : dumpText (.legacy p sigs) = some s) :
    loadMetadata s = .ok (.legacy (normPayload p) (normOmit tySigs (nonNilList sigs))) ∧
    metablockLoad s = .ok (.legacy (normPayload p) (normOmit tySigs (nonNilList sigs))) := by
  have hj : dumpJ (.legacy p sigs) =
      .obj [(lit% "signed", p.toJ), (lit% "signatures", encode tySigs (nonNilList sigs))] := rfl
  have hfr : FracsOK (dumpJ (.legacy p sigs)) := by
    rw [hj]
    refine .obj _ ?_
    intro kv hkv
    simp only [List.mem_cons, List.not_mem_nil, or_false] at hkv
    rcases hkv with rfl | rfl
    · exact hf
    · exact fracsOK_encode_sigList fieldsSignature strs_fieldsSignature _
  unfold dumpText at h
  have hparse := parse_render_file _ hfr s h
  have hload := loadLegacy_dump p sigs hp ht hs
  have hpt : lastVal loadMetadata.payloadTypeConstKey
      [(lit% "signed", p.toJ), (lit% "signatures", encode tySigs (nonNilList sigs))] = none := by
    simp [lastVal, loadMetadata.payloadTypeConstKey]
  constructor
  · unfold loadMetadata
    rw [hparse, hj]
    simp only [hpt, Option.isSome_none, Bool.false_eq_true, if_false, hload]
  · unfold metablockLoad
    rw [hparse, hj]
    simp only [hload]

/-! ### the DSSE wrapper -/

theorem goodTy_dsseSig : GoodTy (.struct fieldsDsseSig) := by
  refine .struct _ (by decide) ?_
  unfold fieldsDsseSig
  repeat (first | exact GoodFields.nil | apply GoodFields.cons | exact GoodTy.str)

theorem goodTy_dsseSigs : GoodTy tyDsseSigs := .list _ goodTy_dsseSig

theorem goodTy_dsseEnv : GoodTy (.struct fieldsDsseEnv) := by
  refine .struct _ (by decide) ?_
  unfold fieldsDsseEnv
  repeat (first | exact GoodFields.nil | apply GoodFields.cons | exact GoodTy.str | exact goodTy_dsseSigs)

theorem sortKeysMembers_keys (M : List (Str × JVal)) :
    (sortKeysMembers M).map Prod.fst = M.map Prod.fst := by
  rw [sortKeysMembers_eq_map]; simp [List.map_map, Function.comp_def]

theorem sorted_members_keys (M : List (Str × JVal)) :
    ((sortBy keyLt (sortKeysMembers M)).map Prod.fst).Perm (M.map Prod.fst) := by
  have := (sortBy_perm keyLt (sortKeysMembers M)).map Prod.fst
  rwa [sortKeysMembers_keys] at this

theorem sorted_members_str (M : List (Str × JVal)) (k s : Str) (h : (k, JVal.str s) ∈ M) :
    (k, JVal.str s) ∈ sortBy keyLt (sortKeysMembers M) := by
  apply (sortBy_perm keyLt (sortKeysMembers M)).mem_iff.2
  rw [sortKeysMembers_eq_map]
  exact List.mem_map.2 ⟨(k, .str s), h, by simp [sortKeys]⟩

/-- the canonical (key-sorted) payload object loads back as the payload, omitempty-normalised and
    with every map in key order -/
theorem loadPayload_sorted (p : Payload) (hp : PayloadWT p) (ht : TypeMarked p) :
    loadPayload (sortKeys p.toJ) = .ok (sortPayload (normPayload p)) := by
  cases p with
  | link v =>
    have hw : WT tyLink v := hp
    have hdec := decode_sorted true tyLink v goodTy_link hw
    cases hw with
    | struct _ vs hf =>
      obtain ⟨h1, h2⟩ := members_facts fieldsLink vs nodup_fieldsLink hf _
        (sorted_members_keys (encodeFields fieldsLink vs))
      simp only [Payload.toJ, Payload.ty, Payload.tval, tyLink, encode, sortKeys_obj] at hdec ⊢
      exact loadPayload_link _ _ h1 (sorted_members_str _ _ _ (type_member_link vs hf ht)) h2 hdec
  | layout v =>
    have hw : WT tyLayout v := hp
    have hdec := decode_sorted true tyLayout v goodTy_layout hw
    cases hw with
    | struct _ vs hf =>
      obtain ⟨h1, h2⟩ := members_facts fieldsLayout vs nodup_fieldsLayout hf _
        (sorted_members_keys (encodeFields fieldsLayout vs))
      simp only [Payload.toJ, Payload.ty, Payload.tval, tyLayout, encode, sortKeys_obj] at hdec ⊢
      exact loadPayload_layout _ _ h1 (sorted_members_str _ _ _ (type_member_layout vs hf ht)) h2 hdec

/-- DSSE file round trip for any envelope whose payload field is the base64 of the canonical
    payload bytes (`SetPayload`), with any non-nil, well-typed signature list (so also after signing) -/
theorem dump_load_dsse_env (p : Payload) (hp : PayloadWT p) (ht : TypeMarked p)
    (body : Str) (hb : payloadBytes p = some body)
    (sl : List TVal) (hs : WT tyDsseSigs (.list (some sl)))
    (s : Str) (h : dumpText (.dsse payloadTypeConst (B64.encode (utf8 body)) (.list (some sl)) p) = some s) :
    loadMetadata s = .ok (.dsse payloadTypeConst (B64.encode (utf8 body))
      (normOmit tyDsseSigs (.list (some sl))) (sortPayload (normPayload p))) := by
  have hj : dumpJ (.dsse payloadTypeConst (B64.encode (utf8 body)) (.list (some sl)) p) =
      .obj [(lit% "payloadType", .str payloadTypeConst), (lit% "payload", .str (B64.encode (utf8 body))),
        (lit% "signatures", encode tyDsseSigs (.list (some sl)))] := rfl
  have hfr : FracsOK (dumpJ (.dsse payloadTypeConst (B64.encode (utf8 body)) (.list (some sl)) p)) := by
    rw [hj]
    refine .obj _ ?_
    intro kv hkv
    simp only [List.mem_cons, List.not_mem_nil, or_false] at hkv
    rcases hkv with rfl | rfl | rfl
    · exact .str _
    · exact .str _
    · exact fracsOK_encode_sigList fieldsDsseSig strs_fieldsDsseSig _
  unfold dumpText at h
  have hparse := parse_render_file _ hfr s h
  -- the envelope as a typed value
  have hwenv : WT (.struct fieldsDsseEnv) (.struct [(lit% "payloadType", .str payloadTypeConst),
      (lit% "payload", .str (B64.encode (utf8 body))), (lit% "signatures", .list (some sl))]) :=
    .struct _ _ (.cons _ _ _ _ _ _ (.str _) (.cons _ _ _ _ _ _ (.str _) (.cons _ _ _ _ _ _ hs .nil)))
  have hdec := decode_encode false _ _ goodTy_dsseEnv hwenv
  simp only [fieldsDsseEnv, encode, encodeFields, Bool.false_and, Bool.false_eq_true, if_false, normOmit,
    normOmitFields] at hdec
  -- the payload
  have hbody : parseJ body = some (sortKeys p.toJ) := parse_render_strict _ _ hb
  unfold loadMetadata
  rw [hparse, hj]
  simp only [lastVal, loadMetadata.payloadTypeConstKey, List.foldl_cons, List.foldl_nil]
  simp [nonNull, tyDsseSigs, encode, fieldsDsseEnv] at hdec ⊢
  simp [hdec, fget, lookup, TVal.asStr, decodeFlex_encode, bytesToStr_utf8, hbody, loadPayload_sorted p hp ht,
    normOmit]

/-- C12 (DSSE file round trip): an envelope made by `SetPayload` from a well-typed, type-marked
    payload, dumped and loaded, carries the same payload type, the same payload bytes and a payload
    that decodes to the same metadata — omitempty-normalised and, because the payload bytes are the
    canonical (key-sorted) encoding, with the entries of every map in key order (`sortPayload`). -/
theorem dump_load_dsse (p : Payload) (hp : PayloadWT p) (ht : TypeMarked p) (md : Md) (hset : setPayload p = .ok md)
    (s : Str) (h : dumpText md = some s) :
    ∃ pt pl sigs, md = .dsse pt pl sigs p ∧
      loadMetadata s = .ok (.dsse pt pl (normOmit tyDsseSigs sigs) (sortPayload (normPayload p))) := by
  unfold setPayload at hset
  cases hb : payloadBytes p with
  | none => rw [hb] at hset; cases hset
  | some body =>
    rw [hb] at hset
    simp only [Outcome.ok.injEq] at hset
    subst hset
    exact ⟨_, _, _, rfl,
      dump_load_dsse_env p hp ht body hb [] (.list _ [] (fun v hv => by cases hv)) s h⟩

/-- the maps of the payload are listed in key order (as Go's encoder writes them; Go maps have no
    order of their own, the list order is an artefact of the model) -/
def MapsSorted (p : Payload) : Prop := sortT p.tval = p.tval

theorem sortPayload_normPayload (p : Payload) (hp : PayloadWT p) (hm : MapsSorted p) :
    sortPayload (normPayload p) = normPayload p := by
  cases p with
  | link v =>
    have hw : WT tyLink v := hp
    have hm' : sortT v = v := hm
    simp only [normPayload, sortPayload, sortT_normOmit tyLink v hw, hm']
  | layout v =>
    have hw : WT tyLayout v := hp
    have hm' : sortT v = v := hm
    simp only [normPayload, sortPayload, sortT_normOmit tyLayout v hw, hm']

/-- C12 (DSSE file round trip), the statement as first written: it holds when the maps of the
    payload are listed in key order -/
theorem dump_load_dsse_sorted (p : Payload) (hp : PayloadWT p) (ht : TypeMarked p) (hm : MapsSorted p)
    (md : Md) (hset : setPayload p = .ok md) (s : Str) (h : dumpText md = some s) :
    ∃ pt pl sigs, md = .dsse pt pl sigs p ∧
      loadMetadata s = .ok (.dsse pt pl (normOmit tyDsseSigs sigs) (normPayload p)) := by
  obtain ⟨pt, pl, sigs, h1, h2⟩ := dump_load_dsse p hp ht md hset s h
  rw [sortPayload_normPayload p hp hm] at h2
  exact ⟨pt, pl, sigs, h1, h2⟩

/-! ### the hypotheses are satisfiable: a concrete link with a name, one material, byproducts -/

def exLink : Payload := .link (.struct [
  (lit% "_type", .str (lit% "link")),
  (lit% "name", .str (lit% "build")),
  (lit% "materials", .map (some [(lit% "src/main.c", .map (some [(lit% "sha256", .str (lit% "ab12"))]))])),
  (lit% "products", .map (some [])),
  (lit% "byproducts", .map (some [(lit% "return-value", .any (.num 0)), (lit% "stdout", .any (.str []))])),
  (lit% "command", .list (some [.str (lit% "make")])),
  (lit% "environment", .map none)])

def exSigs : TVal := .list (some [.struct [(lit% "keyid", .str (lit% "k1")), (lit% "sig", .str (lit% "00ff")),
  (lit% "cert", .str [])]])

theorem exLink_wt : PayloadWT exLink := by
  refine .struct _ _ (.cons _ _ _ _ _ _ (.str _) (.cons _ _ _ _ _ _ (.str _) (.cons _ _ _ _ _ _ ?m
    (.cons _ _ _ _ _ _ ?pr (.cons _ _ _ _ _ _ ?bp (.cons _ _ _ _ _ _ ?cmd (.cons _ _ _ _ _ _ (.mapNil _) .nil)))))))
  case m =>
    refine .map _ _ (by decide) ?_
    intro kv h; simp at h; subst h
    refine .map _ _ (by decide) ?_
    intro kv h; simp at h; subst h
    exact .str _
  case pr => exact .map _ _ (by decide) (fun kv h => by cases h)
  case bp =>
    refine .map _ _ (by decide) ?_
    intro kv h; simp at h
    rcases h with rfl | rfl
    · exact .any _ (.num _)
    · exact .any _ (.str _)
  case cmd =>
    refine .list _ _ ?_
    intro v h; simp at h; subst h; exact .str _

theorem exLink_marked : TypeMarked exLink := by
  simp [TypeMarked, exLink, fget, lookup]

theorem exSigs_wt : WT tySigs exSigs := by
  refine .list _ _ ?_
  intro v h; simp at h; subst h
  exact .struct _ _ (.cons _ _ _ _ _ _ (.str _) (.cons _ _ _ _ _ _ (.str _) (.cons _ _ _ _ _ _ (.str _) .nil)))

theorem exLink_fracs : FracsOK exLink.toJ := by
  simp [exLink, Payload.toJ, Payload.ty, Payload.tval, tyLink, fieldsLink, tyArts, tyHashObj, tyStrs, encode,
    encodeFields, encodeMap, encodeList, fracsOK_obj_iff, fracsOK_arr_iff, FracsOK.str, FracsOK.num, FracsOK.null]

theorem exLink_sorted : MapsSorted exLink := by
  simp [MapsSorted, exLink, Payload.tval, sortT, sortTMap, sortTList, sortBy, insertSorted, keyLt, strLt, sortKeys]

theorem exLink_renderable : Renderable (sortKeys exLink.toJ) := by
  simp [exLink, Payload.toJ, Payload.ty, Payload.tval, tyLink, fieldsLink, tyArts, tyHashObj, tyStrs, encode,
    encodeFields, encodeMap, encodeList, sortKeys, sortKeysMembers, sortKeysList, sortBy, insertSorted, strLt,
    renderable_obj_iff, renderable_arr_iff, Renderable.str, Renderable.null]
  exact Renderable.num 0 (by decide) (by decide)

theorem exLink_setPayload : ∃ md, setPayload exLink = .ok md := by
  obtain ⟨body, hb⟩ := Option.isSome_iff_exists.1 ((render_isSome_iff true _).2 exLink_renderable)
  refine ⟨.dsse payloadTypeConst (B64.encode (utf8 body)) (.list (some [])) exLink, ?_⟩
  unfold setPayload
  rw [show payloadBytes exLink = some body from hb]

/-- all hypotheses of `dump_load_legacy` hold for the example; the text exists (`render_file_isSome`) -/
example : ∃ s, dumpText (.legacy exLink exSigs) = some s ∧
    loadMetadata s = .ok (.legacy (normPayload exLink) (normOmit tySigs exSigs)) ∧
    metablockLoad s = .ok (.legacy (normPayload exLink) (normOmit tySigs exSigs)) := by
  obtain ⟨s, hs⟩ := Option.isSome_iff_exists.1 (render_file_isSome true (dumpJ (.legacy exLink exSigs)))
  exact ⟨s, hs, dump_load_legacy exLink exSigs exLink_wt exLink_marked exSigs_wt exLink_fracs s hs⟩

/-- all hypotheses of `dump_load_dsse` / `dump_load_dsse_sorted` hold for the example -/
example : ∃ md s, setPayload exLink = .ok md ∧ dumpText md = some s ∧
    ∃ pt pl sigs, md = .dsse pt pl sigs exLink ∧
      loadMetadata s = .ok (.dsse pt pl (normOmit tyDsseSigs sigs) (normPayload exLink)) := by
  obtain ⟨md, hmd⟩ := exLink_setPayload
  obtain ⟨s, hs⟩ := Option.isSome_iff_exists.1 (render_file_isSome true (dumpJ md))
  exact ⟨md, s, hmd, hs, dump_load_dsse_sorted exLink exLink_wt exLink_marked exLink_sorted md hmd s hs⟩

end InToto.FileProofs
