import InToto.Model.Path

/-!
The model of Go's `path.Clean` is idempotent: `Path.clean (Path.clean p) = Path.clean p`.

Proof idea.  `cleanL` splits the path at the slashes, folds `step` over the components (a stack,
top first) and joins the reversed stack.  The stack is always in *normal form* (`NF`): no empty
component, no ".", no component with a slash, ".." only at the bottom (and not at all for a rooted
path).  Splitting the joined normal form gives the components back (`splitSlash_joinSlash`), and
folding `step` over a normal form reproduces it (`refold`).
-/

namespace InToto.PathClean
open InToto InToto.Path

/-! ### `splitSlash` and `joinSlash` -/

theorem splitSlash_ne_nil (p : List Char) : splitSlash p ≠ [] := by
  cases p with
  | nil => simp [splitSlash]
  | cons c t =>
    unfold splitSlash
    split
    · simp
    · split <;> simp

theorem splitSlash_slashFree (p : List Char) : ∀ c ∈ splitSlash p, '/' ∉ c := by
  induction p with
  | nil =>
    intro c hc
    simp only [splitSlash, List.mem_singleton] at hc
    subst hc
    simp
  | cons a t ih =>
    intro c hc
    unfold splitSlash at hc
    split at hc
    · rcases List.mem_cons.1 hc with rfl | hc
      · simp
      · exact ih c hc
    · rename_i hne
      split at hc
      · simp only [List.mem_singleton] at hc
        subst hc
        simp only [List.mem_singleton]
        exact fun e => hne e.symm
      · rename_i h r hs
        rcases List.mem_cons.1 hc with rfl | hc
        · have := ih h (by rw [hs]; exact List.mem_cons_self ..)
          simp only [List.mem_cons, not_or]
          exact ⟨fun e => hne e.symm, this⟩
        · exact ih c (by rw [hs]; exact List.mem_cons_of_mem _ hc)

theorem splitSlash_cons_slash (t : List Char) : splitSlash ('/' :: t) = [] :: splitSlash t := by
  rw [splitSlash, if_pos rfl]

theorem splitSlash_cons_ne (a : Char) (t : List Char) (ha : a ≠ '/') :
    splitSlash (a :: t) =
      match splitSlash t with
      | [] => [[a]]
      | h :: r => (a :: h) :: r := by
  rw [splitSlash, if_neg ha]
  rfl

theorem splitSlash_single (c : List Char) (h : '/' ∉ c) : splitSlash c = [c] := by
  induction c with
  | nil => rfl
  | cons a t ih =>
    have ha : a ≠ '/' := fun e => h (by rw [e]; exact List.mem_cons_self ..)
    have ht : '/' ∉ t := fun e => h (List.mem_cons_of_mem _ e)
    rw [splitSlash_cons_ne a t ha, ih ht]

theorem splitSlash_append (c t : List Char) (h : '/' ∉ c) :
    splitSlash (c ++ '/' :: t) = c :: splitSlash t := by
  induction c with
  | nil =>
    exact splitSlash_cons_slash t
  | cons a s ih =>
    have ha : a ≠ '/' := fun e => h (by rw [e]; exact List.mem_cons_self ..)
    have hs : '/' ∉ s := fun e => h (List.mem_cons_of_mem _ e)
    show splitSlash (a :: (s ++ '/' :: t)) = _
    rw [splitSlash_cons_ne _ _ ha, ih hs]

theorem splitSlash_joinSlash (comps : List (List Char)) (hne : comps ≠ [])
    (h : ∀ c ∈ comps, '/' ∉ c) : splitSlash (joinSlash comps) = comps := by
  induction comps with
  | nil => exact absurd rfl hne
  | cons a rest ih =>
    cases rest with
    | nil => exact splitSlash_single a (h a (List.mem_cons_self ..))
    | cons b t =>
      show splitSlash (a ++ '/' :: joinSlash (b :: t)) = _
      rw [splitSlash_append _ _ (h a (List.mem_cons_self ..)),
        ih (by simp) (fun c hc => h c (List.mem_cons_of_mem _ hc))]

/-! ### normal forms -/

/-- a component that `step` pushes: not empty, not ".", no slash -/
def Good (c : List Char) : Prop := c ≠ [] ∧ c ≠ ['.'] ∧ '/' ∉ c

/-- normal form of the (reversed, top first) component stack -/
def NF (rooted : Bool) : List (List Char) → Prop
  | [] => True
  | c :: rest =>
    Good c ∧ (c = ['.', '.'] → rooted = false ∧ ∀ d ∈ rest, d = ['.', '.']) ∧ NF rooted rest

theorem NF.good {rooted : Bool} : ∀ {S : List (List Char)}, NF rooted S → ∀ c ∈ S, Good c
  | [], _, c, hc => by cases hc
  | a :: rest, h, c, hc => by
    rcases List.mem_cons.1 hc with rfl | hc
    · exact h.1
    · exact NF.good h.2.2 c hc

theorem good_dotdot : Good ['.', '.'] := by
  refine ⟨by simp, by simp, by decide⟩

theorem step_NF (rooted : Bool) (S : List (List Char)) (comp : List Char) (hS : NF rooted S)
    (hc : '/' ∉ comp) : NF rooted (step rooted S comp) := by
  unfold step
  split
  · exact hS
  · rename_i h1
    have hg : Good comp := ⟨fun e => h1 (Or.inl e), fun e => h1 (Or.inr e), hc⟩
    split
    · rename_i h2
      subst h2
      cases S with
      | nil =>
        simp only
        split
        · trivial
        · rename_i hr
          exact ⟨hg, fun _ => ⟨by simpa using hr, fun d hd => by cases hd⟩, trivial⟩
      | cons top rest =>
        simp only
        split
        · rename_i ht
          split
          · exact hS
          · rename_i hr
            refine ⟨hg, fun _ => ⟨by simpa using hr, ?_⟩, hS⟩
            intro d hd
            rcases List.mem_cons.1 hd with rfl | hd
            · exact ht
            · exact (hS.2.1 ht).2 d hd
        · exact hS.2.2
    · rename_i h2
      exact ⟨hg, fun e => absurd e h2, hS⟩

theorem foldl_NF (rooted : Bool) (l : List (List Char)) (S : List (List Char)) (hS : NF rooted S)
    (hl : ∀ c ∈ l, '/' ∉ c) : NF rooted (l.foldl (step rooted) S) := by
  induction l generalizing S with
  | nil => exact hS
  | cons a t ih =>
    exact ih _ (step_NF rooted S a hS (hl a (List.mem_cons_self ..)))
      (fun c hc => hl c (List.mem_cons_of_mem _ hc))

/-- folding `step` over a normal form (bottom first) reproduces it -/
theorem refold (rooted : Bool) (S : List (List Char)) (hS : NF rooted S) :
    S.reverse.foldl (step rooted) [] = S := by
  induction S with
  | nil => rfl
  | cons c rest ih =>
    rw [List.reverse_cons, List.foldl_append, ih hS.2.2]
    show step rooted rest c = c :: rest
    obtain ⟨⟨h1, h2, _⟩, hdd, _⟩ := hS
    unfold step
    rw [if_neg (by rintro (e | e); exact h1 e; exact h2 e)]
    split
    · rename_i hc
      obtain ⟨hr, hall⟩ := hdd hc
      subst hr
      cases rest with
      | nil => simp
      | cons top r =>
        simp only
        rw [if_pos (hall top (List.mem_cons_self ..))]
        simp
    · rfl

theorem step_nil_empty (rooted : Bool) (S : List (List Char)) : step rooted S [] = S := by
  unfold step
  simp

/-- splitting the joined normal form and folding `step` again gives the normal form back -/
theorem resplit (rooted : Bool) (S : List (List Char)) (hS : NF rooted S) :
    (splitSlash (joinSlash S.reverse)).foldl (step rooted) [] = S := by
  by_cases hnil : S = []
  · subst hnil
    show step rooted [] [] = []
    exact step_nil_empty _ _
  · rw [splitSlash_joinSlash S.reverse (by simpa using hnil)
      (fun c hc => (hS.good c (List.mem_reverse.1 hc)).2.2)]
    exact refold rooted S hS

theorem joinSlash_head (comps : List (List Char)) (h : ∀ c ∈ comps, Good c) (x : Char)
    (rest : List Char) (hj : joinSlash comps = x :: rest) : x ≠ '/' := by
  cases comps with
  | nil => cases hj
  | cons a t =>
    obtain ⟨hne, _, hs⟩ := h a (List.mem_cons_self ..)
    cases a with
    | nil => exact absurd rfl hne
    | cons y a' =>
      have hy : y ≠ '/' := fun e => hs (by rw [e]; exact List.mem_cons_self ..)
      cases t with
      | nil =>
        simp only [joinSlash] at hj
        cases hj
        exact hy
      | cons b t' =>
        simp only [joinSlash, List.cons_append] at hj
        cases hj
        exact hy

/-! ### idempotence -/

theorem cleanL_idem (p : List Char) : cleanL (cleanL p) = cleanL p := by
  cases p with
  | nil => decide
  | cons c t =>
    by_cases hc : c = '/'
    · -- rooted
      subst hc
      have hNF : NF true ((splitSlash ('/' :: t)).foldl (step true) []) :=
        foldl_NF true _ [] trivial (splitSlash_slashFree _)
      generalize hS : (splitSlash ('/' :: t)).foldl (step true) [] = S at hNF
      have e1 : cleanL ('/' :: t) = '/' :: joinSlash S.reverse := by
        simp only [cleanL, decide_true, if_true, hS]
      rw [e1]
      have e2 : (splitSlash ('/' :: joinSlash S.reverse)).foldl (step true) [] = S := by
        have : splitSlash ('/' :: joinSlash S.reverse) = [] :: splitSlash (joinSlash S.reverse) := by
          exact splitSlash_cons_slash _
        rw [this, List.foldl_cons, step_nil_empty]
        exact resplit true S hNF
      simp only [cleanL, decide_true, if_true, e2]
    · -- not rooted
      have hNF : NF false ((splitSlash (c :: t)).foldl (step false) []) :=
        foldl_NF false _ [] trivial (splitSlash_slashFree _)
      generalize hS : (splitSlash (c :: t)).foldl (step false) [] = S at hNF
      have hd : decide (c = '/') = false := by simpa using hc
      have e1 : cleanL (c :: t) =
          if joinSlash S.reverse = [] then ['.'] else joinSlash S.reverse := by
        simp only [cleanL, hd, hS, if_neg hc]
      rw [e1]
      cases hb : joinSlash S.reverse with
      | nil => decide
      | cons x rest =>
        rw [if_neg (by simp)]
        have hx : x ≠ '/' :=
          joinSlash_head S.reverse (fun c hc => hNF.good c (List.mem_reverse.1 hc)) x rest hb
        have hdx : decide (x = '/') = false := by simpa using hx
        have e2 : (splitSlash (x :: rest)).foldl (step false) [] = S := by
          rw [← hb]
          exact resplit false S hNF
        simp only [cleanL, hdx, e2, if_neg hx, hb]
        rw [if_neg (by simp)]

/-- `path.Clean` is idempotent -/
theorem clean_idem (p : Str) : Path.clean (Path.clean p) = Path.clean p := cleanL_idem p

/-- every cleaned name is a fixed point of `path.Clean` -/
theorem clean_fixed_of_eq (p q : Str) (h : q = Path.clean p) : Path.clean q = q := by
  subst h
  exact clean_idem p

/-- a name is a fixed point of `path.Clean` iff it is in the range of `path.Clean` -/
theorem clean_fixed_iff_range (q : Str) : Path.clean q = q ↔ ∃ p, q = Path.clean p :=
  ⟨fun h => ⟨q, h.symm⟩, fun ⟨p, h⟩ => clean_fixed_of_eq p q h⟩

end InToto.PathClean
