import InToto.Model.Verify

namespace InToto.SubProofs
open InToto InToto.Json InToto.Schema InToto.Metadata InToto.Verify

/-- the summary of a verified sublayout as the parent sees it: a link carrying the sublayout's
    summary name, materials and products -/
def summaryView (s : Summary) : LinkView :=
  { typ := lit% "link", name := s.name, materials := s.materials, products := s.products }

/-- the key map a sublayout is verified with: the key the parent layout defines for this
    functionary (the zero key if it defines none) -/
def subKeysOf (lay : TVal) (kid : Str) : List (Str × Key) := [(kid, (lookup kid (layoutKeys lay)).getD Key.zero)]

/-! ### helper lemmas: one unfolding step of the two stages -/

/-- push an element in front of a successful result, pass failures through -/
def consOut {β : Type} (x : β) (r : Outcome (List β) × Acc) : Outcome (List β) × Acc :=
  match r with
  | (.ok ll, a) => (.ok (x :: ll), a)
  | (.err e, a) => (.err e, a)
  | (.panic e, a) => (.panic e, a)

/-- the effects a recursive call leaves behind -/
def accOf (r : Result) : Acc := ⟨r.ran, r.fs⟩

theorem resolveLinks_cons_link (rec : Md → List (Str × Key) → Dir → Str → Acc → Result) (lay : TVal) (dir : Dir) (sn : Str)
    (kid : Str) (md : Md) (rest : List (Str × Md)) (acc : Acc) (v : TVal) (hp : md.payload = .link v) :
    ∃ lv, linkViewOf md.payload = some lv ∧
      resolveLinks rec lay dir sn ((kid, md) :: rest) acc = consOut (kid, lv) (resolveLinks rec lay dir sn rest acc) := by
  rw [resolveLinks]
  simp only [hp, linkViewOf]
  refine ⟨_, rfl, ?_⟩
  unfold consOut
  cases resolveLinks rec lay dir sn rest acc with
  | mk o a => cases o <;> rfl

theorem resolveLinks_cons_layout (rec : Md → List (Str × Key) → Dir → Str → Acc → Result) (lay : TVal) (dir : Dir) (sn : Str)
    (kid : Str) (md : Md) (rest : List (Str × Md)) (acc : Acc) (l : TVal) (hp : md.payload = .layout l) :
    resolveLinks rec lay dir sn ((kid, md) :: rest) acc =
      match (rec md (subKeysOf lay kid) (dir.sub (sn ++ '.' :: first8 kid)) sn acc).out with
      | .err e => (.err e, accOf (rec md (subKeysOf lay kid) (dir.sub (sn ++ '.' :: first8 kid)) sn acc))
      | .panic e => (.panic e, accOf (rec md (subKeysOf lay kid) (dir.sub (sn ++ '.' :: first8 kid)) sn acc))
      | .ok s => consOut (kid, summaryView s) (resolveLinks rec lay dir sn rest
                    (accOf (rec md (subKeysOf lay kid) (dir.sub (sn ++ '.' :: first8 kid)) sn acc))) := by
  rw [resolveLinks]
  simp only [hp, subKeysOf, summaryView, accOf]
  cases (rec md [(kid, (lookup kid (layoutKeys lay)).getD Key.zero)] (dir.sub (sn ++ '.' :: first8 kid)) sn acc).out with
  | err e => rfl
  | panic e => rfl
  | ok s =>
    dsimp only
    unfold consOut
    cases resolveLinks rec lay dir sn rest _ with
    | mk o a => cases o <;> rfl

theorem consOut_ok {β : Type} {x : β} {r : Outcome (List β) × Acc} {res : List β} {a' : Acc}
    (h : consOut x r = (.ok res, a')) : ∃ ll, r = (.ok ll, a') ∧ res = x :: ll := by
  obtain ⟨o, a⟩ := r
  cases o with
  | ok ll =>
    simp only [consOut, Prod.mk.injEq, Outcome.ok.injEq] at h
    exact ⟨ll, by rw [h.2], h.1.symm⟩
  | err e => simp [consOut] at h
  | panic e => simp [consOut] at h

theorem consOut_err {β : Type} {x : β} {r : Outcome (List β) × Acc} {e : String} {a' : Acc}
    (h : consOut x r = (.err e, a')) : r = (.err e, a') := by
  obtain ⟨o, a⟩ := r
  cases o with
  | ok ll => simp [consOut] at h
  | err e => simpa [consOut] using h
  | panic e => simp [consOut] at h

theorem consOut_isOk {β : Type} (x : β) (r : Outcome (List β) × Acc) : (consOut x r).1.isOk = r.1.isOk := by
  obtain ⟨o, a⟩ := r
  cases o <;> rfl

theorem consOut_isPanic {β : Type} (x : β) (r : Outcome (List β) × Acc) : (consOut x r).1.isPanic = r.1.isPanic := by
  obtain ⟨o, a⟩ := r
  cases o <;> rfl

theorem consOut_snd {β : Type} (x : β) (r : Outcome (List β) × Acc) : (consOut x r).2 = r.2 := by
  obtain ⟨o, a⟩ := r
  cases o <;> rfl

theorem resolveSteps_cons (rec : Md → List (Str × Key) → Dir → Str → Acc → Result) (lay : TVal) (dir : Dir)
    (st : Step) (links : List (Str × Md)) (rest : List (Step × List (Str × Md))) (acc : Acc) :
    resolveSteps rec lay dir ((st, links) :: rest) acc =
      match resolveLinks rec lay dir st.name links acc with
      | (.err e, a) => (.err e, a)
      | (.panic e, a) => (.panic e, a)
      | (.ok ll, a) => consOut (st, ll) (resolveSteps rec lay dir rest a) := by
  rw [resolveSteps]
  cases resolveLinks rec lay dir st.name links acc with
  | mk o a =>
    cases o with
    | err e => rfl
    | panic e => rfl
    | ok ll =>
      dsimp only
      unfold consOut
      cases resolveSteps rec lay dir rest a with
      | mk o a => cases o <;> rfl

/-- C08 (recursively verified, replaced by its summary): if the evidence of a step resolves, then
    the result lists the same functionaries in the same order, every plain link is kept as it is,
    and every piece of evidence that is a layout WAS verified by the recursive call — with the
    functionary's key, against `<step>.<key id prefix>` below the parent's link directory, under the
    step's name — successfully, and is represented by exactly the summary that call returned -/
theorem resolveLinks_ok (rec : Md → List (Str × Key) → Dir → Str → Acc → Result) (lay : TVal) (dir : Dir) (sn : Str)
    (links : List (Str × Md)) (acc acc' : Acc) (res : List (Str × LinkView))
    (h : resolveLinks rec lay dir sn links acc = (.ok res, acc')) :
    res.map Prod.fst = links.map Prod.fst ∧
    (∀ kid md, (kid, md) ∈ links → ∀ l, md.payload = .link l →
        ∃ lv, linkViewOf md.payload = some lv ∧ (kid, lv) ∈ res) ∧
    (∀ kid md, (kid, md) ∈ links → ∀ l, md.payload = .layout l →
        ∃ a s, (rec md (subKeysOf lay kid) (dir.sub (sn ++ '.' :: first8 kid)) sn a).out = .ok s ∧
          (kid, summaryView s) ∈ res) := by
  induction links generalizing acc acc' res with
  | nil =>
    simp only [resolveLinks, Prod.mk.injEq, Outcome.ok.injEq] at h
    obtain ⟨rfl, _⟩ := h
    simp
  | cons km rest ih =>
    obtain ⟨k, m⟩ := km
    cases hp : m.payload with
    | link v =>
      obtain ⟨lv, hlv, heq⟩ := resolveLinks_cons_link rec lay dir sn k m rest acc v hp
      rw [heq] at h
      obtain ⟨ll, hr, rfl⟩ := consOut_ok h
      obtain ⟨ih1, ih2, ih3⟩ := ih _ _ _ hr
      refine ⟨by simp [ih1], ?_, ?_⟩
      · intro kid md hm l hl
        rcases List.mem_cons.1 hm with he | hm
        · simp only [Prod.mk.injEq] at he
          obtain ⟨rfl, rfl⟩ := he
          exact ⟨lv, hlv, List.mem_cons_self ..⟩
        · obtain ⟨lv', h1, h2⟩ := ih2 kid md hm l hl
          exact ⟨lv', h1, List.mem_cons_of_mem _ h2⟩
      · intro kid md hm l hl
        rcases List.mem_cons.1 hm with he | hm
        · simp only [Prod.mk.injEq] at he
          obtain ⟨rfl, rfl⟩ := he
          rw [hp] at hl; cases hl
        · obtain ⟨a, s, h1, h2⟩ := ih3 kid md hm l hl
          exact ⟨a, s, h1, List.mem_cons_of_mem _ h2⟩
    | layout v =>
      rw [resolveLinks_cons_layout rec lay dir sn k m rest acc v hp] at h
      cases hrec : (rec m (subKeysOf lay k) (dir.sub (sn ++ '.' :: first8 k)) sn acc).out with
      | err e => rw [hrec] at h; simp at h
      | panic e => rw [hrec] at h; simp at h
      | ok s =>
        rw [hrec] at h
        dsimp only at h
        obtain ⟨ll, hr, rfl⟩ := consOut_ok h
        obtain ⟨ih1, ih2, ih3⟩ := ih _ _ _ hr
        refine ⟨by simp [ih1], ?_, ?_⟩
        · intro kid md hm l hl
          rcases List.mem_cons.1 hm with he | hm
          · simp only [Prod.mk.injEq] at he
            obtain ⟨rfl, rfl⟩ := he
            rw [hp] at hl; cases hl
          · obtain ⟨lv', h1, h2⟩ := ih2 kid md hm l hl
            exact ⟨lv', h1, List.mem_cons_of_mem _ h2⟩
        · intro kid md hm l hl
          rcases List.mem_cons.1 hm with he | hm
          · simp only [Prod.mk.injEq] at he
            obtain ⟨rfl, rfl⟩ := he
            exact ⟨acc, s, hrec, List.mem_cons_self ..⟩
          · obtain ⟨a, s', h1, h2⟩ := ih3 kid md hm l hl
            exact ⟨a, s', h1, List.mem_cons_of_mem _ h2⟩

/-- C08 (any failure inside a sublayout fails the whole verification): a failure of the resolution
    stage is the failure of one of the recursive calls (plain links cannot fail here) -/
theorem resolveLinks_err (rec : Md → List (Str × Key) → Dir → Str → Acc → Result) (lay : TVal) (dir : Dir) (sn : Str)
    (links : List (Str × Md)) (acc acc' : Acc) (e : String)
    (h : resolveLinks rec lay dir sn links acc = (.err e, acc')) :
    ∃ kid md l a, (kid, md) ∈ links ∧ md.payload = .layout l ∧
      (rec md (subKeysOf lay kid) (dir.sub (sn ++ '.' :: first8 kid)) sn a).out = .err e := by
  induction links generalizing acc acc' with
  | nil => simp [resolveLinks] at h
  | cons km rest ih =>
    obtain ⟨k, m⟩ := km
    cases hp : m.payload with
    | link v =>
      obtain ⟨lv, hlv, heq⟩ := resolveLinks_cons_link rec lay dir sn k m rest acc v hp
      rw [heq] at h
      obtain ⟨kid, md, l, a, hm, hl, hr⟩ := ih _ _ (consOut_err h)
      exact ⟨kid, md, l, a, List.mem_cons_of_mem _ hm, hl, hr⟩
    | layout v =>
      rw [resolveLinks_cons_layout rec lay dir sn k m rest acc v hp] at h
      cases hrec : (rec m (subKeysOf lay k) (dir.sub (sn ++ '.' :: first8 k)) sn acc).out with
      | err e' =>
        rw [hrec] at h
        simp only [Prod.mk.injEq, Outcome.err.injEq] at h
        obtain ⟨rfl, _⟩ := h
        exact ⟨k, m, v, acc, List.mem_cons_self .., hp, hrec⟩
      | panic e' => rw [hrec] at h; simp at h
      | ok s =>
        rw [hrec] at h
        dsimp only at h
        obtain ⟨kid, md, l, a, hm, hl, hr⟩ := ih _ _ (consOut_err h)
        exact ⟨kid, md, l, a, List.mem_cons_of_mem _ hm, hl, hr⟩

/-- conversely: if a recursive call on some evidence fails for EVERY state of the effects, the stage fails -/
theorem resolveLinks_inner_failure (rec : Md → List (Str × Key) → Dir → Str → Acc → Result) (lay : TVal) (dir : Dir) (sn : Str)
    (links : List (Str × Md)) (acc : Acc) (kid : Str) (md : Md) (l : TVal)
    (hm : (kid, md) ∈ links) (hl : md.payload = .layout l)
    (hf : ∀ a, (rec md (subKeysOf lay kid) (dir.sub (sn ++ '.' :: first8 kid)) sn a).out.isOk = false) :
    (resolveLinks rec lay dir sn links acc).1.isOk = false := by
  induction links generalizing acc with
  | nil => cases hm
  | cons km rest ih =>
    obtain ⟨k, m⟩ := km
    cases hp : m.payload with
    | link v =>
      obtain ⟨lv, hlv, heq⟩ := resolveLinks_cons_link rec lay dir sn k m rest acc v hp
      rw [heq, consOut_isOk]
      rcases List.mem_cons.1 hm with he | hm
      · simp only [Prod.mk.injEq] at he
        obtain ⟨rfl, rfl⟩ := he
        rw [hp] at hl; cases hl
      · exact ih _ hm
    | layout v =>
      rw [resolveLinks_cons_layout rec lay dir sn k m rest acc v hp]
      cases hrec : (rec m (subKeysOf lay k) (dir.sub (sn ++ '.' :: first8 k)) sn acc).out with
      | err e' => rfl
      | panic e' => rfl
      | ok s =>
        dsimp only
        rw [consOut_isOk]
        rcases List.mem_cons.1 hm with he | hm
        · simp only [Prod.mk.injEq] at he
          obtain ⟨rfl, rfl⟩ := he
          have := hf acc
          rw [hrec] at this
          cases this
        · exact ih _ hm

/-- C08 (never followed unless counted): the stage consults the recursive verification ONLY on
    the evidence it is given — two recursive procedures that agree on that evidence give the same
    result, whatever they do on any other layout -/
theorem resolveLinks_congr (rec rec' : Md → List (Str × Key) → Dir → Str → Acc → Result) (lay : TVal) (dir : Dir) (sn : Str)
    (links : List (Str × Md)) (acc : Acc)
    (h : ∀ kid md, (kid, md) ∈ links → ∀ ks d s a, rec md ks d s a = rec' md ks d s a) :
    resolveLinks rec lay dir sn links acc = resolveLinks rec' lay dir sn links acc := by
  induction links generalizing acc with
  | nil => simp [resolveLinks]
  | cons km rest ih =>
    obtain ⟨k, m⟩ := km
    have ih' := fun acc => ih acc (fun kid md hm => h kid md (List.mem_cons_of_mem _ hm))
    cases hp : m.payload with
    | link v =>
      obtain ⟨lv, hlv, heq⟩ := resolveLinks_cons_link rec lay dir sn k m rest acc v hp
      obtain ⟨lv', hlv', heq'⟩ := resolveLinks_cons_link rec' lay dir sn k m rest acc v hp
      rw [hlv] at hlv'
      cases hlv'
      rw [heq, heq', ih']
    | layout v =>
      rw [resolveLinks_cons_layout rec lay dir sn k m rest acc v hp,
        resolveLinks_cons_layout rec' lay dir sn k m rest acc v hp,
        h k m (List.mem_cons_self ..)]
      cases (rec' m (subKeysOf lay k) (dir.sub (sn ++ '.' :: first8 k)) sn acc).out with
      | err e' => rfl
      | panic e' => rfl
      | ok s => dsimp only; rw [ih']

theorem resolveLinks_no_panic (rec : Md → List (Str × Key) → Dir → Str → Acc → Result) (lay : TVal) (dir : Dir) (sn : Str)
    (links : List (Str × Md)) (acc : Acc)
    (hrec : ∀ md ks d s a, (rec md ks d s a).out.isPanic = false) :
    (resolveLinks rec lay dir sn links acc).1.isPanic = false := by
  induction links generalizing acc with
  | nil => simp [resolveLinks, Outcome.isPanic]
  | cons km rest ih =>
    obtain ⟨k, m⟩ := km
    cases hp : m.payload with
    | link v =>
      obtain ⟨lv, hlv, heq⟩ := resolveLinks_cons_link rec lay dir sn k m rest acc v hp
      rw [heq, consOut_isPanic]
      exact ih _
    | layout v =>
      rw [resolveLinks_cons_layout rec lay dir sn k m rest acc v hp]
      have := hrec m (subKeysOf lay k) (dir.sub (sn ++ '.' :: first8 k)) sn acc
      cases hr : (rec m (subKeysOf lay k) (dir.sub (sn ++ '.' :: first8 k)) sn acc).out with
      | err e' => rfl
      | panic e' => rw [hr] at this; cases this
      | ok s => dsimp only; rw [consOut_isPanic]; exact ih _

theorem resolveLinks_no_sublayouts (rec : Md → List (Str × Key) → Dir → Str → Acc → Result) (lay : TVal) (dir : Dir) (sn : Str)
    (links : List (Str × Md)) (acc : Acc)
    (h : ∀ kid md, (kid, md) ∈ links → ∃ l, md.payload = .link l) :
    (resolveLinks rec lay dir sn links acc).2 = acc := by
  induction links generalizing acc with
  | nil => simp [resolveLinks]
  | cons km rest ih =>
    obtain ⟨k, m⟩ := km
    obtain ⟨v, hp⟩ := h k m (List.mem_cons_self ..)
    obtain ⟨lv, hlv, heq⟩ := resolveLinks_cons_link rec lay dir sn k m rest acc v hp
    rw [heq, consOut_snd]
    exact ih _ (fun kid md hm => h kid md (List.mem_cons_of_mem _ hm))

/-- the same three statements for all steps of a layout -/
theorem resolveSteps_ok (rec : Md → List (Str × Key) → Dir → Str → Acc → Result) (lay : TVal) (dir : Dir)
    (ver : List (Step × List (Str × Md))) (acc acc' : Acc) (res : List (Step × List (Str × LinkView)))
    (h : resolveSteps rec lay dir ver acc = (.ok res, acc')) :
    res.map (fun x => x.1.name) = ver.map (fun x => x.1.name) ∧
    ∀ st links, (st, links) ∈ ver → ∀ kid md, (kid, md) ∈ links → ∀ l, md.payload = .layout l →
      ∃ a s ll, (rec md (subKeysOf lay kid) (dir.sub (st.name ++ '.' :: first8 kid)) st.name a).out = .ok s ∧
        (st, ll) ∈ res ∧ (kid, summaryView s) ∈ ll := by
  induction ver generalizing acc acc' res with
  | nil =>
    simp only [resolveSteps, Prod.mk.injEq, Outcome.ok.injEq] at h
    obtain ⟨rfl, _⟩ := h
    simp
  | cons sl rest ih =>
    obtain ⟨st0, links0⟩ := sl
    rw [resolveSteps_cons] at h
    cases hr : resolveLinks rec lay dir st0.name links0 acc with
    | mk o a =>
      rw [hr] at h
      cases o with
      | err e => simp at h
      | panic e => simp at h
      | ok ll0 =>
        dsimp only at h
        obtain ⟨l', hr', rfl⟩ := consOut_ok h
        obtain ⟨ih1, ih2⟩ := ih _ _ _ hr'
        obtain ⟨_, _, hl3⟩ := resolveLinks_ok rec lay dir st0.name links0 acc a ll0 hr
        refine ⟨by simp [ih1], ?_⟩
        intro st links hm kid md hkm l hl
        rcases List.mem_cons.1 hm with he | hm
        · simp only [Prod.mk.injEq] at he
          obtain ⟨rfl, rfl⟩ := he
          obtain ⟨a1, s, h1, h2⟩ := hl3 kid md hkm l hl
          exact ⟨a1, s, ll0, h1, List.mem_cons_self .., h2⟩
        · obtain ⟨a1, s, ll, h1, h2, h3⟩ := ih2 st links hm kid md hkm l hl
          exact ⟨a1, s, ll, h1, List.mem_cons_of_mem _ h2, h3⟩

theorem resolveSteps_err (rec : Md → List (Str × Key) → Dir → Str → Acc → Result) (lay : TVal) (dir : Dir)
    (ver : List (Step × List (Str × Md))) (acc acc' : Acc) (e : String)
    (h : resolveSteps rec lay dir ver acc = (.err e, acc')) :
    ∃ st links kid md l a, (st, links) ∈ ver ∧ (kid, md) ∈ links ∧ md.payload = .layout l ∧
      (rec md (subKeysOf lay kid) (dir.sub (st.name ++ '.' :: first8 kid)) st.name a).out = .err e := by
  induction ver generalizing acc acc' with
  | nil => simp [resolveSteps] at h
  | cons sl rest ih =>
    obtain ⟨st0, links0⟩ := sl
    rw [resolveSteps_cons] at h
    cases hr : resolveLinks rec lay dir st0.name links0 acc with
    | mk o a =>
      rw [hr] at h
      cases o with
      | err e' =>
        simp only [Prod.mk.injEq, Outcome.err.injEq] at h
        obtain ⟨rfl, _⟩ := h
        obtain ⟨kid, md, l, a1, hm, hl, hrec⟩ := resolveLinks_err rec lay dir st0.name links0 acc a e' hr
        exact ⟨st0, links0, kid, md, l, a1, List.mem_cons_self .., hm, hl, hrec⟩
      | panic e' => simp at h
      | ok ll0 =>
        dsimp only at h
        obtain ⟨st, links, kid, md, l, a1, hm, hkm, hl, hrec⟩ := ih _ _ (consOut_err h)
        exact ⟨st, links, kid, md, l, a1, List.mem_cons_of_mem _ hm, hkm, hl, hrec⟩

theorem resolveSteps_congr (rec rec' : Md → List (Str × Key) → Dir → Str → Acc → Result) (lay : TVal) (dir : Dir)
    (ver : List (Step × List (Str × Md))) (acc : Acc)
    (h : ∀ st links, (st, links) ∈ ver → ∀ kid md, (kid, md) ∈ links → ∀ ks d s a, rec md ks d s a = rec' md ks d s a) :
    resolveSteps rec lay dir ver acc = resolveSteps rec' lay dir ver acc := by
  induction ver generalizing acc with
  | nil => simp [resolveSteps]
  | cons sl rest ih =>
    obtain ⟨st0, links0⟩ := sl
    rw [resolveSteps_cons, resolveSteps_cons,
      resolveLinks_congr rec rec' lay dir st0.name links0 acc (h st0 links0 (List.mem_cons_self ..))]
    cases resolveLinks rec' lay dir st0.name links0 acc with
    | mk o a =>
      cases o with
      | err e => rfl
      | panic e => rfl
      | ok ll0 =>
        dsimp only
        rw [ih a (fun st links hm => h st links (List.mem_cons_of_mem _ hm))]

/-- no panic from this stage unless the recursive call panics -/
theorem resolveSteps_no_panic (rec : Md → List (Str × Key) → Dir → Str → Acc → Result) (lay : TVal) (dir : Dir)
    (ver : List (Step × List (Str × Md))) (acc : Acc)
    (hrec : ∀ md ks d s a, (rec md ks d s a).out.isPanic = false) :
    (resolveSteps rec lay dir ver acc).1.isPanic = false := by
  induction ver generalizing acc with
  | nil => simp [resolveSteps, Outcome.isPanic]
  | cons sl rest ih =>
    obtain ⟨st0, links0⟩ := sl
    rw [resolveSteps_cons]
    have hnp := resolveLinks_no_panic rec lay dir st0.name links0 acc hrec
    cases hr : resolveLinks rec lay dir st0.name links0 acc with
    | mk o a =>
      rw [hr] at hnp
      cases o with
      | err e => rfl
      | panic e => cases hnp
      | ok ll0 => dsimp only; rw [consOut_isPanic]; exact ih a

/-- effects only grow: what the stage returns as effects is the accumulation of the recursive calls;
    with no layout evidence at all nothing is run and nothing changes -/
theorem resolveSteps_no_sublayouts (rec : Md → List (Str × Key) → Dir → Str → Acc → Result) (lay : TVal) (dir : Dir)
    (ver : List (Step × List (Str × Md))) (acc : Acc)
    (h : ∀ st links, (st, links) ∈ ver → ∀ kid md, (kid, md) ∈ links → ∃ l, md.payload = .link l) :
    (resolveSteps rec lay dir ver acc).2 = acc := by
  induction ver generalizing acc with
  | nil => simp [resolveSteps]
  | cons sl rest ih =>
    obtain ⟨st0, links0⟩ := sl
    rw [resolveSteps_cons]
    have hs := resolveLinks_no_sublayouts rec lay dir st0.name links0 acc (h st0 links0 (List.mem_cons_self ..))
    cases hr : resolveLinks rec lay dir st0.name links0 acc with
    | mk o a =>
      rw [hr] at hs
      dsimp only at hs
      subst hs
      cases o with
      | err e => rfl
      | panic e => rfl
      | ok ll0 =>
        dsimp only
        rw [consOut_snd]
        exact ih a (fun st links hm => h st links (List.mem_cons_of_mem _ hm))

end InToto.SubProofs
