import InToto.Model.Verify

namespace InToto.PipeProofs
open InToto InToto.Json InToto.Schema InToto.Metadata InToto.Verify

/-- the body of a DSSE envelope: base64 (standard, else URL) then UTF-8 -/
def bodyOf (pl : Str) : Option Str := (B64.decodeFlex pl).bind B64.bytesToStr

/-! ### helper lemmas -/

theorem foldl_sigs_ok (W : World) (m : Md) (keys : List (Str × Key)) (acc : Outcome Unit) :
    keys.foldl (fun acc kv =>
      match acc with
      | .ok () => mdVerify W m kv.2
      | e => e) acc = .ok () ↔ acc = .ok () ∧ ∀ kv ∈ keys, mdVerify W m kv.2 = .ok () := by
  induction keys generalizing acc with
  | nil => simp
  | cons kv rest ih =>
    rw [List.foldl_cons, ih]
    cases acc with
    | ok a => cases a; simp
    | err e => simp
    | panic e => simp

theorem verifyLayoutSigs_iff (W : World) (m : Md) (keys : List (Str × Key)) :
    verifyLayoutSigs W m keys = .ok () ↔ keys ≠ [] ∧ ∀ kv ∈ keys, mdVerify W m kv.2 = .ok () := by
  unfold verifyLayoutSigs
  cases keys with
  | nil => simp
  | cons a l => 
    rw [if_neg (by simp)]
    refine Iff.trans (foldl_sigs_ok W m (a :: l) (.ok ())) ?_
    simp

theorem isOk_unit_iff (o : Outcome Unit) : o.isOk = true ↔ o = .ok () := by
  cases o with
  | ok a => cases a; simp [Outcome.isOk]
  | err e => simp [Outcome.isOk]
  | panic e => simp [Outcome.isOk]

/-- `VerifyLayoutSignatures` succeeds only with at least one key, and then every key verifies -/
theorem verifyLayoutSigs_ok (W : World) (m : Md) (keys : List (Str × Key))
    (h : verifyLayoutSigs W m keys = .ok ()) :
    keys ≠ [] ∧ ∀ kv ∈ keys, mdVerify W m kv.2 = .ok () := by
  exact (verifyLayoutSigs_iff W m keys).1 h

theorem verifyLayoutSigs_complete (W : World) (m : Md) (keys : List (Str × Key))
    (hne : keys ≠ []) (hall : ∀ kv ∈ keys, mdVerify W m kv.2 = .ok ()) :
    verifyLayoutSigs W m keys = .ok () := by
  exact (verifyLayoutSigs_iff W m keys).2 ⟨hne, hall⟩

/-- the verdict does not depend on the order in which the key map is ranged over -/
theorem verifyLayoutSigs_perm (W : World) (m : Md) (k₁ k₂ : List (Str × Key)) (h : k₁.Perm k₂) :
    (verifyLayoutSigs W m k₁).isOk = (verifyLayoutSigs W m k₂).isOk := by
  rw [Bool.eq_iff_iff, isOk_unit_iff, isOk_unit_iff, verifyLayoutSigs_iff, verifyLayoutSigs_iff]
  constructor
  · rintro ⟨h1, h2⟩
    refine ⟨fun h3 => h1 ?_, fun kv hkv => h2 kv (h.mem_iff.2 hkv)⟩
    subst h3; exact h.eq_nil
  · rintro ⟨h1, h2⟩
    refine ⟨fun h3 => h1 ?_, fun kv hkv => h2 kv (h.mem_iff.1 hkv)⟩
    subst h3; exact h.nil_eq.symm

/-- legacy wrapper: a successful verification exhibits a signature with the key's id that the
    primitive accepts over exactly the canonical bytes of the payload held by the metablock -/
theorem mdVerify_legacy_sound (W : World) (p : Payload) (sigs : TVal) (k : Key)
    (h : mdVerify W (.legacy p sigs) k = .ok ()) :
    ∃ s ∈ sigsOf (.legacy p sigs), s.keyid = k.keyid ∧
      ∃ msg raw, canonPayload p = some msg ∧ hexDecode s.sig = some raw ∧
        W.sigOK k.pub msg (hexLower raw) = true := by
  unfold mdVerify at h
  dsimp only at h
  split at h
  · cases h
  rename_i s hs
  split at h
  · cases h
  · cases h
  split at h
  · cases h
  rename_i msg hmsg
  split at h
  · cases h
  rename_i raw hraw
  split at h
  · rename_i hok
    unfold sigFor at hs
    have h1 := List.mem_of_find?_eq_some hs
    have h2 := List.find?_some hs
    exact ⟨s, h1, by simpa using h2, msg, raw, hmsg, hraw, hok⟩
  · cases h

/-- DSSE wrapper: a successful verification exhibits a signature (same key id, or none) that the
    primitive accepts over the pre-authentication encoding of the stored payload bytes -/
theorem mdVerify_dsse_sound (W : World) (pt pl : Str) (sigs : TVal) (p : Payload) (k : Key)
    (h : mdVerify W (.dsse pt pl sigs p) k = .ok ()) :
    ∃ s ∈ sigsOf (.dsse pt pl sigs p), (s.keyid = [] ∨ s.keyid = k.keyid) ∧
      ∃ body raw, bodyOf pl = some body ∧ B64.decodeFlex s.sig = some raw ∧
        W.sigOK k.pub (pae pt body) (hexLower raw) = true := by
  unfold mdVerify at h
  dsimp only at h
  split at h
  · cases h
  · cases h
  split at h
  · cases h
  split at h
  · cases h
  rename_i bytes hbytes
  split at h
  · cases h
  rename_i body hbody
  split at h
  · cases h
  split at h
  · rename_i hany
    rw [List.any_eq_true] at hany
    obtain ⟨s, hs, hc⟩ := hany
    rw [Bool.and_eq_true] at hc
    obtain ⟨hid, hsig⟩ := hc
    split at hsig
    · rename_i raw hraw
      refine ⟨s, hs, ?_, body, raw, ?_, hraw, hsig⟩
      · simp only [Bool.or_eq_true, Bool.and_eq_true, decide_eq_true_eq] at hid
        rcases hid with h1 | ⟨_, h2⟩
        · exact Or.inl h1
        · exact Or.inr h2
      · simp [bodyOf, hbytes, hbody]
    · cases hsig
  · cases h

theorem loadLegacy_legacy (l : List (Str × JVal)) (m : Md) (h : loadLegacy l = .ok m) :
    ∃ p s, m = .legacy p s := by
  unfold loadLegacy at h
  split at h
  · split at h
    · cases h
    · split at h
      · cases h; exact ⟨_, _, rfl⟩
      · cases h
      · cases h
  · cases h

/-- envelope coherence: the payload object of a loaded envelope is decoded from exactly the bytes
    that are signed (nothing outside the signed bytes influences the enforced layout) -/
theorem loadMetadata_dsse_coherent (t pt pl : Str) (sigs : TVal) (p : Payload)
    (h : loadMetadata t = .ok (.dsse pt pl sigs p)) :
    ∃ body pj, bodyOf pl = some body ∧ parseJ body = some pj ∧ loadPayload pj = .ok p ∧ pt = payloadTypeConst := by
  unfold loadMetadata at h
  split at h
  · cases h
  · split at h
    · split at h
      · split at h
        · cases h
        · dsimp only at h
          split at h
          · cases h
          rename_i hpt
          split at h
          · cases h
          rename_i bytes hbytes
          split at h
          · cases h
          rename_i body hbody
          split at h
          · cases h
          rename_i pj hpj
          split at h
          · rename_i p' hp'
            injection h with h
            injection h with h1 h2 h3 h4
            subst h1 h2 h3 h4
            refine ⟨body, pj, ?_, hpj, hp', ?_⟩
            · simp [bodyOf, hbytes, hbody]
            · simpa using hpt
          · cases h
          · cases h
      · cases h
    · obtain ⟨p', s', h'⟩ := loadLegacy_legacy _ _ h
      cases h'
  · cases h
  · cases h

/-- key material is judged, never crashed on: constructing the signer/verifier cannot panic -/
theorem keyUsable_no_panic (W : World) (k : Key) (b : Bool) : (keyUsable W k b).isPanic = false := by
  unfold keyUsable
  dsimp only
  repeat' split
  all_goals rfl

theorem mdVerify_no_panic (W : World) (m : Md) (k : Key) : (mdVerify W m k).isPanic = false := by
  have hk := keyUsable_no_panic W k false
  unfold mdVerify
  dsimp only
  repeat' split
  all_goals first | rfl | (rename_i h; rw [h] at hk; simp [Outcome.isPanic] at hk)

/-- C01/C06 "before anything else": if the layout signatures do not verify, or the run directory
    is unusable, the result is an error and NOTHING was executed or changed at this level -/
theorem verifyAux_sig_first (W : World) (ln : Bool) (ci : List Str) (fuel : Nat) (md : Md)
    (keys : List (Str × Key)) (dir : Dir) (sn : Str) (params : List (Str × Str)) (rd : RunDirState) (acc : Acc)
    (h : verifyLayoutSigs W md keys ≠ .ok ()) :
    let r := verifyAux W ln ci (fuel + 1) md keys dir sn params rd acc
    r.out.isOk = false ∧ r.ran = acc.ran ∧ r.fs = acc.fs := by
  intro r
  subst r
  unfold verifyAux
  dsimp only
  split
  · exact ⟨rfl, rfl, rfl⟩
  split
  · exact ⟨rfl, rfl, rfl⟩
  · exact ⟨rfl, rfl, rfl⟩
  · rename_i hok
    exact absurd hok h

/-- what an accepting run implies about the first stages -/
theorem verifyAux_ok_inv (W : World) (ln : Bool) (ci : List Str) (fuel : Nat) (md : Md)
    (keys : List (Str × Key)) (dir : Dir) (sn : Str) (params : List (Str × Str)) (rd : RunDirState) (acc : Acc)
    (s : Summary) (h : (verifyAux W ln ci (fuel + 1) md keys dir sn params rd acc).out = .ok s) :
    rd ≠ .missing ∧ rd ≠ .empty ∧ verifyLayoutSigs W md keys = .ok () ∧
    ∃ lay0, md.payload = .layout lay0 ∧
      Expiry.expiryOK W.now (fget lay0 (lit% "expires")).asStr = true ∧
      (Subst.substitute lay0 params).isOk = true := by
  unfold verifyAux at h
  dsimp only at h
  split at h
  · cases h
  rename_i hrd
  split at h
  · cases h
  · cases h
  rename_i hsig
  split at h
  · cases h
  rename_i lay0 hlay
  cases hexp : Expiry.expiryOK W.now (fget lay0 (lit% "expires")).asStr
  · rw [hexp] at h
    rw [if_pos (show (!false) = true from rfl)] at h
    cases h
  rw [hexp] at h
  rw [if_neg (show ¬ ((!true) = true) by decide)] at h
  split at h
  · cases h
  · cases h
  rename_i lay hsub
  refine ⟨?_, ?_, hsig, lay0, hlay, ?_, ?_⟩
  · intro hh; subst hh; simp at hrd
  · intro hh; subst hh; simp at hrd
  · exact hexp
  · rw [hsub]; rfl

/-- an expired or undated layout: error, nothing executed or changed at this level -/
theorem verifyAux_expiry_first (W : World) (ln : Bool) (ci : List Str) (fuel : Nat) (md : Md)
    (keys : List (Str × Key)) (dir : Dir) (sn : Str) (params : List (Str × Str)) (rd : RunDirState) (acc : Acc)
    (lay0 : TVal) (hp : md.payload = .layout lay0)
    (h : Expiry.expiryOK W.now (fget lay0 (lit% "expires")).asStr = false) :
    let r := verifyAux W ln ci (fuel + 1) md keys dir sn params rd acc
    r.out.isOk = false ∧ r.ran = acc.ran ∧ r.fs = acc.fs := by
  intro r
  subst r
  unfold verifyAux
  dsimp only
  split
  · exact ⟨rfl, rfl, rfl⟩
  split
  · exact ⟨rfl, rfl, rfl⟩
  · exact ⟨rfl, rfl, rfl⟩
  split
  · exact ⟨rfl, rfl, rfl⟩
  rename_i lay0' hlay
  rw [hp] at hlay
  cases hlay
  rw [h]
  exact ⟨rfl, rfl, rfl⟩

end InToto.PipeProofs
