import InToto.Model.Record

namespace InToto.RecordProofs
open InToto InToto.Record

/-- the output of normalisation contains no carriage return -/
theorem normalize_no_cr (l : List UInt8) : (0x0D : UInt8) ∉ normalize l := by
  fun_induction normalize l with
  | case1 => simp
  | case2 rest ih => simp [ih]
  | case3 rest h ih => simp [ih]
  | case4 b rest h1 h2 ih =>
    simp [ih]
    exact fun h => h2 h.symm

/-- helper (same statement as `normalize_other` below, needed earlier) -/
private theorem normalize_cons_of_ne_cr (b : UInt8) (rest : List UInt8) (h : b ≠ 0x0D) :
    normalize (b :: rest) = b :: normalize rest := by
  rw [normalize.eq_4]
  · intro _ hb; exact absurd hb h
  · exact h

/-- helper (same statement as `normalize_id_of_no_cr` below, needed earlier) -/
private theorem normalize_eq_self_of_no_cr (l : List UInt8) (h : (0x0D : UInt8) ∉ l) : normalize l = l := by
  induction l with
  | nil => simp [normalize]
  | cons b rest ih =>
    simp only [List.mem_cons, not_or] at h
    rw [normalize_cons_of_ne_cr b rest (fun e => h.1 e.symm), ih h.2]

/-- normalisation is idempotent -/
theorem normalize_idem (l : List UInt8) : normalize (normalize l) = normalize l := by
  exact normalize_eq_self_of_no_cr _ (normalize_no_cr l)

/-- content without carriage returns is untouched -/
theorem normalize_id_of_no_cr (l : List UInt8) (h : (0x0D : UInt8) ∉ l) : normalize l = l := by
  exact normalize_eq_self_of_no_cr l h

/-- CRLF and lone CR both become one LF; everything else is kept (characterisation by cases) -/
theorem normalize_crlf (rest : List UInt8) : normalize (0x0D :: 0x0A :: rest) = 0x0A :: normalize rest := by
  rw [normalize.eq_2]
theorem normalize_cr (b : UInt8) (rest : List UInt8) (h : b ≠ 0x0A) :
    normalize (0x0D :: b :: rest) = 0x0A :: normalize (b :: rest) := by
  rw [normalize.eq_3]
  intro r hr
  simp only [List.cons.injEq] at hr
  exact h hr.1
theorem normalize_other (b : UInt8) (rest : List UInt8) (h : b ≠ 0x0D) :
    normalize (b :: rest) = b :: normalize rest := by
  exact normalize_cons_of_ne_cr b rest h

/-- never longer than the input -/
theorem normalize_length_le (l : List UInt8) : (normalize l).length ≤ l.length := by
  fun_induction normalize l with
  | case1 => simp
  | case2 rest ih => simp only [List.length_cons]; omega
  | case3 rest h ih => simp only [List.length_cons]; omega
  | case4 b rest h1 h2 ih => simp only [List.length_cons]; omega

/-- file symlinks are ALWAYS followed (whatever the follow-directories switch says) and recorded
    under the link's own path with the prefix stripped, carrying the digests of the target's bytes;
    a name that is already taken is an error — exactly as for a regular file -/
theorem symFile_always_recorded (cfg : Cfg) (fuel : Nat) (path : Str) (d : List (Str × Str)) (acc : ArtMap)
    (h : List (Str × Str)) (hi : cfg.ignored path = false) (hh : hashObj d cfg.algs = some h) :
    visit cfg (fuel + 1) path (.symFile d) acc =
      if (lookup (stripPath cfg.lstrip path) acc).isSome then .err "not-unique"
      else .ok (acc ++ [(stripPath cfg.lstrip path, h)]) := by
  simp [visit, hi, hh]

/-- a file symlink whose stripped name is already taken is the uniqueness error -/
theorem symFile_collision_is_error (cfg : Cfg) (fuel : Nat) (path : Str) (d : List (Str × Str)) (acc : ArtMap)
    (h : List (Str × Str)) (hi : cfg.ignored path = false) (hh : hashObj d cfg.algs = some h)
    (hc : (lookup (stripPath cfg.lstrip path) acc).isSome = true) :
    visit cfg (fuel + 1) path (.symFile d) acc = .err "not-unique" := by
  simp [visit, hi, hh, hc]

/-- a file symlink whose stripped name is free is appended under that name -/
theorem symFile_fresh_is_recorded (cfg : Cfg) (fuel : Nat) (path : Str) (d : List (Str × Str)) (acc : ArtMap)
    (h : List (Str × Str)) (hi : cfg.ignored path = false) (hh : hashObj d cfg.algs = some h)
    (hc : lookup (stripPath cfg.lstrip path) acc = none) :
    visit cfg (fuel + 1) path (.symFile d) acc = .ok (acc ++ [(stripPath cfg.lstrip path, h)]) := by
  simp [visit, hi, hh, hc]

/-- merging never panics -/
theorem mergeUnique_no_panic (sub acc : ArtMap) : (mergeUnique acc sub).isPanic = false := by
  induction sub generalizing acc with
  | nil => rfl
  | cons x xs ih =>
    obtain ⟨k, v⟩ := x
    simp only [mergeUnique]
    split
    · rfl
    · exact ih _

/-- directory symlinks are followed only on request -/
theorem symDir_not_followed (cfg : Cfg) (fuel : Nat) (path : Str) (ch : List (Str × Node)) (acc : ArtMap)
    (hi : cfg.ignored path = false) (hf : cfg.followDirs = false) :
    visit cfg (fuel + 1) path (.symDir ch) acc = .ok acc := by
  simp [visit, hi, hf]

/-- an unknown algorithm is an error as soon as a file is to be recorded -/
theorem unknown_alg_is_error (cfg : Cfg) (fuel : Nat) (path : Str) (d : List (Str × Str)) (acc : ArtMap)
    (hi : cfg.ignored path = false) (a : Str) (ha : a ∈ cfg.algs) (hu : a ∉ supportedAlgs) :
    (visit cfg (fuel + 1) path (.file d) acc).isOk = false := by
  have hn : hashObj d cfg.algs = none := by
    unfold hashObj
    rw [if_neg]
    intro hall
    rw [List.all_eq_true] at hall
    have := hall a ha
    simp only [List.contains_iff_mem] at this
    exact hu this
  simp [visit, hi, hn, Outcome.isOk]

/-- names colliding after stripping are an error, never a silently overwritten record -/
theorem collision_is_error (cfg : Cfg) (fuel : Nat) (path : Str) (d : List (Str × Str)) (acc : ArtMap)
    (hi : cfg.ignored path = false) (hc : (lookup (stripPath cfg.lstrip path) acc).isSome = true) :
    (visit cfg (fuel + 1) path (.file d) acc).isOk = false := by
  simp only [visit, hi]
  cases hashObj d cfg.algs with
  | none => simp [Outcome.isOk]
  | some h => simp [hc, Outcome.isOk]

/-- a missing path is an error -/
theorem missing_path_is_error (cfg : Cfg) (p : Str) (rest : List (Str × Option Node)) (acc : ArtMap) :
    (recordArtifacts cfg ((p, none) :: rest) acc).isOk = false := by
  simp [recordArtifacts, Outcome.isOk]

/-- helper: neither `visit` nor `visitChildren` panics (simultaneous induction on the fuel) -/
theorem visit_visitChildren_no_panic (cfg : Cfg) (fuel : Nat) :
    (∀ path n acc, (visit cfg fuel path n acc).isPanic = false) ∧
    (∀ dir ch acc, (visitChildren cfg fuel dir ch acc).isPanic = false) := by
  induction fuel with
  | zero =>
    constructor
    · intro path n acc; simp [visit, Outcome.isPanic]
    · intro dir ch acc; simp [visitChildren, Outcome.isPanic]
  | succ fuel ih =>
    obtain ⟨ihv, ihc⟩ := ih
    constructor
    · intro path n acc
      simp only [visit]
      split
      · split
        · exact ihc _ _ _
        · rfl
      · split
        · exact ihc _ _ _
        · rfl
        · split
          · rfl
          · split <;> rfl
        · split
          · rfl
          · have := ihc path (sortChildren ‹_›) []
            split
            · exact mergeUnique_no_panic _ _
            · exact this
        · split
          · rfl
          · split <;> rfl
    · intro dir ch acc
      cases ch with
      | nil => simp [visitChildren, Outcome.isPanic]
      | cons hd rest =>
        obtain ⟨n, c⟩ := hd
        simp only [visitChildren]
        have := ihv (joinPath dir n) c acc
        split
        · exact ihc _ _ _
        · exact this

/-- recording never panics -/
theorem visit_no_panic (cfg : Cfg) (fuel : Nat) (path : Str) (n : Node) (acc : ArtMap) :
    (visit cfg fuel path n acc).isPanic = false := by
  exact (visit_visitChildren_no_panic cfg fuel).1 path n acc

/-- match-products: the three lists are exactly products∖local, local∖products, and the common names
    whose hash objects differ -/
theorem matchProducts_spec (products local_ : ArtMap) (n : Str) :
    (n ∈ (matchProducts products local_).1 ↔ n ∈ products.map Prod.fst ∧ n ∉ local_.map Prod.fst) ∧
    (n ∈ (matchProducts products local_).2.1 ↔ n ∈ local_.map Prod.fst ∧ n ∉ products.map Prod.fst) ∧
    (n ∈ (matchProducts products local_).2.2 → n ∈ local_.map Prod.fst ∧ n ∈ products.map Prod.fst) := by
  unfold matchProducts
  refine ⟨?_, ?_, ?_⟩
  · simp only [List.mem_filter]
    simp
  · simp only [List.mem_filter]
    simp
  · simp only [List.mem_filter, Bool.and_eq_true]
    intro h
    refine ⟨h.1, ?_⟩
    have := h.2.1
    simpa using this

end InToto.RecordProofs
