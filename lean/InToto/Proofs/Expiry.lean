import InToto.Model.Expiry

/-!
C06: what exactly is a well-formed expiry, and that the time line the comparison uses is the
calendar's.
-/

namespace InToto.ExpiryProofs
open InToto InToto.Expiry

/-! ### inversion lemmas for the parser's pieces -/

theorem lit1_inv {c : Char} {s r : Str} (h : lit1 c s = some r) : s = c :: r := by
  cases s with
  | nil => simp [lit1] at h
  | cons x t =>
    simp only [lit1] at h
    split at h
    · simp only [Option.some.injEq] at h; subst h; subst x; rfl
    · contradiction

theorem num2_inv {s r : Str} {n : Nat} (h : num2 s = some (n, r)) :
    ∃ a b, s = a :: b :: r ∧ isDigit a = true ∧ isDigit b = true ∧ n = dval a * 10 + dval b := by
  match s, h with
  | a :: b :: rest, h =>
    simp only [num2] at h
    split at h
    · rename_i hc
      simp only [Bool.and_eq_true] at hc
      simp only [Option.some.injEq, Prod.mk.injEq] at h
      exact ⟨a, b, by rw [h.2], hc.1, hc.2, h.1.symm⟩
    · contradiction
  | [], h => simp [num2] at h
  | [_], h => simp [num2] at h

theorem num4_inv {s r : Str} {n : Nat} (h : num4 s = some (n, r)) :
    ∃ a b c d, s = a :: b :: c :: d :: r ∧ isDigit a = true ∧ isDigit b = true ∧ isDigit c = true ∧
      isDigit d = true ∧ n = dval a * 1000 + dval b * 100 + dval c * 10 + dval d := by
  match s, h with
  | a :: b :: c :: d :: rest, h =>
    simp only [num4] at h
    split at h
    · rename_i hc
      simp only [Bool.and_eq_true] at hc
      simp only [Option.some.injEq, Prod.mk.injEq] at h
      exact ⟨a, b, c, d, by rw [h.2], hc.1.1.1, hc.1.1.2, hc.1.2, hc.2, h.1.symm⟩
    · contradiction
  | [], h => simp [num4] at h
  | [_], h => simp [num4] at h
  | [_, _], h => simp [num4] at h
  | [_, _, _], h => simp [num4] at h

theorem num12_inv {s r : Str} {n : Nat} (h : num12 s = some (n, r)) :
    (∃ a, s = a :: r ∧ isDigit a = true ∧ n = dval a) ∨
    (∃ a b, s = a :: b :: r ∧ isDigit a = true ∧ isDigit b = true ∧ n = dval a * 10 + dval b) := by
  match s, h with
  | a :: b :: rest, h =>
    simp only [num12] at h
    split at h
    · rename_i ha
      split at h
      · rename_i hb
        simp only [Option.some.injEq, Prod.mk.injEq] at h
        exact Or.inr ⟨a, b, by rw [h.2], ha, hb, h.1.symm⟩
      · simp only [Option.some.injEq, Prod.mk.injEq] at h
        exact Or.inl ⟨a, by rw [h.2], ha, h.1.symm⟩
    · contradiction
  | [a], h =>
    simp only [num12] at h
    split at h
    · rename_i ha
      simp only [Option.some.injEq, Prod.mk.injEq] at h
      exact Or.inl ⟨a, by rw [h.2], ha, h.1.symm⟩
    · contradiction
  | [], h => simp [num12] at h

theorem takeDigits_spec (s : Str) :
    s = (takeDigits s).1 ++ (takeDigits s).2 ∧ ∀ c ∈ (takeDigits s).1, isDigit c = true := by
  induction s with
  | nil => simp [takeDigits]
  | cons c t ih =>
    simp only [takeDigits]
    split
    · rename_i hc
      refine ⟨?_, ?_⟩
      · simp only [List.cons_append]; rw [← ih.1]
      · intro x hx
        simp only [List.mem_cons] at hx
        rcases hx with rfl | hx
        · exact hc
        · exact ih.2 x hx
    · simp

theorem takeDigits_append (ds : Str) (x : Char) (r : Str) (hds : ∀ c ∈ ds, isDigit c = true)
    (hx : isDigit x = false) : takeDigits (ds ++ x :: r) = (ds, x :: r) := by
  induction ds with
  | nil => simp [takeDigits, hx]
  | cons c t ih =>
    have hc := hds c (by simp)
    have := ih (fun y hy => hds y (by simp [hy]))
    simp [takeDigits, hc, this]

theorem optFrac_inv (r : Str) :
    ((optFrac r).1 = 0 ∧ (optFrac r).2 = r) ∨
    (∃ p ds, r = p :: (ds ++ (optFrac r).2) ∧ (p = '.' ∨ p = ',') ∧ ds ≠ [] ∧
      (∀ c ∈ ds, isDigit c = true) ∧ (optFrac r).1 = fracNanos ds) := by
  match r with
  | p :: d :: rest =>
    simp only [optFrac]
    split
    · rename_i hc
      right
      have sp := takeDigits_spec (d :: rest)
      refine ⟨p, (takeDigits (d :: rest)).1, ?_, hc.1, ?_, sp.2, rfl⟩
      · rw [← sp.1]
      · simp only [takeDigits, hc.2, if_true]; simp
    · left; exact ⟨rfl, rfl⟩
  | [] => left; simp [optFrac]
  | [_] => left; simp [optFrac]

theorem parseExpiry_some_iff (s : Str) (t : Stamp) : parseExpiry s = some t ↔
    ∃ y r1, num4 s = some (y, r1) ∧ ∃ r2, lit1 '-' r1 = some r2 ∧
    ∃ mo r3, num2 r2 = some (mo, r3) ∧ ¬(mo < 1 ∨ mo > 12) ∧ ∃ r4, lit1 '-' r3 = some r4 ∧
    ∃ d r5, num2 r4 = some (d, r5) ∧ ∃ r6, lit1 'T' r5 = some r6 ∧
    ∃ hh r7, num12 r6 = some (hh, r7) ∧ ¬ hh ≥ 24 ∧ ∃ r8, lit1 ':' r7 = some r8 ∧
    ∃ mi r9, num2 r8 = some (mi, r9) ∧ ¬ mi ≥ 60 ∧ ∃ r10, lit1 ':' r9 = some r10 ∧
    ∃ se r11, num2 r10 = some (se, r11) ∧ ¬ se ≥ 60 ∧
    ∃ r12, lit1 'Z' (optFrac r11).2 = some r12 ∧ ¬ r12 ≠ [] ∧ ¬(d < 1 ∨ d > daysIn mo y) ∧
    some ({ year := y, month := mo, day := d, hour := hh, min := mi, sec := se,
            nanos := (optFrac r11).1 } : Stamp) = some t := by
  simp only [parseExpiry, bind, Option.bind_eq_some_iff, Prod.exists, Option.bind_none,
    Option.ite_none_left_eq_some]

/-- a parsed stamp has in-range fields (a real calendar date and time of day) -/
theorem parsed_in_range (s : Str) (t : Stamp) (h : parseExpiry s = some t) :
    1 ≤ t.month ∧ t.month ≤ 12 ∧ 1 ≤ t.day ∧ t.day ≤ daysIn t.month t.year ∧ t.hour < 24 ∧ t.min < 60 ∧ t.sec < 60 := by
  obtain ⟨y, r1, -, r2, -, mo, r3, -, hmo, r4, -, d, r5, -, r6, -, hh, r7, -, hhr, r8, -,
    mi, r9, -, hmi, r10, -, se, r11, -, hse, r12, -, -, hd, ht⟩ := (parseExpiry_some_iff s t).mp h
  simp only [Option.some.injEq] at ht
  subst ht
  simp only
  omega

/-- the grammar, declaratively: four digit year, two digit month and day, ONE or two digit hour
    (if the hour is written with one digit the next character is the colon), two digit minute and
    second, an optional fraction (`.` or `,` followed by at least one digit), the letter `Z`, and
    nothing else -/
def WellFormed (s : Str) (t : Stamp) : Prop :=
  ∃ (y1 y2 y3 y4 m1 m2 d1 d2 mi1 mi2 s1 s2 : Char) (hh : Str) (frac : Str),
    s = [y1, y2, y3, y4, '-', m1, m2, '-', d1, d2, 'T'] ++ hh ++ [':', mi1, mi2, ':', s1, s2] ++ frac ++ ['Z'] ∧
    (∀ c ∈ [y1, y2, y3, y4, m1, m2, d1, d2, mi1, mi2, s1, s2], isDigit c = true) ∧
    ((∃ h1, hh = [h1] ∧ isDigit h1 = true ∧ t.hour = dval h1) ∨
     (∃ h1 h2, hh = [h1, h2] ∧ isDigit h1 = true ∧ isDigit h2 = true ∧ t.hour = dval h1 * 10 + dval h2)) ∧
    (frac = [] ∧ t.nanos = 0 ∨
     ∃ p ds, frac = p :: ds ∧ (p = '.' ∨ p = ',') ∧ ds ≠ [] ∧ (∀ c ∈ ds, isDigit c = true) ∧ t.nanos = fracNanos ds) ∧
    t.year = dval y1 * 1000 + dval y2 * 100 + dval y3 * 10 + dval y4 ∧
    t.month = dval m1 * 10 + dval m2 ∧ t.day = dval d1 * 10 + dval d2 ∧
    t.min = dval mi1 * 10 + dval mi2 ∧ t.sec = dval s1 * 10 + dval s2 ∧
    1 ≤ t.month ∧ t.month ≤ 12 ∧ 1 ≤ t.day ∧ t.day ≤ daysIn t.month t.year ∧ t.hour < 24 ∧ t.min < 60 ∧ t.sec < 60

theorem parse_fwd (s : Str) (t : Stamp) (h : parseExpiry s = some t) : WellFormed s t := by
  have hrange := parsed_in_range s t h
  obtain ⟨y, r1, h1, r2, h2, mo, r3, h3, hmo, r4, h4, d, r5, h5, r6, h6, hh, r7, h7, hhr, r8, h8,
    mi, r9, h9, hmi, r10, h10, se, r11, h11, hse, r12, h12, hr12, hd, ht⟩ := (parseExpiry_some_iff s t).mp h
  simp only [Option.some.injEq] at ht
  subst ht
  simp only at hrange
  obtain ⟨y1, y2, y3, y4, rfl, dy1, dy2, dy3, dy4, ey⟩ := num4_inv h1
  have := lit1_inv h2; subst this
  obtain ⟨m1, m2, rfl, dm1, dm2, em⟩ := num2_inv h3
  have := lit1_inv h4; subst this
  obtain ⟨d1, d2, rfl, dd1, dd2, ed⟩ := num2_inv h5
  have := lit1_inv h6; subst this
  have := lit1_inv h8; subst this
  obtain ⟨mi1, mi2, rfl, dmi1, dmi2, emi⟩ := num2_inv h9
  have := lit1_inv h10; subst this
  obtain ⟨s1, s2, rfl, ds1, ds2, es⟩ := num2_inv h11
  have hr12' : r12 = [] := Classical.not_not.mp hr12
  subst hr12'
  have hZ := lit1_inv h12
  -- the hour
  have hH : ∃ hs, r6 = hs ++ ':' :: mi1 :: mi2 :: ':' :: s1 :: s2 :: r11 ∧
      ((∃ c1, hs = [c1] ∧ isDigit c1 = true ∧ hh = dval c1) ∨
       (∃ c1 c2, hs = [c1, c2] ∧ isDigit c1 = true ∧ isDigit c2 = true ∧ hh = dval c1 * 10 + dval c2)) := by
    rcases num12_inv h7 with ⟨a, e, da, ea⟩ | ⟨a, b, e, da, db, eab⟩
    · exact ⟨[a], by rw [e]; rfl, Or.inl ⟨a, rfl, da, ea⟩⟩
    · exact ⟨[a, b], by rw [e]; rfl, Or.inr ⟨a, b, rfl, da, db, eab⟩⟩
  -- the fraction
  have hF : ∃ frac, r11 = frac ++ ['Z'] ∧
      (frac = [] ∧ (optFrac r11).1 = 0 ∨
       ∃ p ds, frac = p :: ds ∧ (p = '.' ∨ p = ',') ∧ ds ≠ [] ∧ (∀ c ∈ ds, isDigit c = true) ∧
         (optFrac r11).1 = fracNanos ds) := by
    rcases optFrac_inv r11 with ⟨e0, er⟩ | ⟨p, ds, e, hp, hne, hds, ens⟩
    · rw [er] at hZ
      exact ⟨[], by rw [hZ]; rfl, Or.inl ⟨rfl, e0⟩⟩
    · rw [hZ] at e
      exact ⟨p :: ds, by rw [e]; rfl, Or.inr ⟨p, ds, rfl, hp, hne, hds, ens⟩⟩
  obtain ⟨hs, e6, hHd⟩ := hH
  obtain ⟨frac, e11, hFd⟩ := hF
  refine ⟨y1, y2, y3, y4, m1, m2, d1, d2, mi1, mi2, s1, s2, hs, frac, ?_, ?_, hHd, hFd, ey, em, ed, emi, es, hrange⟩
  · rw [e6, e11]; simp
  · intro c hc
    simp only [List.mem_cons, List.not_mem_nil, or_false] at hc
    rcases hc with rfl | rfl | rfl | rfl | rfl | rfl | rfl | rfl | rfl | rfl | rfl | rfl <;> assumption

theorem isDigit_colon : isDigit ':' = false := by decide
theorem isDigit_Z : isDigit 'Z' = false := by decide

theorem optFrac_Z : optFrac ['Z'] = (0, ['Z']) := by simp [optFrac]

theorem optFrac_frac (p : Char) (ds : Str) (hp : p = '.' ∨ p = ',') (hne : ds ≠ [])
    (hds : ∀ c ∈ ds, isDigit c = true) : optFrac (p :: ds ++ ['Z']) = (fracNanos ds, ['Z']) := by
  cases ds with
  | nil => contradiction
  | cons d t =>
    have hd := hds d (by simp)
    have htd := takeDigits_append (d :: t) 'Z' [] hds isDigit_Z
    simp only [List.cons_append] at htd ⊢
    simp only [optFrac, hp, hd, and_self, if_true, htd]

theorem parse_bwd (s : Str) (t : Stamp) (h : WellFormed s t) : parseExpiry s = some t := by
  obtain ⟨y1, y2, y3, y4, m1, m2, d1, d2, mi1, mi2, s1, s2, hs, frac, es, hdig, hH, hF,
    ey, em, ed, emi, ese, q1, q2, q3, q4, q5, q6, q7⟩ := h
  simp only [List.forall_mem_cons, List.not_mem_nil, false_imp_iff, implies_true, and_true] at hdig
  obtain ⟨dy1, dy2, dy3, dy4, dm1, dm2, dd1, dd2, dmi1, dmi2, ds1, ds2⟩ := hdig
  rw [parseExpiry_some_iff]
  have hO : ∃ ns, optFrac (frac ++ ['Z']) = (ns, ['Z']) ∧ t.nanos = ns := by
    rcases hF with ⟨rfl, e0⟩ | ⟨p, ds, rfl, hp, hne, hds, ens⟩
    · exact ⟨0, optFrac_Z, e0⟩
    · exact ⟨fracNanos ds, optFrac_frac p ds hp hne hds, ens⟩
  obtain ⟨ns, hO, ens⟩ := hO
  have hN : num12 (hs ++ ':' :: mi1 :: mi2 :: ':' :: s1 :: s2 :: (frac ++ ['Z'])) =
      some (t.hour, ':' :: mi1 :: mi2 :: ':' :: s1 :: s2 :: (frac ++ ['Z'])) := by
    rcases hH with ⟨c1, rfl, dc1, e⟩ | ⟨c1, c2, rfl, dc1, dc2, e⟩
    · simp [num12, dc1, isDigit_colon, e]
    · simp [num12, dc1, dc2, e]
  have es' : s = y1 :: y2 :: y3 :: y4 :: '-' :: m1 :: m2 :: '-' :: d1 :: d2 :: 'T' ::
      (hs ++ ':' :: mi1 :: mi2 :: ':' :: s1 :: s2 :: (frac ++ ['Z'])) := by
    rw [es]; simp
  subst es'
  have hl : ∀ (c : Char) (r : Str), lit1 c (c :: r) = some r := by intro c r; simp [lit1]
  refine ⟨t.year, ('-' :: (m1 :: m2 :: ('-' :: (d1 :: d2 :: ('T' :: (hs ++ (':' :: (mi1 :: mi2 :: (':' :: (s1 :: s2 :: (frac ++ ['Z']))))))))))), ?_, (m1 :: m2 :: ('-' :: (d1 :: d2 :: ('T' :: (hs ++ (':' :: (mi1 :: mi2 :: (':' :: (s1 :: s2 :: (frac ++ ['Z'])))))))))), hl _ _,
    t.month, ('-' :: (d1 :: d2 :: ('T' :: (hs ++ (':' :: (mi1 :: mi2 :: (':' :: (s1 :: s2 :: (frac ++ ['Z']))))))))), ?_, by omega, (d1 :: d2 :: ('T' :: (hs ++ (':' :: (mi1 :: mi2 :: (':' :: (s1 :: s2 :: (frac ++ ['Z'])))))))), hl _ _,
    t.day, ('T' :: (hs ++ (':' :: (mi1 :: mi2 :: (':' :: (s1 :: s2 :: (frac ++ ['Z']))))))), ?_, (hs ++ (':' :: (mi1 :: mi2 :: (':' :: (s1 :: s2 :: (frac ++ ['Z'])))))), hl _ _,
    t.hour, (':' :: (mi1 :: mi2 :: (':' :: (s1 :: s2 :: (frac ++ ['Z']))))), ?_, by omega, (mi1 :: mi2 :: (':' :: (s1 :: s2 :: (frac ++ ['Z'])))), hl _ _,
    t.min, (':' :: (s1 :: s2 :: (frac ++ ['Z']))), ?_, by omega, (s1 :: s2 :: (frac ++ ['Z'])), hl _ _,
    t.sec, (frac ++ ['Z']), ?_, by omega,
    [], ?_, by simp, by omega, ?_⟩
  · simp [num4, dy1, dy2, dy3, dy4, ey]
  · simp [num2, dm1, dm2, em]
  · simp [num2, dd1, dd2, ed]
  · simpa using hN
  · simp [num2, dmi1, dmi2, emi]
  · simp [num2, ds1, ds2, ese]
  · rw [hO]; simp [lit1]
  · rw [hO]; cases t; simp_all

/-- C06 (grammar, both directions): the parser accepts exactly the well-formed stamps -/
theorem parse_iff_wellformed (s : Str) (t : Stamp) : parseExpiry s = some t ↔ WellFormed s t := by
  exact ⟨parse_fwd s t, parse_bwd s t⟩

/-- `daysIn` with the leap-year test spelled out arithmetically -/
theorem daysIn_eq (m y : Nat) : daysIn m y =
    if m = 2 then (if (y % 4 = 0 ∧ (y % 100 ≠ 0 ∨ y % 400 = 0)) then 29 else 28)
    else if m = 4 ∨ m = 6 ∨ m = 9 ∨ m = 11 then 30 else 31 := by
  unfold daysIn isLeap
  simp

theorem daysIn_pos (m y : Nat) : 1 ≤ daysIn m y := by
  rw [daysIn_eq]; split
  · split <;> omega
  · split <;> omega

theorem dfc_succ_day (y m d : Nat) : daysFromCivil y m (d + 1) = daysFromCivil y m d + 1 := by
  simp only [daysFromCivil]
  omega

/-- within a month the day number is the month's first day number plus the offset -/
theorem dfc_day (y m d : Nat) : daysFromCivil y m d = daysFromCivil y m 1 + (d : Int) - 1 := by
  simp only [daysFromCivil]
  omega

/-- last day of month `m` (January … November) to the first of the next month -/
theorem dfc_month_step (y m : Nat) (hm : 1 ≤ m ∧ m < 12) :
    daysFromCivil y (m + 1) 1 = daysFromCivil y m (daysIn m y) + 1 := by
  have hcases : m = 1 ∨ m = 2 ∨ m = 3 ∨ m = 4 ∨ m = 5 ∨ m = 6 ∨ m = 7 ∨ m = 8 ∨ m = 9 ∨ m = 10 ∨ m = 11 := by
    omega
  rw [daysIn_eq]
  rcases hcases with rfl | rfl | rfl | rfl | rfl | rfl | rfl | rfl | rfl | rfl | rfl
  · simp only [daysFromCivil]; simp only [reduceIte, Nat.reduceEqDiff, or_self]; omega
  · simp only [daysFromCivil]; simp only [reduceIte]
    by_cases hl : (y % 4 = 0 ∧ (y % 100 ≠ 0 ∨ y % 400 = 0))
    · rw [if_pos hl]; omega
    · rw [if_neg hl]; omega
  all_goals
    simp only [daysFromCivil]; simp only [reduceIte, Nat.reduceEqDiff, or_self, or_true, or_false]; omega

/-- 31 December to 1 January -/
theorem dfc_year_step (y : Nat) :
    daysFromCivil (y + 1) 1 1 = daysFromCivil y 12 31 + 1 := by
  simp only [daysFromCivil]
  omega

/-- the day after y-m-d in the proleptic Gregorian calendar -/
def nextDay (y m d : Nat) : Nat × Nat × Nat :=
  if d < daysIn m y then (y, m, d + 1)
  else if m < 12 then (y, m + 1, 1)
  else (y + 1, 1, 1)

/-- C06 (the time line is the calendar's): consecutive calendar days get consecutive day numbers —
    month lengths and leap years included -/
theorem daysFromCivil_nextDay (y m d : Nat) (hm : 1 ≤ m ∧ m ≤ 12) (hd : 1 ≤ d ∧ d ≤ daysIn m y) :
    daysFromCivil (nextDay y m d).1 (nextDay y m d).2.1 (nextDay y m d).2.2 = daysFromCivil y m d + 1 := by
  unfold nextDay
  by_cases h1 : d < daysIn m y
  · simp only [if_pos h1]
    exact dfc_succ_day y m d
  · have hd' : d = daysIn m y := by omega
    by_cases h2 : m < 12
    · simp only [if_neg h1, if_pos h2]
      rw [hd']
      exact dfc_month_step y m ⟨hm.1, h2⟩
    · have hm12 : m = 12 := by omega
      subst hm12
      simp only [if_neg h1, if_neg h2]
      have hd31 : d = 31 := by rw [hd', daysIn_eq]; simp
      subst hd31
      exact dfc_year_step y

/-- the epoch -/
theorem daysFromCivil_epoch : daysFromCivil 1970 1 1 = 0 := by
  decide

theorem dfc_month_start_step (y m : Nat) (hm : 1 ≤ m ∧ m < 12) :
    daysFromCivil y (m + 1) 1 = daysFromCivil y m 1 + daysIn m y := by
  rw [dfc_month_step y m hm, dfc_day y m (daysIn m y)]
  omega

/-- the first of a later month of the same year comes after every day of month `m` -/
theorem dfc_month_start_mono (y m m' : Nat) (hm : 1 ≤ m) (h : m < m') (h' : m' ≤ 12) :
    daysFromCivil y m 1 + daysIn m y ≤ daysFromCivil y m' 1 := by
  induction m' with
  | zero => omega
  | succ k ih =>
    by_cases hk : m = k
    · subst hk
      rw [dfc_month_start_step y m ⟨hm, by omega⟩]
      omega
    · have h1 := ih (by omega) (by omega)
      have h2 := dfc_month_start_step y k ⟨by omega, by omega⟩
      have h3 := daysIn_pos k y
      omega

theorem dfc_year_start_step (y : Nat) : daysFromCivil (y + 1) 1 1 = daysFromCivil y 12 1 + 31 := by
  rw [dfc_year_step, dfc_day y 12 31]
  omega

/-- every in-range date of year `y` lies in `[1 Jan y, 1 Jan (y+1))` -/
theorem dfc_year_bounds (y m d : Nat) (hm : 1 ≤ m ∧ m ≤ 12) (hd : 1 ≤ d ∧ d ≤ daysIn m y) :
    daysFromCivil y 1 1 ≤ daysFromCivil y m d ∧ daysFromCivil y m d < daysFromCivil (y + 1) 1 1 := by
  have e := dfc_day y m d
  have ys := dfc_year_start_step y
  constructor
  · by_cases h1 : m = 1
    · subst h1; omega
    · have := dfc_month_start_mono y 1 m (by omega) (by omega) hm.2
      omega
  · by_cases h12 : m = 12
    · subst h12
      have : daysIn 12 y = 31 := by rw [daysIn_eq]; simp
      omega
    · have := dfc_month_start_mono y m 12 hm.1 (by omega) (by omega)
      omega

theorem dfc_year_start_mono (y y' : Nat) (h : y ≤ y') : daysFromCivil y 1 1 ≤ daysFromCivil y' 1 1 := by
  induction y' with
  | zero => have : y = 0 := by omega
            subst this; omega
  | succ k ih =>
    by_cases hk : y = k + 1
    · subst hk; omega
    · have h1 := ih (by omega)
      have h2 := (dfc_year_bounds k 1 1 (by omega) ⟨by omega, daysIn_pos 1 k⟩).2
      omega

/-- lexicographic order on in-range dates -/
def dateLt (y m d y' m' d' : Nat) : Prop := y < y' ∨ (y = y' ∧ (m < m' ∨ (m = m' ∧ d < d')))

/-- C06: the day number is strictly monotone in the calendar order of in-range dates -/
theorem daysFromCivil_strictMono (y m d y' m' d' : Nat)
    (hm : 1 ≤ m ∧ m ≤ 12) (hd : 1 ≤ d ∧ d ≤ daysIn m y) (hm' : 1 ≤ m' ∧ m' ≤ 12) (hd' : 1 ≤ d' ∧ d' ≤ daysIn m' y')
    (h : dateLt y m d y' m' d') : daysFromCivil y m d < daysFromCivil y' m' d' := by
  have e1 := dfc_day y m d
  have e2 := dfc_day y' m' d'
  rcases h with h | ⟨rfl, h | ⟨rfl, h⟩⟩
  · have b1 := (dfc_year_bounds y m d hm hd).2
    have b2 := (dfc_year_bounds y' m' d' hm' hd').1
    have b3 := dfc_year_start_mono (y + 1) y' (by omega)
    omega
  · have := dfc_month_start_mono y m m' hm.1 h hm'.2
    omega
  · omega

/-- C06: for two parsed stamps, the one that is earlier on the calendar and clock (field by field,
    fractions included, nanos below one second) has the smaller instant — "not in the past" means what it says -/
theorem unixNanos_strictMono (t t' : Stamp)
    (hr : 1 ≤ t.month ∧ t.month ≤ 12 ∧ 1 ≤ t.day ∧ t.day ≤ daysIn t.month t.year ∧ t.hour < 24 ∧ t.min < 60 ∧ t.sec < 60 ∧ t.nanos < 1000000000)
    (hr' : 1 ≤ t'.month ∧ t'.month ≤ 12 ∧ 1 ≤ t'.day ∧ t'.day ≤ daysIn t'.month t'.year ∧ t'.hour < 24 ∧ t'.min < 60 ∧ t'.sec < 60 ∧ t'.nanos < 1000000000)
    (h : dateLt t.year t.month t.day t'.year t'.month t'.day ∨
         (t.year = t'.year ∧ t.month = t'.month ∧ t.day = t'.day ∧
           (t.hour * 3600 + t.min * 60 + t.sec) * 1000000000 + t.nanos < (t'.hour * 3600 + t'.min * 60 + t'.sec) * 1000000000 + t'.nanos)) :
    t.unixNanos < t'.unixNanos := by
  obtain ⟨a1, a2, a3, a4, a5, a6, a7, a8⟩ := hr
  obtain ⟨b1, b2, b3, b4, b5, b6, b7, b8⟩ := hr'
  unfold Stamp.unixNanos
  rcases h with h | ⟨e1, e2, e3, h⟩
  · have := daysFromCivil_strictMono _ _ _ _ _ _ ⟨a1, a2⟩ ⟨a3, a4⟩ ⟨b1, b2⟩ ⟨b3, b4⟩ h
    omega
  · rw [e1, e2, e3]
    omega

theorem dval_le (c : Char) (h : isDigit c = true) : dval c ≤ 9 := by
  unfold isDigit at h
  simp only [Bool.and_eq_true, decide_eq_true_eq] at h
  have h2 := h.2
  rw [Char.le_def] at h2
  have h3 : c.val.toNat ≤ 57 := UInt32.le_iff_toNat_le.mp h2
  show c.val.toNat - 48 ≤ 9
  omega

/-- folding `k` decimal digits onto an accumulator below `10^j` stays below `10^(j+k)` -/
theorem foldl_digits_lt (l : List Char) (hl : ∀ c ∈ l, isDigit c = true) (acc j : Nat) (hacc : acc < 10 ^ j) :
    l.foldl (fun acc c => acc * 10 + dval c) acc < 10 ^ (j + l.length) := by
  induction l generalizing acc j with
  | nil => simpa using hacc
  | cons c t ih =>
    simp only [List.foldl_cons, List.length_cons]
    have hc := dval_le c (hl c (by simp))
    have := ih (fun x hx => hl x (by simp [hx])) (acc * 10 + dval c) (j + 1) (by rw [Nat.pow_succ]; omega)
    rwa [show j + (t.length + 1) = j + 1 + t.length by omega]

/-- the fraction of a parsed stamp is below one second -/
theorem fracNanos_lt (ds : Str) (h : ∀ c ∈ ds, isDigit c = true) : fracNanos ds < 1000000000 := by
  unfold fracNanos
  have hd : ∀ c ∈ (ds ++ List.replicate 9 '0').take 9, isDigit c = true := by
    intro c hc
    have hc' := List.mem_of_mem_take hc
    rcases List.mem_append.mp hc' with h1 | h1
    · exact h c h1
    · rw [(List.mem_replicate.mp h1).2]; decide
  have hlen : ((ds ++ List.replicate 9 '0').take 9).length = 9 := by
    simp only [List.length_take, List.length_append, List.length_replicate]
    omega
  have := foldl_digits_lt _ hd 0 0 (by decide)
  rw [hlen] at this
  exact this

end InToto.ExpiryProofs
