/-
Unfolding lemmas for `parseVal` / `parseElems` / `parseMembers` on inputs whose first character is
known (helper lemmas for InToto/Proofs/Json.lean).
-/
import InToto.Proofs.JsonNum
import InToto.Proofs.JsonStr
namespace InToto.JsonProofs
open InToto InToto.Json

theorem parseVal_null (strict : Bool) (f : Nat) (rest : Str) :
    parseVal strict (f + 1) ('n' :: 'u' :: 'l' :: 'l' :: rest) = some (.null, rest) := by
  simp [parseVal, skipWs, isWs, dropPrefix]

theorem parseVal_true (strict : Bool) (f : Nat) (rest : Str) :
    parseVal strict (f + 1) ('t' :: 'r' :: 'u' :: 'e' :: rest) = some (.bool true, rest) := by
  simp [parseVal, skipWs, isWs, dropPrefix]

theorem parseVal_false (strict : Bool) (f : Nat) (rest : Str) :
    parseVal strict (f + 1) ('f' :: 'a' :: 'l' :: 's' :: 'e' :: rest) = some (.bool false, rest) := by
  simp [parseVal, skipWs, isWs, dropPrefix]

theorem parseVal_str (strict : Bool) (f : Nat) (t : Str) :
    parseVal strict (f + 1) ('"' :: t) =
      (parseStrBody strict (t.length + 1) t []).map fun r => (.str r.1, r.2) := by
  simp [parseVal, skipWs, isWs]

theorem parseVal_emptyArr (strict : Bool) (f : Nat) (r : Str) :
    parseVal strict (f + 1) ('[' :: ']' :: r) = some (.arr [], r) := by
  simp [parseVal, skipWs, isWs]

theorem parseVal_emptyObj (strict : Bool) (f : Nat) (r : Str) :
    parseVal strict (f + 1) ('{' :: '}' :: r) = some (.obj [], r) := by
  simp [parseVal, skipWs, isWs]

theorem skipWs_cons (c : Char) (t : Str) (h : isWs c = false) : skipWs (c :: t) = c :: t := by
  simp [skipWs, h]

theorem parseVal_arr (strict : Bool) (f : Nat) (c : Char) (t : Str) (hws : isWs c = false) (hc : c ≠ ']') :
    parseVal strict (f + 1) ('[' :: c :: t) =
      (parseElems strict f (c :: t)).map fun r => (.arr r.1, r.2) := by
  simp only [parseVal, skipWs_cons '[' _ (by decide), skipWs_cons c t hws]
  split
  · rename_i heq; simp at heq; exact absurd heq.1 hc
  · rfl

theorem parseVal_obj (strict : Bool) (f : Nat) (c : Char) (t : Str) (hws : isWs c = false) (hc : c ≠ '}') :
    parseVal strict (f + 1) ('{' :: c :: t) =
      (parseMembers strict f (c :: t)).map fun r => (.obj r.1, r.2) := by
  simp only [parseVal, skipWs_cons '{' _ (by decide), skipWs_cons c t hws]
  split
  · rename_i heq; simp at heq; exact absurd heq.1 hc
  · rfl

theorem numStart_facts (c : Char) (hc : c = '-' ∨ isDigit c = true) :
    isWs c = false ∧ c ≠ 'n' ∧ c ≠ 't' ∧ c ≠ 'f' ∧ c ≠ '"' ∧ c ≠ '[' ∧ c ≠ '{' ∧ c ≠ ']' ∧ c ≠ '}' := by
  rcases hc with rfl | hc
  · decide
  · have h : 48 ≤ c.toNat ∧ c.toNat ≤ 57 := by
      simp only [isDigit, Bool.and_eq_true, decide_eq_true_eq] at hc
      exact hc
    have hne : ∀ d : Char, (d.toNat < 48 ∨ 57 < d.toNat) → c ≠ d := by
      intro d hd hcd; subst hcd; omega
    refine ⟨?_, hne _ (by decide), hne _ (by decide), hne _ (by decide), hne _ (by decide),
      hne _ (by decide), hne _ (by decide), hne _ (by decide), hne _ (by decide)⟩
    have h1 := hne ' ' (by decide); have h2 := hne '\n' (by decide)
    have h3 := hne '\r' (by decide); have h4 := hne '\t' (by decide)
    simp [isWs, h1, h2, h3, h4]

theorem parseVal_num (strict : Bool) (f : Nat) (c : Char) (t : Str) (hc : c = '-' ∨ isDigit c = true) :
    parseVal strict (f + 1) (c :: t) = parseNum (c :: t) := by
  obtain ⟨hws, h1, h2, h3, h4, h5, h6, _, _⟩ := numStart_facts c hc
  simp only [parseVal, skipWs_cons c t hws]
  simp [hc]

theorem parseElems_last (strict : Bool) (f : Nat) (inp : Str) (v : JVal) (r : Str)
    (h : parseVal strict f inp = some (v, ']' :: r)) :
    parseElems strict (f + 1) inp = some ([v], r) := by
  simp only [parseElems, h, skipWs_cons ']' _ (by decide)]

theorem parseElems_more (strict : Bool) (f : Nat) (inp : Str) (v : JVal) (r : Str)
    (h : parseVal strict f inp = some (v, ',' :: r)) :
    parseElems strict (f + 1) inp = (parseElems strict f r).map fun x => (v :: x.1, x.2) := by
  simp only [parseElems, h, skipWs_cons ',' _ (by decide)]

theorem parseMembers_last (strict : Bool) (f : Nat) (t : Str) (k : Str) (r1 : Str) (v : JVal) (r : Str)
    (hk : parseStrBody strict (t.length + 1) t [] = some (k, ':' :: r1))
    (h : parseVal strict f r1 = some (v, '}' :: r)) :
    parseMembers strict (f + 1) ('"' :: t) = some ([(k, v)], r) := by
  simp only [parseMembers, skipWs_cons '"' _ (by decide), hk, skipWs_cons ':' _ (by decide), h,
    skipWs_cons '}' _ (by decide)]

theorem parseMembers_more (strict : Bool) (f : Nat) (t : Str) (k : Str) (r1 : Str) (v : JVal) (r : Str)
    (hk : parseStrBody strict (t.length + 1) t [] = some (k, ':' :: r1))
    (h : parseVal strict f r1 = some (v, ',' :: r)) :
    parseMembers strict (f + 1) ('"' :: t) = (parseMembers strict f r).map fun x => ((k, v) :: x.1, x.2) := by
  simp only [parseMembers, skipWs_cons '"' _ (by decide), hk, skipWs_cons ':' _ (by decide), h,
    skipWs_cons ',' _ (by decide)]

end InToto.JsonProofs
