import InToto.Proofs.PipeSigs
import InToto.Proofs.PipeThresholds
import InToto.Proofs.PipeInspect
import InToto.Proofs.RulesMore
import InToto.Model.Validate
import InToto.Proofs.Sublayout
import InToto.Proofs.Pipeline

namespace InToto.NoPanicProofs
open InToto InToto.Json InToto.Schema InToto.Metadata InToto.Verify InToto.PipeProofs

/-- a value known not to be a panic cannot equal `.panic e` -/
theorem np_absurd {α} {o : Outcome α} {e : String} (h : o = .panic e) (hp : o.isPanic = false) : False := by
  subst h; simp [Outcome.isPanic] at hp

/-- loading (either loader) never panics: malformed input is an error -/
theorem loadPayload_no_panic (j : JVal) : (loadPayload j).isPanic = false := by
  unfold loadPayload
  repeat' split
  all_goals rfl

theorem loadLegacy_no_panic (l : List (Str × JVal)) : (loadLegacy l).isPanic = false := by
  unfold loadLegacy
  repeat' split
  all_goals first | rfl | (rename_i h; exact (np_absurd h (loadPayload_no_panic _)).elim)

theorem loadMetadata_no_panic (t : Str) : (loadMetadata t).isPanic = false := by
  unfold loadMetadata
  dsimp only
  repeat' split
  all_goals first | rfl | exact loadLegacy_no_panic _ | (rename_i h; exact (np_absurd h (loadPayload_no_panic _)).elim)

theorem metablockLoad_no_panic (t : Str) : (metablockLoad t).isPanic = false := by
  unfold metablockLoad
  repeat' split
  all_goals first | rfl | exact loadLegacy_no_panic _

theorem substitute_no_panic (l : TVal) (p : List (Str × Str)) : (Subst.substitute l p).isPanic = false := by
  unfold Subst.substitute
  repeat' split
  all_goals rfl


/-- generic fold invariant -/
theorem foldl_inv {α β} (P : β → Prop) (f : β → α → β) (l : List α) (init : β)
    (h0 : P init) (h : ∀ b a, a ∈ l → P b → P (f b a)) : P (l.foldl f init) := by
  induction l generalizing init with
  | nil => exact h0
  | cons a rest ih =>
    rw [List.foldl_cons]
    exact ih _ (h _ _ (List.mem_cons_self ..) h0) (fun b x hx hb => h b x (List.mem_cons_of_mem _ hx) hb)

theorem verifyLayoutSigs_no_panic (W : World) (m : Md) (keys : List (Str × Key)) :
    (verifyLayoutSigs W m keys).isPanic = false := by
  unfold verifyLayoutSigs
  split
  · rfl
  · apply foldl_inv (fun o : Outcome Unit => o.isPanic = false)
    · rfl
    · intro b a _ hb
      split
      · exact mdVerify_no_panic W m a.2
      · exact hb

theorem verifiedLinks_no_panic (W : World) (lay : TVal) (st : Step) (roots : List Str) (links : List (Str × Md)) :
    (verifiedLinks W lay st roots links).isPanic = false := by
  rw [verifiedLinks_eq_filter W lay st roots links (mdVerify_no_panic W)]
  rfl

theorem verifyItem_no_panic (glob : Str → Str → Bool) (ctx : Rules.Ctx) (item : Rules.Item) :
    (Rules.verifyItem glob ctx item).isPanic = false := by
  unfold Rules.verifyItem
  dsimp only
  repeat' split
  all_goals first | rfl | (rename_i h; exact (np_absurd h (RulesProofs.applyRules_no_panic ..)).elim)

theorem verifyArtifacts_no_panic (glob : Str → Str → Bool) (items : List Rules.Item) (ctx : Rules.Ctx) :
    (Rules.verifyArtifacts glob items ctx).isPanic = false := by
  induction items generalizing ctx with
  | nil => rfl
  | cons item rest ih =>
    unfold Rules.verifyArtifacts
    split
    · exact ih _
    · exact verifyItem_no_panic glob ctx item

/-- the explicit panic site of the model ("no link metadata found") needs an empty list -/
theorem reduceStep_panic_iff (links : List (Str × LinkView)) : (reduceStep links).isPanic = true ↔ links = [] := by
  unfold reduceStep
  cases links with
  | nil => simp [Outcome.isPanic]
  | cons a rest =>
    dsimp only
    split <;> simp [Outcome.isPanic]


/-- `if` stage of the pipeline: early exit `a`, continuation `b` (avoids `split` on the huge term) -/
theorem ite_np {c : Prop} [Decidable c] {a b : Result} (ha : a.out.isPanic = false)
    (hb : ¬c → b.out.isPanic = false) : (if c then a else b).out.isPanic = false := by
  split
  · exact ha
  · exact hb ‹_›

/-! ### stages of the pipeline -/

theorem countLinks_no_panic (W : World) (lay : TVal) (roots : List Str) (loaded : List (Step × List (Str × Md))) :
    (countLinks W lay roots loaded).isPanic = false := by
  induction loaded with
  | nil => rfl
  | cons sl rest ih =>
    obtain ⟨st, links⟩ := sl
    rw [countLinks]
    split
    · rfl
    · rename_i h; exact (np_absurd h (verifiedLinks_no_panic ..)).elim
    · split
      · rfl
      · split
        · rfl
        · rfl
        · rename_i h; exact (np_absurd h ih).elim

theorem countedStage_no_panic (W : World) (lay : TVal) (dir : Dir) : (countedStage W lay dir).isPanic = false := by
  unfold countedStage
  dsimp only
  split
  · rfl
  · exact countLinks_no_panic ..

/-- reduction panics only on a step without links, which `finishStage` excludes beforehand -/
theorem reduceAll_no_panic (res : List (Step × List (Str × LinkView)))
    (hne : ¬ (res.any fun sl => sl.2.isEmpty) = true) : (reduceAll res).isPanic = false := by
  unfold reduceAll
  apply foldl_inv (fun o : Outcome (List (Str × LinkView)) => o.isPanic = false)
  · rfl
  · intro b sl hsl hb
    split
    · split
      · rfl
      · rfl
      · rename_i h
        have h1 : (reduceStep sl.2).isPanic = true := by rw [h]; rfl
        have h2 := (reduceStep_panic_iff _).1 h1
        exfalso
        apply hne
        rw [List.any_eq_true]
        exact ⟨sl, hsl, by rw [h2]; rfl⟩
    · exact hb

theorem finishStage_no_panic (W : World) (rd : RunDirState) (sn : Str) (lay : TVal)
    (res : List (Step × List (Str × LinkView))) (acc1 : Acc) :
    (finishStage W rd sn lay res acc1).out.isPanic = false := by
  unfold finishStage
  dsimp only
  apply ite_np rfl; intro hany
  split
  · rfl
  · rename_i h; exact (np_absurd h (reduceAll_no_panic res hany)).elim
  split
  · rfl
  · rename_i h; exact (np_absurd h (verifyArtifacts_no_panic ..)).elim
  split
  · rfl
  · rename_i h; exact (np_absurd h (runInspections_no_panic ..)).elim
  split
  · rfl
  · rename_i h; exact (np_absurd h (verifyArtifacts_no_panic ..)).elim
  · rfl

/-- MAIN (C15): the whole pipeline, at every nesting depth and through either entry point, never
    ends in a panic — the model's explicit panic sites are unreachable -/
theorem verifyAux_no_panic (W : World) (ln : Bool) (ci : List Str) (fuel : Nat) (md : Md)
    (keys : List (Str × Key)) (dir : Dir) (sn : Str) (params : List (Str × Str)) (rd : RunDirState) (acc : Acc) :
    (verifyAux W ln ci fuel md keys dir sn params rd acc).out.isPanic = false := by
  induction fuel generalizing md keys dir sn params rd acc with
  | zero => unfold verifyAux; rfl
  | succ fuel ih =>
    unfold verifyAux
    dsimp only
    split
    · rfl
    split
    · rfl
    · rename_i h; exact (np_absurd h (verifyLayoutSigs_no_panic ..)).elim
    split
    · rfl
    apply ite_np rfl; intro _
    split
    · rfl
    · rename_i h; exact (np_absurd h (substitute_no_panic ..)).elim
    apply ite_np rfl; intro _
    apply ite_np rfl; intro _
    apply ite_np rfl; intro _
    split
    · rfl
    · rename_i h; exact (np_absurd h (countedStage_no_panic ..)).elim
    split
    · rfl
    · rename_i h
      refine (np_absurd h ?_).elim
      exact SubProofs.resolveSteps_no_panic _ _ _ _ _ (fun md ks d s a => ih md ks d s [] .none a)
    exact finishStage_no_panic ..

end InToto.NoPanicProofs
