import InToto.Model.Verify
import InToto.Proofs.PipeSigs
import InToto.Proofs.PipeThresholds
import InToto.Proofs.PipeInspect
import InToto.Proofs.Sublayout

/-!
Pipeline-level theorems: the outcome of `verifyAux` (one level of `InTotoVerify` /
`InTotoVerifyWithDirectory`) characterised as the conjunction of its stages, and what acceptance
therefore implies for thresholds (C02), agreement of counted links (C05), sublayouts (C08) and
inspections (C09).  Also: the fuel of the model's recursion is irrelevant once it exceeds the
nesting depth of the link directory.
-/

namespace InToto.PipelineProofs
open InToto InToto.Json InToto.Schema InToto.Metadata InToto.Verify InToto.PipeProofs InToto.SubProofs

/-- the recursive procedure `verifyAux` hands to `VerifySublayouts`: itself with one unit of fuel
    less, no parameters and no run-directory check -/
def recOf (W : World) (ln : Bool) (ci : List Str) (fuel : Nat) : Md → List (Str × Key) → Dir → Str → Acc → Result :=
  fun md ks d sn a => verifyAux W ln ci fuel md ks d sn [] .none a

/-- the directory inspections run in -/
def runDirOf : RunDirState → Str
  | .ok p => p
  | _ => []

/-- everything that is checked before any link is looked at; `lay` is the layout after parameter
    substitution -/
def Admitted (W : World) (ci : List Str) (md : Md) (keys : List (Str × Key)) (params : List (Str × Str))
    (rd : RunDirState) (lay : TVal) : Prop :=
  rd ≠ .missing ∧ rd ≠ .empty ∧ verifyLayoutSigs W md keys = .ok () ∧
  ∃ lay0, md.payload = .layout lay0 ∧
    Expiry.expiryOK W.now (fget lay0 (lit% "expires")).asStr = true ∧
    Subst.substitute lay0 params = .ok lay ∧
    ((layoutRootCAs lay).all fun kv => W.pemHasCert kv.2.cert) = true ∧
    ((layoutInterCAs lay).all fun kv => W.pemHasCert kv.2.cert) = true ∧
    (ci.all fun p => W.pemHasCert p) = true

/-- the two lists have the same length and are related element by element -/
inductive All₂ {α β : Type} (R : α → β → Prop) : List α → List β → Prop
  | nil : All₂ R [] []
  | cons {a b as bs} : R a b → All₂ R as bs → All₂ R (a :: as) (b :: bs)

/-! ### helpers -/

private theorem all2_map {α β γ : Type} {R : α → β → Prop} (f : α → γ) (g : β → γ)
    (hfg : ∀ a b, R a b → g b = f a) {l₁ : List α} {l₂ : List β} (h : All₂ R l₁ l₂) :
    l₂.map g = l₁.map f := by
  induction h with
  | nil => rfl
  | cons hab _ ih => simp [hfg _ _ hab, ih]

private theorem all2_mem_right {α β : Type} {R : α → β → Prop} {l₁ : List α} {l₂ : List β}
    (h : All₂ R l₁ l₂) {b : β} (hb : b ∈ l₂) : ∃ a ∈ l₁, R a b := by
  induction h with
  | nil => cases hb
  | cons hab _ ih =>
    rcases List.mem_cons.1 hb with rfl | hb
    · exact ⟨_, List.mem_cons_self .., hab⟩
    · obtain ⟨a, ha, hr⟩ := ih hb
      exact ⟨a, List.mem_cons_of_mem _ ha, hr⟩

private theorem all2_mem_left {α β : Type} {R : α → β → Prop} {l₁ : List α} {l₂ : List β}
    (h : All₂ R l₁ l₂) {a : α} (ha : a ∈ l₁) : ∃ b ∈ l₂, R a b := by
  induction h with
  | nil => cases ha
  | cons hab _ ih =>
    rcases List.mem_cons.1 ha with rfl | ha
    · exact ⟨_, List.mem_cons_self .., hab⟩
    · obtain ⟨b, hb, hr⟩ := ih ha
      exact ⟨b, List.mem_cons_of_mem _ hb, hr⟩

/-- the counted links are among the loaded ones, so there are no more of them -/
private theorem verifiedLinks_length_le (W : World) (lay : TVal) (st : Step) (roots : List Str)
    (links v : List (Str × Md)) (h : verifiedLinks W lay st roots links = .ok v) : v.length ≤ links.length := by
  rw [verifiedLinks_eq_filter W lay st roots links (mdVerify_no_panic W)] at h
  injection h with h
  subst h
  exact List.length_filter_le _ _

private theorem countLinks_cons (W : World) (lay : TVal) (roots : List Str) (st : Step) (links : List (Str × Md))
    (rest : List (Step × List (Str × Md))) :
    countLinks W lay roots ((st, links) :: rest) =
      match verifiedLinks W lay st roots links with
      | .err e => .err e
      | .panic e => .panic e
      | .ok v =>
        if (v.length : Int) < st.threshold then .err "threshold"
        else
          match countLinks W lay roots rest with
          | .ok l => .ok ((st, v) :: l)
          | .err e => .err e
          | .panic e => .panic e := by
  rw [countLinks]
  cases verifiedLinks W lay st roots links with
  | err e => rfl
  | panic e => rfl
  | ok v =>
    dsimp only
    split
    · rfl
    · cases countLinks W lay roots rest <;> rfl

/-! ### stages -/

/-- the threshold stage succeeds exactly when every step's counted links reach its threshold; its
    result lists, per step in layout order, exactly the counted links -/
theorem countLinks_ok_iff (W : World) (lay : TVal) (roots : List Str)
    (loaded ver : List (Step × List (Str × Md))) :
    countLinks W lay roots loaded = .ok ver ↔
      All₂ (fun sl sv => sv.1 = sl.1 ∧ verifiedLinks W lay sl.1 roots sl.2 = .ok sv.2 ∧
        ¬ ((sv.2.length : Int) < sl.1.threshold)) loaded ver := by
  induction loaded generalizing ver with
  | nil =>
    constructor
    · intro h
      simp only [countLinks, Outcome.ok.injEq] at h
      subst h
      exact .nil
    · intro h
      cases h
      rfl
  | cons sl rest ih =>
    obtain ⟨st, links⟩ := sl
    rw [countLinks_cons]
    constructor
    · intro h
      split at h
      · cases h
      · cases h
      · rename_i v hv
        split at h
        · cases h
        · rename_i hth
          split at h
          · rename_i l hl
            injection h with h
            subst h
            exact .cons ⟨rfl, hv, hth⟩ ((ih l).1 hl)
          · cases h
          · cases h
    · intro h
      cases h with
      | cons hab hrest =>
        rename_i sv vs
        obtain ⟨st', v⟩ := sv
        obtain ⟨h1, h2, h3⟩ := hab
        dsimp only at h1 h2 h3
        subst h1
        rw [h2]
        dsimp only
        rw [if_neg h3, (ih vs).2 hrest]

private theorem countLinks_complete (W : World) (lay : TVal) (roots : List Str) (loaded : List (Step × List (Str × Md)))
    (h : ∀ sl ∈ loaded, ∃ v, verifiedLinks W lay sl.1 roots sl.2 = .ok v ∧ (sl.1.threshold ≤ (v.length : Int))) :
    ∃ ver, countLinks W lay roots loaded = .ok ver := by
  induction loaded with
  | nil => exact ⟨[], rfl⟩
  | cons sl rest ih =>
    obtain ⟨st, links⟩ := sl
    obtain ⟨v, hv, hth⟩ := h (st, links) (List.mem_cons_self ..)
    obtain ⟨l, hl⟩ := ih (fun sl hsl => h sl (List.mem_cons_of_mem _ hsl))
    dsimp only at hv hth
    refine ⟨(st, v) :: l, ?_⟩
    rw [countLinks_cons, hv]
    dsimp only
    rw [if_neg (Int.not_lt.2 hth), hl]

/-- what a successful counting stage established -/
theorem countedStage_ok (W : World) (lay : TVal) (dir : Dir) (ver : List (Step × List (Str × Md)))
    (h : countedStage W lay dir = .ok ver) :
    ver.map Prod.fst = layoutSteps lay ∧
    ∀ st v, (st, v) ∈ ver →
      verifiedLinks W lay st ((layoutRootCAs lay).map Prod.fst) (loadLinksForStep st.name dir.files) = .ok v ∧
      (st.threshold ≤ (v.length : Int)) := by
  unfold countedStage at h
  dsimp only at h
  split at h
  · cases h
  · rw [countLinks_ok_iff] at h
    constructor
    · rw [all2_map (f := Prod.fst) (g := Prod.fst) (fun a b hab => hab.1) h, List.map_map]
      exact List.map_id' _
    · intro st v hm
      obtain ⟨sl, hsl, h1, h2, h3⟩ := all2_mem_right h hm
      rw [List.mem_map] at hsl
      obtain ⟨st0, _, rfl⟩ := hsl
      dsimp only at h1 h2 h3
      subst h1
      exact ⟨h2, Int.not_lt.1 h3⟩

/-- … and conversely: if the counted links of every step reach its threshold, the stage succeeds
    (whatever else lies in the directory) -/
theorem countedStage_complete (W : World) (lay : TVal) (dir : Dir)
    (h : ∀ st ∈ layoutSteps lay, ∃ v,
      verifiedLinks W lay st ((layoutRootCAs lay).map Prod.fst) (loadLinksForStep st.name dir.files) = .ok v ∧
      (st.threshold ≤ (v.length : Int))) :
    ∃ ver, countedStage W lay dir = .ok ver := by
  unfold countedStage
  dsimp only
  have hfind : ((layoutSteps lay).map fun st => (st, loadLinksForStep st.name dir.files)).find?
      (fun sl => decide ((sl.2.length : Int) < sl.1.threshold)) = none := by
    rw [List.find?_eq_none]
    intro sl hsl
    rw [List.mem_map] at hsl
    obtain ⟨st, hst, rfl⟩ := hsl
    obtain ⟨v, hv, hth⟩ := h st hst
    have := verifiedLinks_length_le _ _ _ _ _ _ hv
    simp only [decide_eq_true_eq]
    omega
  rw [hfind]
  dsimp only
  apply countLinks_complete
  intro sl hsl
  rw [List.mem_map] at hsl
  obtain ⟨st, hst, rfl⟩ := hsl
  exact h st hst

/-- a step whose counted links fall short of the threshold fails the stage -/
theorem countedStage_short (W : World) (lay : TVal) (dir : Dir) (st : Step) (v : List (Str × Md))
    (hst : st ∈ layoutSteps lay)
    (hv : verifiedLinks W lay st ((layoutRootCAs lay).map Prod.fst) (loadLinksForStep st.name dir.files) = .ok v)
    (hshort : (v.length : Int) < st.threshold) :
    (countedStage W lay dir).isOk = false := by
  unfold countedStage
  dsimp only
  split
  · rfl
  · cases hc : countLinks W lay ((layoutRootCAs lay).map Prod.fst)
        ((layoutSteps lay).map fun st => (st, loadLinksForStep st.name dir.files)) with
    | ok ver =>
      rw [countLinks_ok_iff] at hc
      obtain ⟨sv, _, _, h2, h3⟩ := all2_mem_left hc (List.mem_map.2 ⟨st, hst, rfl⟩)
      dsimp only at h2 h3
      rw [hv] at h2
      injection h2 with h2
      subst h2
      exact absurd hshort h3
    | err e => rfl
    | panic e => rfl

/-- one step of the fold in `reduceAll` -/
private def redF (acc : Outcome (List (Str × LinkView))) (sl : Step × List (Str × LinkView)) :
    Outcome (List (Str × LinkView)) :=
  match acc with
  | .ok l =>
    match reduceStep sl.2 with
    | .ok lv => .ok (Schema.setAssoc sl.1.name lv l)
    | .err e => .err e
    | .panic e => .panic e
  | e => e

private theorem reduceAll_eq (res : List (Step × List (Str × LinkView))) : reduceAll res = res.foldl redF (.ok []) := rfl

private theorem redF_fold_err (res : List (Step × List (Str × LinkView))) (e : String) :
    res.foldl redF (.err e) = .err e := by
  induction res with
  | nil => rfl
  | cons sl rest ih => exact ih

private theorem redF_fold_panic (res : List (Step × List (Str × LinkView))) (e : String) :
    res.foldl redF (.panic e) = .panic e := by
  induction res with
  | nil => rfl
  | cons sl rest ih => exact ih

private theorem lookup_setAssoc_self {β} (k : Str) (v : β) (l : List (Str × β)) :
    lookup k (Schema.setAssoc k v l) = some v := by
  induction l with
  | nil => simp [Schema.setAssoc, lookup]
  | cons a t ih =>
    obtain ⟨k', v'⟩ := a
    by_cases hk : k' = k
    · simp [Schema.setAssoc, lookup, hk]
    · simp [Schema.setAssoc, lookup, hk, ih]

private theorem lookup_setAssoc_ne {β} (n k : Str) (v : β) (l : List (Str × β)) (hne : k ≠ n) :
    lookup n (Schema.setAssoc k v l) = lookup n l := by
  induction l with
  | nil => simp [Schema.setAssoc, lookup, hne]
  | cons a t ih =>
    obtain ⟨k', v'⟩ := a
    by_cases hk : k' = k
    · subst hk
      simp [Schema.setAssoc, lookup, hne]
    · by_cases hn : k' = n
      · subst hn
        simp [Schema.setAssoc, lookup, hk]
      · simp [Schema.setAssoc, lookup, hk, hn, ih]

/-- the fold from an arbitrary successful accumulator: every step reduces; names that do not occur
    keep their entry; with distinct names every step finds its reduced link -/
private theorem redF_fold_ok (res : List (Step × List (Str × LinkView))) (l0 red : List (Str × LinkView))
    (h : res.foldl redF (.ok l0) = .ok red) :
    (∀ sl ∈ res, ∃ lv, reduceStep sl.2 = .ok lv) ∧
    (∀ n, n ∉ res.map (fun sl => sl.1.name) → lookup n red = lookup n l0) ∧
    ((res.map fun sl => sl.1.name).Nodup → ∀ sl ∈ res, ∃ lv, reduceStep sl.2 = .ok lv ∧ lookup sl.1.name red = some lv) := by
  induction res generalizing l0 with
  | nil =>
    simp only [List.foldl_nil, Outcome.ok.injEq] at h
    subst h
    refine ⟨?_, ?_, ?_⟩
    · intro sl hsl; cases hsl
    · intro n _; rfl
    · intro _ sl hsl; cases hsl
  | cons sl0 rest ih =>
    rw [List.foldl_cons] at h
    cases hr : reduceStep sl0.2 with
    | err e =>
      have : redF (.ok l0) sl0 = .err e := by simp only [redF, hr]
      rw [this, redF_fold_err] at h
      cases h
    | panic e =>
      have : redF (.ok l0) sl0 = .panic e := by simp only [redF, hr]
      rw [this, redF_fold_panic] at h
      cases h
    | ok lv0 =>
      have : redF (.ok l0) sl0 = .ok (Schema.setAssoc sl0.1.name lv0 l0) := by simp only [redF, hr]
      rw [this] at h
      obtain ⟨ih1, ih2, ih3⟩ := ih _ h
      refine ⟨?_, ?_, ?_⟩
      · intro sl hsl
        rcases List.mem_cons.1 hsl with rfl | hsl
        · exact ⟨lv0, hr⟩
        · exact ih1 sl hsl
      · intro n hn
        rw [List.map_cons, List.mem_cons, not_or] at hn
        rw [ih2 n hn.2]
        exact lookup_setAssoc_ne n _ _ _ (fun e => hn.1 e.symm)
      · intro hnd sl hsl
        rw [List.map_cons, List.nodup_cons] at hnd
        rcases List.mem_cons.1 hsl with rfl | hsl
        · refine ⟨lv0, hr, ?_⟩
          rw [ih2 _ hnd.1]
          exact lookup_setAssoc_self _ _ _
        · exact ih3 hnd.2 sl hsl

/-- reduction succeeds only if the (resolved) counted links of EVERY step agree among themselves -/
theorem reduceAll_ok (res : List (Step × List (Str × LinkView))) (red : List (Str × LinkView))
    (h : reduceAll res = .ok red) :
    ∀ sl ∈ res, ∃ lv, reduceStep sl.2 = .ok lv ∧
      (∀ kv ∈ sl.2, kv.2.materials = lv.materials ∧ kv.2.products = lv.products) := by
  rw [reduceAll_eq] at h
  intro sl hsl
  obtain ⟨lv, hlv⟩ := (redF_fold_ok res [] red h).1 sl hsl
  exact ⟨lv, hlv, (reduceStep_ok sl.2 lv hlv).2⟩

/-- with pairwise distinct step names, the reduced map holds for every step its reduced link -/
theorem reduceAll_lookup (res : List (Step × List (Str × LinkView))) (red : List (Str × LinkView))
    (h : reduceAll res = .ok red) (hn : (res.map fun sl => sl.1.name).Nodup) :
    ∀ sl ∈ res, ∃ lv, reduceStep sl.2 = .ok lv ∧ lookup sl.1.name red = some lv := by
  rw [reduceAll_eq] at h
  exact (redF_fold_ok res [] red h).2.2 hn

/-- two disagreeing counted links in any step fail the reduction -/
theorem reduceAll_disagree (res : List (Step × List (Str × LinkView))) (sl : Step × List (Str × LinkView))
    (a b : Str × LinkView) (hsl : sl ∈ res) (ha : a ∈ sl.2) (hb : b ∈ sl.2)
    (hd : a.2.materials ≠ b.2.materials ∨ a.2.products ≠ b.2.products) :
    (reduceAll res).isOk = false := by
  cases h : reduceAll res with
  | err e => rfl
  | panic e => rfl
  | ok red =>
    obtain ⟨lv, hlv, _⟩ := reduceAll_ok res red h sl hsl
    have := reduceStep_disagree sl.2 a b ha hb hd
    rw [hlv] at this
    cases this

/-- `finishStage` looks at the run-directory state only through `runDirOf` -/
private theorem finishStage_rd (W : World) (rd : RunDirState) (sn : Str) (lay : TVal)
    (res : List (Step × List (Str × LinkView))) (acc1 : Acc) :
    finishStage W rd sn lay res acc1 = finishStage W (.ok (runDirOf rd)) sn lay res acc1 := by
  cases rd <;> rfl

/-- the last stage accepts exactly when: every step has counted links, they agree, the step rules
    hold, every inspection ran with status 0, and the inspection rules hold; the summary is then
    the first step's materials and the last step's products -/
theorem finishStage_ok_iff (W : World) (rd : RunDirState) (sn : Str) (lay : TVal)
    (res : List (Step × List (Str × LinkView))) (acc1 : Acc) (s : Summary) :
    (finishStage W rd sn lay res acc1).out = .ok s ↔
      (∀ sl ∈ res, sl.2 ≠ []) ∧
      ∃ red ctx1,
        reduceAll res = .ok red ∧
        Rules.verifyArtifacts Rules.goGlob
          ((layoutSteps lay).map fun st => toRulesItem st.name st.expMaterials st.expProducts) (stepCtx red) = .ok ctx1 ∧
        (runInspections W (runDirOf rd) (layoutInspections lay) { fs := acc1.fs, ran := acc1.ran, links := [] }).1 = .ok () ∧
        (Rules.verifyArtifacts Rules.goGlob
          ((layoutInspections lay).map fun i => toRulesItem i.name i.expMaterials i.expProducts)
          (inspCtx ctx1 (runInspections W (runDirOf rd) (layoutInspections lay)
            { fs := acc1.fs, ran := acc1.ran, links := [] }).2.links)).isOk = true ∧
        s = summaryOf (layoutSteps lay) red sn := by
  rw [finishStage_rd]
  generalize runDirOf rd = p
  unfold finishStage
  dsimp only
  by_cases hany : (res.any fun sl => sl.2.isEmpty) = true
  · rw [if_pos hany]
    constructor
    · intro h; cases h
    · rintro ⟨hne, _⟩
      exfalso
      rw [List.any_eq_true] at hany
      obtain ⟨sl, hsl, he⟩ := hany
      exact hne sl hsl (List.isEmpty_iff.1 he)
  · rw [if_neg hany]
    have hne : ∀ sl ∈ res, sl.2 ≠ [] := by
      intro sl hsl he
      apply hany
      rw [List.any_eq_true]
      exact ⟨sl, hsl, by rw [he]; rfl⟩
    cases hred : reduceAll res with
    | err e => dsimp only; exact ⟨fun h => (by cases h), fun ⟨_, _, _, h, _⟩ => (by cases h)⟩
    | panic e => dsimp only; exact ⟨fun h => (by cases h), fun ⟨_, _, _, h, _⟩ => (by cases h)⟩
    | ok red =>
      dsimp only
      cases hva : Rules.verifyArtifacts Rules.goGlob
          ((layoutSteps lay).map fun st => toRulesItem st.name st.expMaterials st.expProducts) (stepCtx red) with
      | err e =>
        dsimp only
        constructor
        · intro h; cases h
        · rintro ⟨_, red', ctx1', h1, h2, _⟩
          cases h1
          rw [hva] at h2
          cases h2
      | panic e =>
        dsimp only
        constructor
        · intro h; cases h
        · rintro ⟨_, red', ctx1', h1, h2, _⟩
          cases h1
          rw [hva] at h2
          cases h2
      | ok ctx1 =>
        dsimp only
        cases hri : (runInspections W p (layoutInspections lay) { fs := acc1.fs, ran := acc1.ran, links := [] }).1 with
        | err e =>
          dsimp only
          constructor
          · intro h; cases h
          · rintro ⟨_, red', ctx1', _, _, h3, _⟩
            cases h3
        | panic e =>
          dsimp only
          constructor
          · intro h; cases h
          · rintro ⟨_, red', ctx1', _, _, h3, _⟩
            cases h3
        | ok u =>
          cases u
          dsimp only
          cases hva2 : Rules.verifyArtifacts Rules.goGlob
              ((layoutInspections lay).map fun i => toRulesItem i.name i.expMaterials i.expProducts)
              (inspCtx ctx1 (runInspections W p (layoutInspections lay)
                { fs := acc1.fs, ran := acc1.ran, links := [] }).2.links) with
          | err e =>
            dsimp only
            constructor
            · intro h; cases h
            · rintro ⟨_, red', ctx1', h1, h2, _, h4, _⟩
              cases h1
              rw [hva] at h2
              cases h2
              rw [hva2] at h4
              cases h4
          | panic e =>
            dsimp only
            constructor
            · intro h; cases h
            · rintro ⟨_, red', ctx1', h1, h2, _, h4, _⟩
              cases h1
              rw [hva] at h2
              cases h2
              rw [hva2] at h4
              cases h4
          | ok ctx2 =>
            dsimp only
            constructor
            · intro h
              injection h with h
              exact ⟨hne, red, ctx1, rfl, hva, rfl, by rw [hva2]; rfl, h.symm⟩
            · rintro ⟨_, red', ctx1', h1, _, _, _, h5⟩
              cases h1
              rw [h5]

/-- what the last stage reports as executed: nothing new if it fails before the inspections,
    otherwise what the inspections report -/
private theorem finishStage_ran_cases (W : World) (rd : RunDirState) (sn : Str) (lay : TVal)
    (res : List (Step × List (Str × LinkView))) (acc1 : Acc) :
    ((finishStage W rd sn lay res acc1).ran = acc1.ran ∧ (finishStage W rd sn lay res acc1).out.isOk = false) ∨
    (finishStage W rd sn lay res acc1).ran =
      (runInspections W (runDirOf rd) (layoutInspections lay) { fs := acc1.fs, ran := acc1.ran, links := [] }).2.ran := by
  rw [finishStage_rd]
  generalize runDirOf rd = p
  unfold finishStage
  dsimp only
  split
  · exact .inl ⟨rfl, rfl⟩
  split
  · exact .inl ⟨rfl, rfl⟩
  · exact .inl ⟨rfl, rfl⟩
  split
  · exact .inl ⟨rfl, rfl⟩
  · exact .inl ⟨rfl, rfl⟩
  right
  split
  · rfl
  · rfl
  split <;> rfl

/-- C09 at stage level: when the last stage accepts, the commands executed at this level are
    exactly the layout's inspections, all of them, in order, after what ran before; each was
    started and exited with status 0 -/
theorem finishStage_ok_ran (W : World) (rd : RunDirState) (sn : Str) (lay : TVal)
    (res : List (Step × List (Str × LinkView))) (acc1 : Acc) (s : Summary)
    (h : (finishStage W rd sn lay res acc1).out = .ok s) :
    (finishStage W rd sn lay res acc1).ran = acc1.ran ++ (layoutInspections lay).map cmdOf ∧
    ∀ i ∈ layoutInspections lay, i.run ≠ [] ∧ (W.exec i.run).started = true ∧ (W.exec i.run).exit = 0 := by
  obtain ⟨_, red, ctx1, _, _, hri, _, _⟩ := (finishStage_ok_iff W rd sn lay res acc1 s).1 h
  have hok := runInspections_ok W (runDirOf rd) (layoutInspections lay) { fs := acc1.fs, ran := acc1.ran, links := [] } hri
  rcases finishStage_ran_cases W rd sn lay res acc1 with ⟨_, hf⟩ | hr
  · rw [h] at hf
    cases hf
  · rw [hr]
    exact hok

/-- whatever the outcome, what ran at this level is a prefix of the inspections, after what ran before -/
theorem finishStage_ran_prefix (W : World) (rd : RunDirState) (sn : Str) (lay : TVal)
    (res : List (Step × List (Str × LinkView))) (acc1 : Acc) :
    ∃ k, (finishStage W rd sn lay res acc1).ran = acc1.ran ++ ((layoutInspections lay).take k).map cmdOf := by
  rcases finishStage_ran_cases W rd sn lay res acc1 with ⟨hr, _⟩ | hr
  · exact ⟨0, by rw [hr]; simp⟩
  · rw [hr]
    exact runInspections_prefix W (runDirOf rd) (layoutInspections lay) { fs := acc1.fs, ran := acc1.ran, links := [] }

/-! ### the whole pipeline -/

/-- everything one level does before `VerifySublayouts`: the admission checks and the counting
    stage; the result is the substituted layout and the counted evidence per step -/
def preStage (W : World) (ci : List Str) (md : Md) (keys : List (Str × Key)) (dir : Dir)
    (params : List (Str × Str)) (rd : RunDirState) : Outcome (TVal × List (Step × List (Str × Md))) :=
  match (match rd with
         | .missing => some "rundir-missing" | .empty => some "rundir-empty" | _ => none) with
  | some e => .err e
  | none =>
  match verifyLayoutSigs W md keys with
  | .err e => .err e
  | .panic e => .panic e
  | .ok () =>
  match md.payload with
  | .link _ => .err "not-a-layout"
  | .layout lay0 =>
  if !Expiry.expiryOK W.now (fget lay0 (lit% "expires")).asStr then .err "expired"
  else
  match Subst.substitute lay0 params with
  | .err e => .err e
  | .panic e => .panic e
  | .ok lay =>
  if !((layoutRootCAs lay).all fun kv => W.pemHasCert kv.2.cert) then .err "root-certificates"
  else if !((layoutInterCAs lay).all fun kv => W.pemHasCert kv.2.cert) then .err "intermediate-certificates"
  else if !(ci.all fun p => W.pemHasCert p) then .err "caller-intermediates"
  else
  match countedStage W lay dir with
  | .err e => .err e
  | .panic e => .panic e
  | .ok ver => .ok (lay, ver)

/-- everything one level does with the outcome of `VerifySublayouts` -/
def postStage (W : World) (rd : RunDirState) (sn : Str) (lay : TVal)
    (resolved : Outcome (List (Step × List (Str × LinkView))) × Acc) : Result :=
  match resolved.1 with
  | .err e => { out := .err e, ran := resolved.2.ran, fs := resolved.2.fs }
  | .panic e => { out := .panic e, ran := resolved.2.ran, fs := resolved.2.fs }
  | .ok res => finishStage W rd sn lay res resolved.2

/-- one level of `verifyAux` as the composition of its three parts -/
theorem verifyAux_succ (W : World) (ln : Bool) (ci : List Str) (fuel : Nat) (md : Md)
    (keys : List (Str × Key)) (dir : Dir) (sn : Str) (params : List (Str × Str)) (rd : RunDirState) (acc : Acc) :
    verifyAux W ln ci (fuel + 1) md keys dir sn params rd acc =
      match preStage W ci md keys dir params rd with
      | .err e => { out := .err e, ran := acc.ran, fs := acc.fs }
      | .panic e => { out := .panic e, ran := acc.ran, fs := acc.fs }
      | .ok lv => postStage W rd sn lv.1 (resolveSteps (recOf W ln ci fuel) lv.1 dir lv.2 acc) := by
  unfold verifyAux preStage
  dsimp only
  cases rd
  case missing => rfl
  case empty => rfl
  all_goals
    dsimp only
    cases verifyLayoutSigs W md keys with
    | err e => rfl
    | panic e => rfl
    | ok u =>
      cases u
      dsimp only
      cases md.payload with
      | link v => rfl
      | layout lay0 =>
        dsimp only
        by_cases hexp : (!Expiry.expiryOK W.now (fget lay0 (lit% "expires")).asStr) = true
        · simp only [if_pos hexp]
        · simp only [if_neg hexp]
          cases Subst.substitute lay0 params with
          | err e => rfl
          | panic e => rfl
          | ok lay =>
            dsimp only
            by_cases h1 : (!((layoutRootCAs lay).all fun kv => W.pemHasCert kv.2.cert)) = true
            · simp only [if_pos h1]
            · simp only [if_neg h1]
              by_cases h2 : (!((layoutInterCAs lay).all fun kv => W.pemHasCert kv.2.cert)) = true
              · simp only [if_pos h2]
              · simp only [if_neg h2]
                by_cases h3 : (!(ci.all fun p => W.pemHasCert p)) = true
                · simp only [if_pos h3]
                · simp only [if_neg h3]
                  cases countedStage W lay dir with
                  | err e => rfl
                  | panic e => rfl
                  | ok ver => rfl

/-- the first part succeeds exactly when the layout is admitted and the counting stage succeeds -/
theorem preStage_ok_iff (W : World) (ci : List Str) (md : Md) (keys : List (Str × Key)) (dir : Dir)
    (params : List (Str × Str)) (rd : RunDirState) (lay : TVal) (ver : List (Step × List (Str × Md))) :
    preStage W ci md keys dir params rd = .ok (lay, ver) ↔
      Admitted W ci md keys params rd lay ∧ countedStage W lay dir = .ok ver := by
  constructor
  · intro h
    unfold preStage at h
    split at h
    · cases h
    rename_i hrd
    split at h
    · cases h
    · cases h
    rename_i hsig
    split at h
    · cases h
    rename_i lay0 hlay
    split at h
    · cases h
    rename_i hexp
    split at h
    · cases h
    · cases h
    rename_i lay' hsub
    split at h
    · cases h
    rename_i h1
    split at h
    · cases h
    rename_i h2
    split at h
    · cases h
    rename_i h3
    split at h
    · cases h
    · cases h
    rename_i ver' hcs
    simp only [Outcome.ok.injEq, Prod.mk.injEq] at h
    obtain ⟨rfl, rfl⟩ := h
    simp only [Bool.not_eq_true', Bool.not_eq_false] at hexp h1 h2 h3
    refine ⟨⟨?_, ?_, hsig, lay0, hlay, hexp, hsub, h1, h2, h3⟩, hcs⟩
    · intro hh; subst hh; simp at hrd
    · intro hh; subst hh; simp at hrd
  · rintro ⟨⟨hm, he, hsig, lay0, hp, hexp, hsub, h1, h2, h3⟩, hcs⟩
    unfold preStage
    cases rd
    case missing => exact absurd rfl hm
    case empty => exact absurd rfl he
    all_goals
      dsimp only
      rw [hsig]
      dsimp only
      rw [hp]
      dsimp only
      rw [hexp]
      simp only [Bool.not_true, Bool.false_eq_true, ↓reduceIte]
      rw [hsub]
      dsimp only
      rw [h1, h2, h3]
      simp only [Bool.not_true, Bool.false_eq_true, ↓reduceIte]
      rw [hcs]

/-- an accepting level IS its last stage -/
theorem verifyAux_eq_finish (W : World) (ln : Bool) (ci : List Str) (fuel : Nat) (md : Md)
    (keys : List (Str × Key)) (dir : Dir) (sn : Str) (params : List (Str × Str)) (rd : RunDirState) (acc : Acc)
    (lay : TVal) (ver : List (Step × List (Str × Md))) (res : List (Step × List (Str × LinkView))) (acc1 : Acc)
    (hadm : Admitted W ci md keys params rd lay) (hcs : countedStage W lay dir = .ok ver)
    (hres : resolveSteps (recOf W ln ci fuel) lay dir ver acc = (.ok res, acc1)) :
    verifyAux W ln ci (fuel + 1) md keys dir sn params rd acc = finishStage W rd sn lay res acc1 := by
  rw [verifyAux_succ, (preStage_ok_iff W ci md keys dir params rd lay ver).2 ⟨hadm, hcs⟩]
  dsimp only
  rw [hres]
  rfl

/-- MAIN: one level of verification accepts with summary `s` exactly when the layout is admitted
    (run directory usable, signatures, not expired, substitution, certificates), every step's
    counted links reach its threshold, every counted sublayout verifies recursively, and the last
    stage accepts the resolved links -/
theorem verifyAux_ok_iff (W : World) (ln : Bool) (ci : List Str) (fuel : Nat) (md : Md)
    (keys : List (Str × Key)) (dir : Dir) (sn : Str) (params : List (Str × Str)) (rd : RunDirState) (acc : Acc)
    (s : Summary) :
    (verifyAux W ln ci (fuel + 1) md keys dir sn params rd acc).out = .ok s ↔
      ∃ lay ver res acc1, Admitted W ci md keys params rd lay ∧
        countedStage W lay dir = .ok ver ∧
        resolveSteps (recOf W ln ci fuel) lay dir ver acc = (.ok res, acc1) ∧
        (finishStage W rd sn lay res acc1).out = .ok s := by
  constructor
  · intro h
    rw [verifyAux_succ] at h
    cases hpre : preStage W ci md keys dir params rd with
    | err e => rw [hpre] at h; cases h
    | panic e => rw [hpre] at h; cases h
    | ok lv =>
      obtain ⟨lay, ver⟩ := lv
      rw [hpre] at h
      dsimp only at h
      obtain ⟨hadm, hcs⟩ := (preStage_ok_iff W ci md keys dir params rd lay ver).1 hpre
      cases hres : resolveSteps (recOf W ln ci fuel) lay dir ver acc with
      | mk o a =>
        rw [hres] at h
        unfold postStage at h
        cases o with
        | err e => cases h
        | panic e => cases h
        | ok res => exact ⟨lay, ver, res, a, hadm, hcs, hres, h⟩
  · rintro ⟨lay, ver, res, acc1, hadm, hcs, hres, hfin⟩
    rw [verifyAux_eq_finish W ln ci fuel md keys dir sn params rd acc lay ver res acc1 hadm hcs hres]
    exact hfin

/-- C02 at pipeline level: acceptance implies that EVERY step of the (substituted) layout has at
    least `threshold` counted links, from pairwise distinct functionaries, each present in the link
    directory under the step's name and authorized for that step with a valid signature -/
theorem accept_implies_thresholds (W : World) (ln : Bool) (ci : List Str) (fuel : Nat) (md : Md)
    (keys : List (Str × Key)) (dir : Dir) (sn : Str) (params : List (Str × Str)) (rd : RunDirState) (acc : Acc)
    (s : Summary) (h : (verifyAux W ln ci (fuel + 1) md keys dir sn params rd acc).out = .ok s) :
    ∃ lay, Admitted W ci md keys params rd lay ∧
      ∀ st ∈ layoutSteps lay, ∃ v : List (Str × Md),
        (st.threshold ≤ (v.length : Int)) ∧ (v.map Prod.fst).Nodup ∧
        ∀ x ∈ v, x ∈ loadLinksForStep st.name dir.files ∧
          Authorized W lay st ((layoutRootCAs lay).map Prod.fst) x.1 x.2 := by
  obtain ⟨lay, ver, res, acc1, hadm, hcs, _, _⟩ :=
    (verifyAux_ok_iff W ln ci fuel md keys dir sn params rd acc s).1 h
  refine ⟨lay, hadm, ?_⟩
  obtain ⟨hsteps, hver⟩ := countedStage_ok W lay dir ver hcs
  intro st hst
  rw [← hsteps, List.mem_map] at hst
  obtain ⟨⟨st', v⟩, hm, rfl⟩ := hst
  obtain ⟨hv, hth⟩ := hver st' v hm
  refine ⟨v, hth, ?_, ?_⟩
  · exact verifiedLinks_nodup W lay st' _ _ v (mdVerify_no_panic W) hv (loadLinksForStep_nodup _ _)
  · exact verifiedLinks_sound W lay st' _ _ v (mdVerify_no_panic W) hv

/-- C08 at pipeline level: acceptance implies that every counted piece of evidence that is itself a
    layout was accepted by the same procedure one level down — verified with the key the parent
    defines for that functionary, against `<step>.<key id prefix>` below the parent's link
    directory, with no parameters -/
theorem accept_implies_sublayouts_accepted (W : World) (ln : Bool) (ci : List Str) (fuel : Nat) (md : Md)
    (keys : List (Str × Key)) (dir : Dir) (sn : Str) (params : List (Str × Str)) (rd : RunDirState) (acc : Acc)
    (s : Summary) (h : (verifyAux W ln ci (fuel + 1) md keys dir sn params rd acc).out = .ok s) :
    ∃ lay ver, Admitted W ci md keys params rd lay ∧ countedStage W lay dir = .ok ver ∧
      ∀ st links, (st, links) ∈ ver → ∀ kid m, (kid, m) ∈ links → ∀ l, m.payload = .layout l →
        ∃ a s', (verifyAux W ln ci fuel m (subKeysOf lay kid) (dir.sub (st.name ++ '.' :: first8 kid)) st.name [] .none a).out = .ok s' := by
  obtain ⟨lay, ver, res, acc1, hadm, hcs, hres, _⟩ :=
    (verifyAux_ok_iff W ln ci fuel md keys dir sn params rd acc s).1 h
  refine ⟨lay, ver, hadm, hcs, ?_⟩
  intro st links hm kid m hkm l hl
  obtain ⟨a, s', _, hrec, _⟩ := (resolveSteps_ok (recOf W ln ci fuel) lay dir ver acc acc1 res hres).2 st links hm kid m hkm l hl
  exact ⟨a, s', hrec⟩

/-- C09 at pipeline level: when a level accepts, the commands it reports are: what ran before,
    then what the sublayouts ran, then exactly all of its own inspections in layout order, each with
    status 0 -/
theorem accept_implies_inspections_ran (W : World) (ln : Bool) (ci : List Str) (fuel : Nat) (md : Md)
    (keys : List (Str × Key)) (dir : Dir) (sn : Str) (params : List (Str × Str)) (rd : RunDirState) (acc : Acc)
    (s : Summary) (h : (verifyAux W ln ci (fuel + 1) md keys dir sn params rd acc).out = .ok s) :
    ∃ lay mid, Admitted W ci md keys params rd lay ∧
      (verifyAux W ln ci (fuel + 1) md keys dir sn params rd acc).ran = mid ++ (layoutInspections lay).map cmdOf ∧
      ∀ i ∈ layoutInspections lay, i.run ≠ [] ∧ (W.exec i.run).started = true ∧ (W.exec i.run).exit = 0 := by
  obtain ⟨lay, ver, res, acc1, hadm, hcs, hres, hfin⟩ :=
    (verifyAux_ok_iff W ln ci fuel md keys dir sn params rd acc s).1 h
  obtain ⟨hran, hall⟩ := finishStage_ok_ran W rd sn lay res acc1 s hfin
  refine ⟨lay, acc1.ran, hadm, ?_, hall⟩
  rw [verifyAux_eq_finish W ln ci fuel md keys dir sn params rd acc lay ver res acc1 hadm hcs hres]
  exact hran

/-! ### fuel -/

/-- the resolution stage consults the recursive procedure only on the counted evidence that is a
    layout, and only at the sub-directory and under the step name belonging to that evidence -/
private theorem resolveLinks_congr' (rec rec' : Md → List (Str × Key) → Dir → Str → Acc → Result) (lay : TVal) (dir : Dir) (sn : Str)
    (links : List (Str × Md)) (acc : Acc)
    (h : ∀ kid md, (kid, md) ∈ links → ∀ a,
      rec md (subKeysOf lay kid) (dir.sub (sn ++ '.' :: first8 kid)) sn a =
        rec' md (subKeysOf lay kid) (dir.sub (sn ++ '.' :: first8 kid)) sn a) :
    resolveLinks rec lay dir sn links acc = resolveLinks rec' lay dir sn links acc := by
  induction links generalizing acc with
  | nil => simp [resolveLinks]
  | cons km rest ih =>
    obtain ⟨k, m⟩ := km
    have ih' := fun acc => ih acc (fun kid md hm => h kid md (List.mem_cons_of_mem _ hm))
    cases hp : m.payload with
    | link v =>
      obtain ⟨lv, hlv, heq⟩ := resolveLinks_cons_link rec lay dir sn k m rest acc v hp
      obtain ⟨lv', hlv', heq'⟩ := resolveLinks_cons_link rec' lay dir sn k m rest acc v hp
      rw [hlv] at hlv'
      cases hlv'
      rw [heq, heq', ih']
    | layout v =>
      rw [resolveLinks_cons_layout rec lay dir sn k m rest acc v hp,
        resolveLinks_cons_layout rec' lay dir sn k m rest acc v hp,
        h k m (List.mem_cons_self ..)]
      cases (rec' m (subKeysOf lay k) (dir.sub (sn ++ '.' :: first8 k)) sn acc).out with
      | err e' => rfl
      | panic e' => rfl
      | ok s => dsimp only; rw [ih']

private theorem resolveSteps_congr' (rec rec' : Md → List (Str × Key) → Dir → Str → Acc → Result) (lay : TVal) (dir : Dir)
    (ver : List (Step × List (Str × Md))) (acc : Acc)
    (h : ∀ st links, (st, links) ∈ ver → ∀ kid md, (kid, md) ∈ links → ∀ a,
      rec md (subKeysOf lay kid) (dir.sub (st.name ++ '.' :: first8 kid)) st.name a =
        rec' md (subKeysOf lay kid) (dir.sub (st.name ++ '.' :: first8 kid)) st.name a) :
    resolveSteps rec lay dir ver acc = resolveSteps rec' lay dir ver acc := by
  induction ver generalizing acc with
  | nil => simp [resolveSteps]
  | cons sl rest ih =>
    obtain ⟨st0, links0⟩ := sl
    rw [resolveSteps_cons, resolveSteps_cons,
      resolveLinks_congr' rec rec' lay dir st0.name links0 acc (h st0 links0 (List.mem_cons_self ..))]
    cases resolveLinks rec' lay dir st0.name links0 acc with
    | mk o a =>
      cases o with
      | err e => rfl
      | panic e => rfl
      | ok ll0 =>
        dsimp only
        rw [ih a (fun st links hm => h st links (List.mem_cons_of_mem _ hm))]

/-- two recursive procedures that agree on the counted sublayouts give the same level -/
private theorem verifyAux_succ_congr (W : World) (ln : Bool) (ci : List Str) (f₁ f₂ : Nat) (md : Md)
    (keys : List (Str × Key)) (dir : Dir) (sn : Str) (params : List (Str × Str)) (rd : RunDirState) (acc : Acc)
    (h : ∀ lay ver, countedStage W lay dir = .ok ver →
      ∀ st links, (st, links) ∈ ver → ∀ kid m, (kid, m) ∈ links → ∀ a,
        verifyAux W ln ci f₁ m (subKeysOf lay kid) (dir.sub (st.name ++ '.' :: first8 kid)) st.name [] .none a =
          verifyAux W ln ci f₂ m (subKeysOf lay kid) (dir.sub (st.name ++ '.' :: first8 kid)) st.name [] .none a) :
    verifyAux W ln ci (f₁ + 1) md keys dir sn params rd acc = verifyAux W ln ci (f₂ + 1) md keys dir sn params rd acc := by
  rw [verifyAux_succ, verifyAux_succ]
  cases hpre : preStage W ci md keys dir params rd with
  | err e => rfl
  | panic e => rfl
  | ok lv =>
    obtain ⟨lay, ver⟩ := lv
    dsimp only
    obtain ⟨_, hcs⟩ := (preStage_ok_iff W ci md keys dir params rd lay ver).1 hpre
    rw [resolveSteps_congr' (recOf W ln ci f₁) (recOf W ln ci f₂) lay dir ver acc (h lay ver hcs)]

private theorem depthList_lookup (n : Str) (subs : List (Str × Dir)) (d : Dir) (h : lookup n subs = some d) :
    d.depth ≤ Dir.depth.depthList subs := by
  induction subs with
  | nil => simp [lookup] at h
  | cons a t ih =>
    obtain ⟨k, d'⟩ := a
    rw [Dir.depth.depthList]
    unfold lookup at h
    split at h
    · injection h with h
      subst h
      exact Nat.le_max_left ..
    · exact Nat.le_trans (ih h) (Nat.le_max_right ..)

/-- a sub-directory is strictly shallower, or it is the empty directory standing in for a missing one -/
private theorem depth_sub (dir : Dir) (n : Str) : dir.sub n = Dir.empty ∨ (dir.sub n).depth < dir.depth := by
  cases dir with
  | mk f subs =>
    unfold Dir.sub
    simp only [Dir.subs]
    cases h : lookup n subs with
    | none => left; rfl
    | some d =>
      right
      rw [Dir.depth]
      simp only [Option.getD_some]
      have := depthList_lookup n subs d h
      omega

private theorem depth_pos (dir : Dir) : 0 < dir.depth := by
  cases dir
  rw [Dir.depth]
  omega

/-- on a link directory without files no recursion happens: any positive fuel gives the same result -/
theorem verifyAux_fuel_empty (W : World) (ln : Bool) (ci : List Str) (f₁ f₂ : Nat) (md : Md)
    (keys : List (Str × Key)) (dir : Dir) (hd : dir.files = []) (sn : Str) (params : List (Str × Str)) (rd : RunDirState) (acc : Acc) :
    verifyAux W ln ci (f₁ + 1) md keys dir sn params rd acc = verifyAux W ln ci (f₂ + 1) md keys dir sn params rd acc := by
  apply verifyAux_succ_congr
  intro lay ver hcs st links hm kid m hkm a
  exfalso
  obtain ⟨hv, _⟩ := (countedStage_ok W lay dir ver hcs).2 st links hm
  rw [hd] at hv
  have h0 : loadLinksForStep st.name [] = [] := rfl
  rw [h0] at hv
  have h1 : links = [] := by
    simp only [verifiedLinks, List.foldl_nil, Outcome.ok.injEq] at hv
    exact hv.symm
  subst h1
  cases hkm

/-- the model's recursion bound is an artefact: any two amounts of fuel above the nesting depth of
    the link directory give the same result (so `verify`, which starts with `depth + 1`, never runs
    out, and "nesting-too-deep" is unreachable from it) -/
theorem verifyAux_fuel_irrelevant (W : World) (ln : Bool) (ci : List Str) (f₁ f₂ : Nat) (md : Md)
    (keys : List (Str × Key)) (dir : Dir) (sn : Str) (params : List (Str × Str)) (rd : RunDirState) (acc : Acc)
    (h₁ : dir.depth < f₁) (h₂ : dir.depth < f₂) :
    verifyAux W ln ci f₁ md keys dir sn params rd acc = verifyAux W ln ci f₂ md keys dir sn params rd acc := by
  induction f₁ generalizing f₂ md keys dir sn params rd acc with
  | zero => omega
  | succ k ih =>
    cases f₂ with
    | zero => omega
    | succ j =>
      apply verifyAux_succ_congr
      intro lay ver _ st links _ kid m _ a
      rcases depth_sub dir (st.name ++ '.' :: first8 kid) with he | hlt
      · rw [he]
        have hpos := depth_pos dir
        obtain ⟨k', rfl⟩ : ∃ k', k = k' + 1 := ⟨k - 1, by omega⟩
        obtain ⟨j', rfl⟩ : ∃ j', j = j' + 1 := ⟨j - 1, by omega⟩
        exact verifyAux_fuel_empty W ln ci k' j' m _ Dir.empty rfl _ _ _ _
      · exact ih j m _ _ _ _ _ _ (by omega) (by omega)

end InToto.PipelineProofs
