import InToto.Model.Glob
import InToto.Spec.Glob

/-!
Class level: `getEsc` / `parseRanges` (model) versus `getEscS` / `parseRangesS` (spec), and the
behaviour of `scanLoop` inside a bracket expression.  Everything is phrased via the inductive
token grammars `Member` (one possibly escaped class member) and `CBody` (the ranges of a class
up to and including the closing bracket).
-/
namespace InToto.GlobProofs
open InToto.Glob InToto.GlobSpec

abbrev nat (b : Bytes) : List Nat := b.map UInt8.toNat

def Ascii (b : Bytes) : Prop := ∀ x ∈ b, x < 128

theorem Ascii.cons {x : UInt8} {b : Bytes} (h : Ascii (x :: b)) : x < 128 ∧ Ascii b :=
  ⟨h x (by simp), fun y hy => h y (by simp [hy])⟩

theorem Ascii.append_left {a b : Bytes} (h : Ascii (a ++ b)) : Ascii a :=
  fun y hy => h y (by simp [hy])

theorem Ascii.append_right {a b : Bytes} (h : Ascii (a ++ b)) : Ascii b :=
  fun y hy => h y (by simp [hy])

theorem Ascii.append {a b : Bytes} (ha : Ascii a) (hb : Ascii b) : Ascii (a ++ b) := by
  intro y hy
  rcases List.mem_append.1 hy with h | h
  · exact ha y h
  · exact hb y h

theorem ascii_nil : Ascii [] := fun _ h => by cases h

theorem ascii_cons {x : UInt8} {b : Bytes} (hx : x < 128) (hb : Ascii b) : Ascii (x :: b) := by
  intro y hy
  rcases List.mem_cons.1 hy with h | h
  · exact h ▸ hx
  · exact hb y h

/-! ### constants -/

theorem toNat_eq_iff (c : UInt8) (k : Nat) (hk : k < 256) : c.toNat = k ↔ c = UInt8.ofNat k := by
  constructor
  · intro h
    apply UInt8.toNat_inj.1
    simp [h, Nat.mod_eq_of_lt hk]
  · intro h
    subst h
    simp [Nat.mod_eq_of_lt hk]

@[simp] theorem toNat_eq_cStar (c : UInt8) : c.toNat = GlobSpec.cStar ↔ c = Glob.cStar :=
  toNat_eq_iff c _ (by decide)
@[simp] theorem toNat_eq_cQuest (c : UInt8) : c.toNat = GlobSpec.cQuest ↔ c = Glob.cQuest :=
  toNat_eq_iff c _ (by decide)
@[simp] theorem toNat_eq_cLBr (c : UInt8) : c.toNat = GlobSpec.cLBr ↔ c = Glob.cLBr :=
  toNat_eq_iff c _ (by decide)
@[simp] theorem toNat_eq_cRBr (c : UInt8) : c.toNat = GlobSpec.cRBr ↔ c = Glob.cRBr :=
  toNat_eq_iff c _ (by decide)
@[simp] theorem toNat_eq_cCaret (c : UInt8) : c.toNat = GlobSpec.cCaret ↔ c = Glob.cCaret :=
  toNat_eq_iff c _ (by decide)
@[simp] theorem toNat_eq_cDash (c : UInt8) : c.toNat = GlobSpec.cDash ↔ c = Glob.cDash :=
  toNat_eq_iff c _ (by decide)
@[simp] theorem toNat_eq_cBsl (c : UInt8) : c.toNat = GlobSpec.cBsl ↔ c = Glob.cBsl :=
  toNat_eq_iff c _ (by decide)

theorem decodeRune_ascii (b : UInt8) (rest : Bytes) (h : b < 128) :
    decodeRune (b :: rest) = (b.toNat, 1) := by
  simp [decodeRune, h]

theorem toNat_ne_runeError (b : UInt8) : (b.toNat == runeError) = false := by
  have := UInt8.toNat_lt b
  simp [runeError]
  omega

/-! ### class members -/

/-- One class member token: `\x` or a single character other than `-`, `]`, `\`. -/
inductive Member : Bytes → Nat → Prop where
  | esc (x : UInt8) : x < 128 → Member [Glob.cBsl, x] x.toNat
  | plain (c : UInt8) : c < 128 → c ≠ Glob.cDash → c ≠ Glob.cRBr → c ≠ Glob.cBsl →
      Member [c] c.toNat

theorem Member.head {t : Bytes} {lo : Nat} (h : Member t lo) :
    ∃ c tl, t = c :: tl ∧ c ≠ Glob.cDash ∧ c ≠ Glob.cRBr := by
  cases h with
  | esc x hx => exact ⟨_, _, rfl, by decide, by decide⟩
  | plain c hc h1 h2 h3 => exact ⟨_, _, rfl, h1, h2⟩

theorem Member.length_pos {t : Bytes} {lo : Nat} (h : Member t lo) : 0 < t.length := by
  cases h <;> simp

theorem Member.ascii {t : Bytes} {lo : Nat} (h : Member t lo) : Ascii t := by
  cases h with
  | esc x hx => exact ascii_cons (by decide) (ascii_cons hx ascii_nil)
  | plain c hc => exact ascii_cons hc ascii_nil

theorem getEsc_member {t : Bytes} {lo : Nat} (h : Member t lo) (y : Bytes) (hy : y ≠ []) :
    getEsc (t ++ y) = some (lo, y) := by
  cases h with
  | esc x hx =>
    cases y with
    | nil => exact absurd rfl hy
    | cons a y =>
      simp [getEsc, decodeRune_ascii x _ hx, toNat_ne_runeError, Glob.cBsl, Glob.cDash, Glob.cRBr]
  | plain c hc h1 h2 h3 =>
    cases y with
    | nil => exact absurd rfl hy
    | cons a y =>
      simp [getEsc, decodeRune_ascii c _ hc, toNat_ne_runeError, h1, h2, h3]

theorem getEsc_inv {q : Bytes} (hq : Ascii q) {lo : Nat} {rest : Bytes}
    (h : getEsc q = some (lo, rest)) : ∃ t, q = t ++ rest ∧ Member t lo ∧ rest ≠ [] := by
  cases q with
  | nil => simp [getEsc] at h
  | cons c q1 =>
    have hc := hq.cons.1
    have hq1 := hq.cons.2
    by_cases hb : c = Glob.cBsl
    · subst hb
      cases q1 with
      | nil => simp [getEsc, Glob.cBsl, Glob.cDash, Glob.cRBr] at h
      | cons x q2 =>
        have hx := hq1.cons.1
        simp [getEsc, Glob.cBsl, Glob.cDash, Glob.cRBr, decodeRune_ascii x _ hx,
          toNat_ne_runeError] at h
        obtain ⟨h0, h1, h2⟩ := h
        subst h1 h2
        exact ⟨[Glob.cBsl, x], rfl, Member.esc x hx, by simpa using h0⟩
    · by_cases h1 : c = Glob.cDash
      · simp [getEsc, h1] at h
      · by_cases h2 : c = Glob.cRBr
        · simp [getEsc, h2] at h
        · simp [getEsc, hb, h1, h2, decodeRune_ascii c _ hc, toNat_ne_runeError] at h
          obtain ⟨h0, h3, h4⟩ := h
          subst h3 h4
          exact ⟨[c], rfl, Member.plain c hc h1 h2 hb, by simpa using h0⟩

theorem getEscS_member {t : Bytes} {lo : Nat} (h : Member t lo) (y : List Nat) :
    getEscS (nat t ++ y) = some (lo, y) := by
  cases h with
  | esc x hx =>
    simp [getEscS, Glob.cBsl, GlobSpec.cBsl, GlobSpec.cDash, GlobSpec.cRBr]
  | plain c hc h1 h2 h3 =>
    simp [getEscS, h1, h2, h3]

theorem getEscS_inv {q : Bytes} (hq : Ascii q) {lo : Nat} {rest' : List Nat}
    (h : getEscS (nat q) = some (lo, rest')) :
    ∃ t rest, q = t ++ rest ∧ rest' = nat rest ∧ Member t lo := by
  cases q with
  | nil => simp [getEscS] at h
  | cons c q1 =>
    have hc := hq.cons.1
    have hq1 := hq.cons.2
    by_cases hb : c = Glob.cBsl
    · subst hb
      cases q1 with
      | nil => simp [getEscS, Glob.cBsl, GlobSpec.cBsl, GlobSpec.cDash, GlobSpec.cRBr] at h
      | cons x q2 =>
        have hx := hq1.cons.1
        simp [getEscS, Glob.cBsl, GlobSpec.cBsl, GlobSpec.cDash, GlobSpec.cRBr] at h
        obtain ⟨h1, h2⟩ := h
        subst h1 h2
        exact ⟨[Glob.cBsl, x], q2, rfl, rfl, Member.esc x hx⟩
    · by_cases h1 : c = Glob.cDash
      · simp [getEscS, h1] at h
      · by_cases h2 : c = Glob.cRBr
        · simp [getEscS, h2] at h
        · simp [getEscS, hb, h1, h2] at h
          obtain ⟨h3, h4⟩ := h
          subst h3 h4
          exact ⟨[c], q1, rfl, rfl, Member.plain c hc h1 h2 hb⟩

/-! ### class bodies -/

/-- The ranges of a class up to and including the closing bracket.  The flag says whether the
    closing bracket may come first (i.e. whether at least one range has already been read). -/
inductive CBody : Bool → Bytes → List (Nat × Nat) → Prop where
  | close : CBody true [Glob.cRBr] []
  | single (b : Bool) {t : Bytes} {lo : Nat} {body : Bytes} {rs : List (Nat × Nat)} :
      Member t lo → CBody true body rs → CBody b (t ++ body) ((lo, lo) :: rs)
  | range (b : Bool) {t1 t2 : Bytes} {lo hi : Nat} {body : Bytes} {rs : List (Nat × Nat)} :
      Member t1 lo → Member t2 hi → CBody true body rs →
      CBody b (t1 ++ Glob.cDash :: (t2 ++ body)) ((lo, hi) :: rs)

theorem CBody.head {b : Bool} {body : Bytes} {rs : List (Nat × Nat)} (h : CBody b body rs) :
    ∃ c tl, body = c :: tl ∧ c ≠ Glob.cDash ∧ (b = false → c ≠ Glob.cRBr) := by
  cases h with
  | close => exact ⟨_, _, rfl, by decide, by simp⟩
  | single b hm _ =>
    obtain ⟨c, tl, rfl, h1, h2⟩ := hm.head
    exact ⟨c, _, rfl, h1, fun _ => h2⟩
  | range b hm _ _ =>
    obtain ⟨c, tl, rfl, h1, h2⟩ := hm.head
    exact ⟨c, _, rfl, h1, fun _ => h2⟩

theorem CBody.weaken {b : Bool} {body : Bytes} {rs : List (Nat × Nat)} (h : CBody b body rs) :
    CBody true body rs := by
  cases h with
  | close => exact CBody.close
  | single b hm hb => exact CBody.single true hm hb
  | range b h1 h2 hb => exact CBody.range true h1 h2 hb

theorem CBody.ascii {b : Bool} {body : Bytes} {rs : List (Nat × Nat)} (h : CBody b body rs) :
    Ascii body := by
  induction h with
  | close => exact ascii_cons (by decide) ascii_nil
  | single b hm _ ih => exact hm.ascii.append ih
  | range b h1 h2 _ ih =>
    exact h1.ascii.append (ascii_cons (by decide) (h2.ascii.append ih))

theorem inRanges_cons (lo hi : Nat) (rs : List (Nat × Nat)) (r : Nat) :
    inRanges ((lo, hi) :: rs) r = ((lo ≤ r && r ≤ hi) || inRanges rs r) := by
  simp [inRanges]

theorem inRanges_nil (r : Nat) : inRanges [] r = false := by simp [inRanges]

/-- Model, forward: a class body is consumed by `parseRanges`, whatever follows. -/
theorem parseRanges_cbody {b : Bool} {body : Bytes} {rs : List (Nat × Nat)} (h : CBody b body rs) :
    ∀ (fuel : Nat) (y : Bytes) (r : Nat) (m : Bool) (nr : Nat),
      (b = true → 0 < nr) → body.length ≤ fuel →
      parseRanges fuel (body ++ y) r m nr = some (m || inRanges rs r, y) := by
  induction h with
  | close =>
    intro fuel y r m nr hb hf
    cases fuel with
    | zero => simp at hf
    | succ f => simp [parseRanges, hb rfl, inRanges_nil]
  | @single b t lo body rs hm hbody ih =>
    intro fuel y r m nr hb hf
    cases fuel with
    | zero =>
      have := hm.length_pos
      simp only [List.length_append] at hf; omega
    | succ f =>
      have hlen := hm.length_pos
      obtain ⟨c, tl, rfl, h1, h2⟩ := hm.head
      obtain ⟨d, tl', rfl, hd, _⟩ := hbody.head
      have hg := getEsc_member hm (d :: tl' ++ y) (by simp)
      simp only [List.append_assoc, List.cons_append] at hg ⊢
      rw [parseRanges]
      simp only [hg, beq_iff_eq, ↓reduceIte, hd]
      have := ih f y r (m || (lo ≤ r && r ≤ lo)) (nr + 1) (fun _ => by omega)
        (by simp at hf ⊢; omega)
      simp only [List.cons_append] at this
      rw [this, inRanges_cons, Bool.or_assoc]
      simp [h2]
  | @range b t1 t2 lo hi body rs hm1 hm2 hbody ih =>
    intro fuel y r m nr hb hf
    cases fuel with
    | zero =>
      have := hm1.length_pos
      simp only [List.length_append] at hf; omega
    | succ f =>
      have hlen := hm1.length_pos
      obtain ⟨c, tl, rfl, h1, h2⟩ := hm1.head
      obtain ⟨d, tl', rfl, hd, _⟩ := hbody.head
      have hg := getEsc_member hm1 (Glob.cDash :: (t2 ++ (d :: tl' ++ y))) (by simp)
      have hg2 := getEsc_member hm2 (d :: tl' ++ y) (by simp)
      simp only [List.append_assoc, List.cons_append] at hg hg2 ⊢
      rw [parseRanges]
      simp only [hg, hg2, beq_iff_eq, ↓reduceIte]
      have := ih f y r (m || (lo ≤ r && r ≤ hi)) (nr + 1) (fun _ => by omega)
        (by simp at hf ⊢; omega)
      simp only [List.cons_append] at this
      rw [this, inRanges_cons, Bool.or_assoc]
      simp [h2]

/-- Model, converse: whatever `parseRanges` accepts is a class body. -/
theorem parseRanges_inv : ∀ (fuel : Nat) (q : Bytes), Ascii q → ∀ (r : Nat) (m : Bool) (nr : Nat)
    (m' : Bool) (rest : Bytes), parseRanges fuel q r m nr = some (m', rest) →
    ∃ body rs, q = body ++ rest ∧ CBody (decide (0 < nr)) body rs ∧ m' = (m || inRanges rs r) := by
  intro fuel
  induction fuel with
  | zero => intro q hq r m nr m' rest h; simp [parseRanges] at h
  | succ f ih =>
    intro q hq r m nr m' rest h
    cases q with
    | nil => simp [parseRanges] at h
    | cons c q1 =>
      rw [parseRanges] at h
      split at h
      · rename_i hclose
        simp only [Bool.and_eq_true, beq_iff_eq, decide_eq_true_eq] at hclose
        simp only [Option.some.injEq, Prod.mk.injEq] at h
        obtain ⟨rfl, rfl⟩ := h
        refine ⟨[Glob.cRBr], [], by simp [hclose.1], ?_, by simp [inRanges_nil]⟩
        have : decide (0 < nr) = true := by simp; exact hclose.2
        rw [this]; exact CBody.close
      · split at h
        · cases h
        · rename_i lo chunk1 hg
          obtain ⟨t, hqt, hm, hne⟩ := getEsc_inv hq hg
          have hc1 : Ascii chunk1 := by rw [hqt] at hq; exact hq.append_right
          split at h
          · rename_i d rest1
            split at h
            · rename_i hd
              simp only [beq_iff_eq] at hd
              subst hd
              split at h
              · cases h
              · rename_i hi chunk2 hg2
                obtain ⟨t2, hqt2, hm2, hne2⟩ := getEsc_inv hc1.cons.2 hg2
                have hc2 : Ascii chunk2 := by
                  have := hc1.cons.2; rw [hqt2] at this; exact this.append_right
                obtain ⟨body, rs, hb, hcb, hm'⟩ := ih chunk2 hc2 _ _ _ _ _ h
                refine ⟨t ++ Glob.cDash :: (t2 ++ body), (lo, hi) :: rs, ?_, ?_, ?_⟩
                · rw [hqt, hqt2, hb]; simp
                · exact CBody.range _ hm hm2 (by simpa using hcb)
                · rw [hm', inRanges_cons, Bool.or_assoc]
            · obtain ⟨body, rs, hb, hcb, hm'⟩ := ih _ hc1 _ _ _ _ _ h
              refine ⟨t ++ body, (lo, lo) :: rs, ?_, ?_, ?_⟩
              · rw [hqt, hb]; simp
              · exact CBody.single _ hm (by simpa using hcb)
              · rw [hm', inRanges_cons, Bool.or_assoc]
          · cases h

/-- Spec, forward. -/
theorem parseRangesS_cbody {b : Bool} {body : Bytes} {rs : List (Nat × Nat)} (h : CBody b body rs) :
    ∀ (fuel : Nat) (y : List Nat) (acc : List (Nat × Nat)),
      (b = true → acc ≠ []) → body.length ≤ fuel →
      parseRangesS fuel (nat body ++ y) acc = some (acc.reverse ++ rs, y) := by
  induction h with
  | close =>
    intro fuel y acc hb hf
    cases fuel with
    | zero => simp at hf
    | succ f => simp [parseRangesS, hb rfl, Glob.cRBr, GlobSpec.cRBr]
  | @single b t lo body rs hm hbody ih =>
    intro fuel y acc hb hf
    cases fuel with
    | zero =>
      have := hm.length_pos
      simp only [List.length_append] at hf; omega
    | succ f =>
      have hlen := hm.length_pos
      have hg := getEscS_member hm (nat body ++ y)
      obtain ⟨c, tl, rfl, h1, h2⟩ := hm.head
      obtain ⟨d, tl', rfl, hd, _⟩ := hbody.head
      simp only [nat, List.map_append, List.map_cons, List.append_assoc, List.cons_append] at hg ⊢
      rw [parseRangesS]
      simp only [hg, toNat_eq_cRBr, h2, false_and, ↓reduceIte, toNat_eq_cDash, hd]
      have := ih f y ((lo, lo) :: acc) (fun _ => by simp) (by simp at hf ⊢; omega)
      simp only [nat, List.map_cons, List.cons_append] at this
      rw [this]
      simp
  | @range b t1 t2 lo hi body rs hm1 hm2 hbody ih =>
    intro fuel y acc hb hf
    cases fuel with
    | zero =>
      have := hm1.length_pos
      simp only [List.length_append] at hf; omega
    | succ f =>
      have hlen := hm1.length_pos
      have hg := getEscS_member hm1 (nat (Glob.cDash :: (t2 ++ body)) ++ y)
      have hg2 := getEscS_member hm2 (nat body ++ y)
      obtain ⟨c, tl, rfl, h1, h2⟩ := hm1.head
      obtain ⟨d, tl', rfl, hd, _⟩ := hbody.head
      simp only [nat, List.map_append, List.map_cons, List.append_assoc, List.cons_append]
        at hg hg2 ⊢
      rw [parseRangesS]
      simp only [hg, hg2, toNat_eq_cRBr, h2, false_and, ↓reduceIte, toNat_eq_cDash]
      have := ih f y ((lo, hi) :: acc) (fun _ => by simp) (by simp at hf ⊢; omega)
      simp only [nat, List.map_cons, List.cons_append] at this
      rw [this]
      simp

/-- Spec, converse. -/
theorem parseRangesS_inv : ∀ (fuel : Nat) (q : Bytes), Ascii q → ∀ (acc : List (Nat × Nat))
    (rs' : List (Nat × Nat)) (rest' : List Nat),
    parseRangesS fuel (nat q) acc = some (rs', rest') →
    ∃ body rs rest, q = body ++ rest ∧ rest' = nat rest ∧
      CBody (decide (acc ≠ [])) body rs ∧ rs' = acc.reverse ++ rs := by
  intro fuel
  induction fuel with
  | zero => intro q hq acc rs' rest' h; simp [parseRangesS] at h
  | succ f ih =>
    intro q hq acc rs' rest' h
    cases q with
    | nil => simp [parseRangesS] at h
    | cons c q1 =>
      simp only [nat, List.map_cons] at h
      rw [parseRangesS] at h
      split at h
      · rename_i hclose
        simp only [toNat_eq_cRBr] at hclose
        simp only [Option.some.injEq, Prod.mk.injEq] at h
        obtain ⟨rfl, rfl⟩ := h
        refine ⟨[Glob.cRBr], [], q1, by simp [hclose.1], rfl, ?_, by simp⟩
        have : decide (acc ≠ []) = true := by simp; exact hclose.2
        rw [this]; exact CBody.close
      · split at h
        · cases h
        · rename_i lo chunk1 hg
          obtain ⟨t, r1, hqt, hr1, hm⟩ := getEscS_inv (q := c :: q1) hq (by simpa [nat] using hg)
          have hc1 : Ascii r1 := by rw [hqt] at hq; exact hq.append_right
          subst hr1
          cases r1 with
          | nil => simp at h
          | cons d rest1 =>
            simp only [nat, List.map_cons, toNat_eq_cDash] at h
            split at h
            · rename_i hd
              subst hd
              split at h
              · cases h
              · rename_i hi chunk2 hg2
                obtain ⟨t2, r2, hqt2, hr2, hm2⟩ := getEscS_inv hc1.cons.2 hg2
                have hc2 : Ascii r2 := by
                  have := hc1.cons.2; rw [hqt2] at this; exact this.append_right
                subst hr2
                obtain ⟨body, rs, rest, hb, hrest, hcb, hrs⟩ := ih r2 hc2 _ _ _ h
                refine ⟨t ++ Glob.cDash :: (t2 ++ body), (lo, hi) :: rs, rest, ?_, hrest, ?_, ?_⟩
                · rw [hqt, hqt2, hb]; simp
                · exact CBody.range _ hm hm2 (by simpa using hcb)
                · rw [hrs]; simp
            · have h' : parseRangesS f (nat (d :: rest1)) ((lo, lo) :: acc) = some (rs', rest') := by
                simpa [nat] using h
              obtain ⟨body, rs, rest, hb, hrest, hcb, hrs⟩ := ih _ hc1 _ _ _ h'
              refine ⟨t ++ body, (lo, lo) :: rs, rest, ?_, hrest, ?_, ?_⟩
              · rw [hqt, hb]; simp
              · exact CBody.single _ hm (by simpa using hcb)
              · rw [hrs]; simp

end InToto.GlobProofs
