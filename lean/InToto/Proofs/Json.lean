/-
Round trip of the JSON renderings through the model parsers (used by InToto/Properties/C11.lean).

Exports `Renderable`, `render_isSome_iff`, `parse_render_strict`, `parse_render_lenient`,
`render_injective`.  Helper lemmas: InToto/Proofs/JsonNum.lean (numbers), JsonStr.lean (string
literals), JsonVal.lean (unfolding of the parser on a known first character).

Core of the proof (`pval_all`): for every value `v` with `render esc false v = some s`, every
`strict` with `strict → esc`, every `fuel ≥ s.length` and every `rest` that is empty or starts with
`,` `]` `}`:  `parseVal strict fuel (s ++ rest) = some (v, rest)`; proved together with the
corresponding statements for `renderList`/`parseElems` and `renderMembers`/`parseMembers`
by the functional induction principle of `render`.
-/
import InToto.Proofs.JsonVal
namespace InToto.JsonProofs
open InToto InToto.Json

/-- what can follow a rendered value inside a rendering: end of input, `,`, `]` or `}` -/
def Follow (rest : Str) : Prop := ∀ c t, rest = c :: t → c = ',' ∨ c = ']' ∨ c = '}'

theorem Follow.numEnd {rest : Str} (h : Follow rest) : NumEnd rest := by
  intro c t hc
  rcases h c t hc with rfl | rfl | rfl <;> decide

theorem follow_nil : Follow [] := by intro c t h; cases h
theorem follow_comma (t : Str) : Follow (',' :: t) := by intro c t h; cases h; simp
theorem follow_rbrack (t : Str) : Follow (']' :: t) := by intro c t h; cases h; simp
theorem follow_rbrace (t : Str) : Follow ('}' :: t) := by intro c t h; cases h; simp

/-- Values the renderers accept: no opaque non-integral number, integers within int64. -/
inductive Renderable : JVal → Prop where
  | null : Renderable .null
  | bool (b : Bool) : Renderable (.bool b)
  | num (i : Int) : int64Min ≤ i → i ≤ int64Max → Renderable (.num i)
  | str (s : Str) : Renderable (.str s)
  | arr (l : List JVal) : (∀ v ∈ l, Renderable v) → Renderable (.arr l)
  | obj (l : List (Str × JVal)) : (∀ kv ∈ l, Renderable kv.2) → Renderable (.obj l)

theorem renderInt_start (i : Int) : ∃ c t, renderInt i = c :: t ∧ (c = '-' ∨ isDigit c = true) := by
  cases i with
  | ofNat n =>
    have hne := natDigits_ne_nil (n + 1) n (by omega)
    obtain ⟨c, t, h⟩ := List.exists_cons_of_ne_nil hne
    refine ⟨c, t, by simpa [renderInt, renderNat] using h, Or.inr ?_⟩
    exact natDigits_all (n + 1) n c (by simp [h])
  | negSucc n => exact ⟨'-', _, rfl, Or.inl rfl⟩

/-- a rendered value starts with a character that is neither whitespace nor a closing bracket -/
theorem render_start (esc : Bool) (v : JVal) (s : Str) (h : render esc false v = some s) :
    ∃ c t, s = c :: t ∧ isWs c = false ∧ c ≠ ']' ∧ c ≠ '}' := by
  cases v with
  | null => simp [render] at h; subst h; exact ⟨_, _, rfl, by decide⟩
  | bool b => cases b <;> (simp [render] at h; subst h; exact ⟨_, _, rfl, by decide⟩)
  | num i =>
    simp [render] at h
    obtain ⟨_, rfl⟩ := h
    obtain ⟨c, t, h1, h2⟩ := renderInt_start i
    obtain ⟨hw, _, _, _, _, _, _, hb, hc⟩ := numStart_facts c h2
    exact ⟨c, t, h1, hw, hb, hc⟩
  | frac l => simp [render] at h
  | str s0 => simp [render, renderStr] at h; subst h; exact ⟨_, _, rfl, by decide⟩
  | arr l =>
    simp [render] at h
    obtain ⟨b, _, rfl⟩ := h
    exact ⟨_, _, rfl, by decide⟩
  | obj l =>
    simp [render] at h
    obtain ⟨b, _, rfl⟩ := h
    exact ⟨_, _, rfl, by decide⟩


theorem renderList_start (esc : Bool) (l : List JVal) (hne : l ≠ []) (body : Str)
    (h : renderList esc false l = some body) :
    ∃ c t, body = c :: t ∧ isWs c = false ∧ c ≠ ']' := by
  match l, hne with
  | [v], _ =>
    simp only [renderList] at h
    obtain ⟨c, t, h1, h2, h3, _⟩ := render_start esc v body h
    exact ⟨c, t, h1, h2, h3⟩
  | v :: w :: rest, _ =>
    simp only [renderList] at h
    split at h
    · rename_i a b ha hb
      cases h
      obtain ⟨c, t, rfl, h2, h3, _⟩ := render_start esc v a ha
      exact ⟨c, _, rfl, h2, h3⟩
    · cases h

theorem renderMembers_start (esc : Bool) (l : List (Str × JVal)) (hne : l ≠ []) (body : Str)
    (h : renderMembers esc false l = some body) : ∃ t, body = '"' :: t := by
  match l, hne with
  | [(k, v)], _ =>
    simp only [renderMembers, renderStr, Option.map_eq_some_iff] at h
    obtain ⟨a, _, rfl⟩ := h
    exact ⟨_, rfl⟩
  | (k, v) :: w :: rest, _ =>
    simp only [renderMembers, renderStr] at h
    split at h
    · cases h; exact ⟨_, rfl⟩
    · cases h

/-- statement for values -/
def PVal (esc : Bool) (v : JVal) : Prop :=
  ∀ s, render esc false v = some s → ∀ strict : Bool, (strict = true → esc = true) →
    ∀ fuel rest, s.length ≤ fuel → Follow rest → parseVal strict fuel (s ++ rest) = some (v, rest)

/-- statement for the elements of a non-empty array, up to and including the closing bracket -/
def PList (esc : Bool) (l : List JVal) : Prop :=
  ∀ body, l ≠ [] → renderList esc false l = some body → ∀ strict : Bool, (strict = true → esc = true) →
    ∀ fuel rest, body.length + 1 ≤ fuel → parseElems strict fuel (body ++ ']' :: rest) = some (l, rest)

/-- statement for the members of a non-empty object, up to and including the closing brace -/
def PMem (esc : Bool) (l : List (Str × JVal)) : Prop :=
  ∀ body, l ≠ [] → renderMembers esc false l = some body → ∀ strict : Bool, (strict = true → esc = true) →
    ∀ fuel rest, body.length + 1 ≤ fuel → parseMembers strict fuel (body ++ '}' :: rest) = some (l, rest)

theorem pval_null (esc : Bool) : PVal esc .null := by
  intro s h strict _ fuel rest hf _
  simp [render] at h; subst h
  obtain ⟨g, rfl⟩ : ∃ g, fuel = g + 1 := ⟨fuel - 1, by simp at hf; omega⟩
  exact parseVal_null ..

theorem pval_bool (esc : Bool) (b : Bool) : PVal esc (.bool b) := by
  intro s h strict _ fuel rest hf _
  cases b
  · simp [render] at h; subst h
    obtain ⟨g, rfl⟩ : ∃ g, fuel = g + 1 := ⟨fuel - 1, by simp at hf; omega⟩
    exact parseVal_false ..
  · simp [render] at h; subst h
    obtain ⟨g, rfl⟩ : ∃ g, fuel = g + 1 := ⟨fuel - 1, by simp at hf; omega⟩
    exact parseVal_true ..

theorem pval_num (esc : Bool) (i : Int) : PVal esc (.num i) := by
  intro s h strict _ fuel rest hf hfol
  simp [render] at h
  obtain ⟨_, rfl⟩ := h
  obtain ⟨c, t, h1, h2⟩ := renderInt_start i
  obtain ⟨g, rfl⟩ : ∃ g, fuel = g + 1 := ⟨fuel - 1, by simp [h1] at hf; omega⟩
  have := parseNum_renderInt i rest hfol.numEnd
  rw [h1] at this ⊢
  rw [List.cons_append, parseVal_num strict g c _ h2]
  exact this

theorem pval_frac (esc : Bool) (l : Str) : PVal esc (.frac l) := by
  intro s h; simp [render] at h

theorem pval_str (esc : Bool) (s0 : Str) : PVal esc (.str s0) := by
  intro s h strict hse fuel rest hf _
  simp [render, renderStr] at h; subst h
  obtain ⟨g, rfl⟩ : ∃ g, fuel = g + 1 := ⟨fuel - 1, by simp at hf; omega⟩
  simp only [List.cons_append, List.append_assoc, parseVal_str]
  have := parseStrBody_renderStr strict esc hse s0 rest
  simp only [List.nil_append] at this ⊢
  rw [this]; rfl

theorem pval_arr (esc : Bool) (l : List JVal) (ih : PList esc l) : PVal esc (.arr l) := by
  intro s h strict hse fuel rest hf _
  simp only [render, Option.map_eq_some_iff] at h
  obtain ⟨body, hb, rfl⟩ := h
  obtain ⟨g, rfl⟩ : ∃ g, fuel = g + 1 := ⟨fuel - 1, by simp at hf; omega⟩
  by_cases hl : l = []
  · subst hl
    simp [renderList] at hb; subst hb
    exact parseVal_emptyArr ..
  · obtain ⟨c, t, hct, hws, hc⟩ := renderList_start esc l hl body hb
    have := ih body hl hb strict hse g rest (by simp at hf; omega)
    simp only [List.cons_append, List.append_assoc, List.nil_append] at this ⊢
    rw [hct] at this ⊢
    rw [List.cons_append] at this ⊢
    rw [parseVal_arr strict g c _ hws hc, this]; rfl

theorem pval_obj (esc : Bool) (l : List (Str × JVal)) (ih : PMem esc l) : PVal esc (.obj l) := by
  intro s h strict hse fuel rest hf _
  simp only [render, Option.map_eq_some_iff] at h
  obtain ⟨body, hb, rfl⟩ := h
  obtain ⟨g, rfl⟩ : ∃ g, fuel = g + 1 := ⟨fuel - 1, by simp at hf; omega⟩
  by_cases hl : l = []
  · subst hl
    simp [renderMembers] at hb; subst hb
    exact parseVal_emptyObj ..
  · obtain ⟨t, hct⟩ := renderMembers_start esc l hl body hb
    have := ih body hl hb strict hse g rest (by simp at hf; omega)
    simp only [List.cons_append, List.append_assoc, List.nil_append] at this ⊢
    rw [hct] at this ⊢
    rw [List.cons_append] at this ⊢
    rw [parseVal_obj strict g '"' _ (by decide) (by decide), this]; rfl

theorem plist_one (esc : Bool) (v : JVal) (ih : PVal esc v) : PList esc [v] := by
  intro body _ h strict hse fuel rest hf
  simp only [renderList] at h
  obtain ⟨g, rfl⟩ : ∃ g, fuel = g + 1 := ⟨fuel - 1, by omega⟩
  exact parseElems_last strict g _ v rest (ih body h strict hse g (']' :: rest) (by omega) (follow_rbrack _))

theorem plist_more (esc : Bool) (v w : JVal) (l : List JVal) (ih1 : PVal esc v) (ih2 : PList esc (w :: l)) :
    PList esc (v :: w :: l) := by
  intro body _ h strict hse fuel rest hf
  simp only [renderList] at h
  split at h
  · rename_i a b ha hb
    cases h
    obtain ⟨g, rfl⟩ : ∃ g, fuel = g + 1 := ⟨fuel - 1, by omega⟩
    simp only [List.length_append, List.length_cons] at hf
    have h1 := ih1 a ha strict hse g (',' :: (b ++ ']' :: rest)) (by omega) (follow_comma _)
    have h2 := ih2 b (by simp) hb strict hse g rest (by omega)
    simp only [List.append_assoc, List.cons_append]
    rw [parseElems_more strict g _ v _ h1, h2]; rfl
  · cases h

theorem pmem_one (esc : Bool) (k : Str) (v : JVal) (ih : PVal esc v) : PMem esc [(k, v)] := by
  intro body _ h strict hse fuel rest hf
  simp only [renderMembers, Option.map_eq_some_iff] at h
  obtain ⟨a, ha, rfl⟩ := h
  obtain ⟨g, rfl⟩ : ∃ g, fuel = g + 1 := ⟨fuel - 1, by omega⟩
  simp only [renderStr, List.length_append, List.length_cons] at hf
  have hk := parseStrBody_renderStr strict esc hse k (':' :: (a ++ '}' :: rest))
  have hv := ih a ha strict hse g ('}' :: rest) (by omega) (follow_rbrace _)
  simp only [renderStr, List.append_assoc, List.cons_append, List.nil_append]
  exact parseMembers_last strict g _ k _ v rest hk hv

theorem pmem_more (esc : Bool) (k : Str) (v : JVal) (m : Str × JVal) (l : List (Str × JVal))
    (ih1 : PVal esc v) (ih2 : PMem esc (m :: l)) : PMem esc ((k, v) :: m :: l) := by
  intro body _ h strict hse fuel rest hf
  simp only [renderMembers] at h
  split at h
  · rename_i a b ha hb
    cases h
    obtain ⟨g, rfl⟩ : ∃ g, fuel = g + 1 := ⟨fuel - 1, by omega⟩
    simp only [renderStr, List.length_append, List.length_cons] at hf
    have hk := parseStrBody_renderStr strict esc hse k (':' :: (a ++ ',' :: (b ++ '}' :: rest)))
    have h1 := ih1 a ha strict hse g (',' :: (b ++ '}' :: rest)) (by omega) (follow_comma _)
    have h2 := ih2 b (by simp) hb strict hse g rest (by omega)
    simp only [renderStr, List.append_assoc, List.cons_append, List.nil_append]
    rw [parseMembers_more strict g _ k _ v _ hk h1, h2]; rfl
  · cases h

theorem pval_all (esc : Bool) (v : JVal) : PVal esc v := by
  refine render.induct esc false (PVal esc) (PMem esc) (PList esc)
    (pval_null esc) (pval_bool esc true) (pval_bool esc false)
    (fun i _ => pval_num esc i) (fun i _ => pval_num esc i)
    (fun l _ => pval_frac esc l) (fun l _ => pval_frac esc l)
    (pval_str esc) (pval_arr esc) (pval_obj esc)
    (fun _ h => absurd rfl h) (plist_one esc)
    (fun v w rest _ _ _ _ ih1 ih2 => plist_more esc v w rest ih1 ih2)
    (fun v w rest _ ih1 ih2 => plist_more esc v w rest ih1 ih2)
    (fun _ h => absurd rfl h) (pmem_one esc)
    (fun k v m rest _ _ _ _ ih1 ih2 => pmem_more esc k v m rest ih1 ih2)
    (fun k v m rest _ ih1 ih2 => pmem_more esc k v m rest ih1 ih2) v


theorem parseWith_render (strict esc : Bool) (hse : strict = true → esc = true) (v : JVal) (s : Str)
    (h : render esc false v = some s) : parseWith strict s = some v := by
  have := pval_all esc v s h strict hse (s.length + 1) [] (by omega) follow_nil
  rw [List.append_nil] at this
  simp [parseWith, this, skipWs]

theorem renderable_arr_iff (l : List JVal) : Renderable (.arr l) ↔ ∀ v ∈ l, Renderable v :=
  ⟨fun h => by cases h; assumption, Renderable.arr l⟩

theorem renderable_obj_iff (l : List (Str × JVal)) : Renderable (.obj l) ↔ ∀ kv ∈ l, Renderable kv.2 :=
  ⟨fun h => by cases h; assumption, Renderable.obj l⟩

/-- rendering succeeds exactly on renderable values (so refusal is the only alternative to exact bytes) -/
theorem render_isSome_iff (esc : Bool) (v : JVal) : (render esc false v).isSome = true ↔ Renderable v := by
  refine render.induct esc false
    (fun v => (render esc false v).isSome = true ↔ Renderable v)
    (fun l => (renderMembers esc false l).isSome = true ↔ ∀ kv ∈ l, Renderable kv.2)
    (fun l => (renderList esc false l).isSome = true ↔ ∀ v ∈ l, Renderable v)
    ?_ ?_ ?_ ?_ ?_ ?_ ?_ ?_ ?_ ?_ ?_ ?_ ?_ ?_ ?_ ?_ ?_ ?_ v
  · simp [render, Renderable.null]
  · simp [render, Renderable.bool]
  · simp [render, Renderable.bool]
  · intro i h
    have h' : int64Min ≤ i ∧ i ≤ int64Max := by simpa using h
    simp [render, h', Renderable.num i h'.1 h'.2]
  · intro i h
    have h' : ¬(int64Min ≤ i ∧ i ≤ int64Max) := by simpa using h
    simp only [render, Bool.false_eq_true, false_or, h', ↓reduceIte, Option.isSome_none, false_iff]
    intro hr; cases hr; exact h' ⟨by assumption, by assumption⟩
  · intro l h; cases h
  · intro l _
    simp only [render, Bool.false_eq_true, ↓reduceIte, Option.isSome_none, false_iff]
    intro hr; cases hr
  · intro s; simp [render, Renderable.str]
  · intro l ih
    rw [renderable_arr_iff, ← ih]; simp [render]
  · intro l ih
    rw [renderable_obj_iff, ← ih]; simp [render]
  · simp [renderList]
  · intro v ih; simp [renderList, ih]
  · intro v w rest a b hb ha ih1 ih2
    simp only [renderList, ha, hb, Option.isSome_some, true_iff]
    rw [ha] at ih1; rw [hb] at ih2
    intro x hx
    rcases List.mem_cons.1 hx with rfl | hx
    · exact ih1.1 rfl
    · exact ih2.1 rfl x hx
  · intro v w rest hnone ih1 ih2
    have : renderList esc false (v :: w :: rest) = none := by
      simp only [renderList]
    simp only [this, Option.isSome_none, Bool.false_eq_true, false_iff]
    intro hall
    have h1 := ih1.2 (hall v (by simp))
    have h2 := ih2.2 (fun x hx => hall x (List.mem_cons_of_mem _ hx))
    obtain ⟨a, ha⟩ := Option.isSome_iff_exists.1 h1
    obtain ⟨b, hb⟩ := Option.isSome_iff_exists.1 h2
    exact hnone a b ha hb
  · simp [renderMembers]
  · intro k v ih; simp [renderMembers, ih]
  · intro k v m rest a b hb ha ih1 ih2
    simp only [renderMembers, ha, hb, Option.isSome_some, true_iff]
    rw [ha] at ih1; rw [hb] at ih2
    intro x hx
    rcases List.mem_cons.1 hx with rfl | hx
    · exact ih1.1 rfl
    · exact ih2.1 rfl x hx
  · intro k v m rest hnone ih1 ih2
    have : renderMembers esc false ((k, v) :: m :: rest) = none := by
      simp only [renderMembers]
    simp only [this, Option.isSome_none, Bool.false_eq_true, false_iff]
    intro hall
    have h1 := ih1.2 (hall (k, v) (by simp))
    have h2 := ih2.2 (fun x hx => hall x (List.mem_cons_of_mem _ hx))
    obtain ⟨a, ha⟩ := Option.isSome_iff_exists.1 h1
    obtain ⟨b, hb⟩ := Option.isSome_iff_exists.1 h2
    exact hnone a b ha hb

/-- MAIN: the strict parser reads the escaped (DSSE payload) rendering back to exactly the value. -/
theorem parse_render_strict (v : JVal) (s : Str) (h : render true false v = some s) :
    parseJ s = some v :=
  parseWith_render true true (fun _ => rfl) v s h

/-- MAIN: a reader that tolerates raw control characters reads the OLPC rendering back. -/
theorem parse_render_lenient (esc : Bool) (v : JVal) (s : Str) (h : render esc false v = some s) :
    parseLenient s = some v :=
  parseWith_render false esc (fun h => by cases h) v s h

/-- hence both renderings are injective -/
theorem render_injective (esc : Bool) (a b : JVal) (s : Str)
    (ha : render esc false a = some s) (hb : render esc false b = some s) : a = b := by
  have h1 := parse_render_lenient esc a s ha
  have h2 := parse_render_lenient esc b s hb
  rw [h1] at h2
  exact Option.some.inj h2

end InToto.JsonProofs
