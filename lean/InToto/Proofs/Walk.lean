import InToto.Model.Record
import InToto.Proofs.Record

/-!
C13 (walk completeness and exactness): on a tree without symbolic links, recording yields EXACTLY
one entry per regular file that is not excluded — under its path with the first matching strip
prefix removed, carrying the digests for the requested algorithms — and nothing else.
-/

namespace InToto.WalkProofs
open InToto InToto.Record

/-- the tree contains no symbolic links -/
def symlinkFree : Node → Bool
  | .file _ => true
  | .dir ch => go ch
  | _ => false
where go : List (Str × Node) → Bool
  | [] => true
  | (_, c) :: rest => symlinkFree c && go rest

/-- `FileAt p node q d`: walking `node`, located at path `p`, reaches a regular file at path `q`
    whose digest table is `d` (declarative: no order, no fuel) -/
inductive FileAt : Str → Node → Str → List (Str × Str) → Prop where
  | here (p : Str) (d : List (Str × Str)) : FileAt p (.file d) p d
  | child (p n : Str) (c : Node) (ch : List (Str × Node)) (q : Str) (d : List (Str × Str)) :
      (n, c) ∈ ch → FileAt (joinPath p n) c q d → FileAt p (.dir ch) q d

/-! ### helper lemmas -/

theorem mem_insertSorted {α} (lt : α → α → Bool) (x y : α) (l : List α) :
    y ∈ insertSorted lt x l ↔ y = x ∨ y ∈ l := by
  induction l with
  | nil => simp [insertSorted]
  | cons z zs ih =>
    simp only [insertSorted]
    split
    · simp
    · simp only [List.mem_cons, ih]; grind

theorem mem_sortBy {α} (lt : α → α → Bool) (y : α) (l : List α) : y ∈ sortBy lt l ↔ y ∈ l := by
  induction l with
  | nil => simp [sortBy]
  | cons z zs ih =>
    have : sortBy lt (z :: zs) = insertSorted lt z (sortBy lt zs) := rfl
    rw [this, mem_insertSorted, ih]; simp

theorem go_iff (l : List (Str × Node)) : symlinkFree.go l = true ↔ ∀ x ∈ l, symlinkFree x.2 = true := by
  induction l with
  | nil => simp [symlinkFree.go]
  | cons x xs ih =>
    obtain ⟨n, c⟩ := x
    simp [symlinkFree.go, ih]

theorem sizeList_insertSorted (lt) (x : Str × Node) (l : List (Str × Node)) :
    nodeSize.sizeList (insertSorted lt x l) = nodeSize x.2 + nodeSize.sizeList l + 1 := by
  induction l with
  | nil => simp [insertSorted, nodeSize.sizeList]
  | cons z zs ih =>
    simp only [insertSorted]
    split
    · simp [nodeSize.sizeList]
    · simp [nodeSize.sizeList, ih]; omega

theorem sizeList_sortChildren (l : List (Str × Node)) :
    nodeSize.sizeList (sortChildren l) = nodeSize.sizeList l := by
  induction l with
  | nil => simp [sortChildren, sortBy]
  | cons z zs ih =>
    have : sortChildren (z :: zs) = insertSorted (fun a b => Json.strLt a.1 b.1) z (sortChildren zs) := rfl
    rw [this, sizeList_insertSorted, ih]; simp [nodeSize.sizeList]

theorem mem_sortChildren (y : Str × Node) (l : List (Str × Node)) : y ∈ sortChildren l ↔ y ∈ l :=
  mem_sortBy _ y l

theorem go_sortChildren (l : List (Str × Node)) : symlinkFree.go (sortChildren l) = symlinkFree.go l := by
  rw [Bool.eq_iff_iff, go_iff, go_iff]
  simp only [mem_sortChildren]

/-- the entry `e` is the record of a non-excluded regular file below `node` (located at `p`) -/
def Rec (cfg : Cfg) (p : Str) (node : Node) (e : Str × List (Str × Str)) : Prop :=
  ∃ q d hh, FileAt p node q d ∧ cfg.ignored q = false ∧
      hashObj d cfg.algs = some hh ∧ e = (stripPath cfg.lstrip q, hh)

def RecL (cfg : Cfg) (dir : Str) (l : List (Str × Node)) (e : Str × List (Str × Str)) : Prop :=
  ∃ n c, (n, c) ∈ l ∧ Rec cfg (joinPath dir n) c e

theorem rec_dir (cfg : Cfg) (p : Str) (ch : List (Str × Node)) (e) :
    Rec cfg p (.dir ch) e ↔ RecL cfg p ch e := by
  constructor
  · rintro ⟨q, d, hh, hf, h1, h2, h3⟩
    cases hf with
    | child _ n c _ _ _ hm hf' => exact ⟨n, c, hm, q, d, hh, hf', h1, h2, h3⟩
  · rintro ⟨n, c, hm, q, d, hh, hf, h1, h2, h3⟩
    exact ⟨q, d, hh, FileAt.child p n c ch q d hm hf, h1, h2, h3⟩

theorem recL_sort (cfg : Cfg) (p : Str) (ch : List (Str × Node)) (e) :
    RecL cfg p (sortChildren ch) e ↔ RecL cfg p ch e := by
  simp only [RecL, mem_sortChildren]

theorem recL_nil (cfg : Cfg) (p : Str) (e) : ¬ RecL cfg p [] e := by
  rintro ⟨n, c, hm, _⟩; simp at hm

theorem recL_cons (cfg : Cfg) (p n : Str) (c : Node) (rest : List (Str × Node)) (e) :
    RecL cfg p ((n, c) :: rest) e ↔ Rec cfg (joinPath p n) c e ∨ RecL cfg p rest e := by
  constructor
  · rintro ⟨n', c', hm, hr⟩
    rcases List.mem_cons.1 hm with h | h
    · cases h; exact Or.inl hr
    · exact Or.inr ⟨n', c', h, hr⟩
  · rintro (hr | ⟨n', c', hm, hr⟩)
    · exact ⟨n, c, List.mem_cons_self, hr⟩
    · exact ⟨n', c', List.mem_cons_of_mem _ hm, hr⟩

theorem lookup_none_not_mem {β} (k : Str) (l : List (Str × β)) (h : lookup k l = none) :
    k ∉ l.map Prod.fst := by
  induction l with
  | nil => simp
  | cons x xs ih =>
    obtain ⟨k', v⟩ := x
    simp only [lookup] at h
    split at h
    · cases h
    · simp only [List.map_cons, List.mem_cons, not_or]
      exact ⟨fun e => ‹¬ k' = k› e.symm, ih h⟩

/-- appending an entry under a name that is not yet taken keeps the names pairwise distinct -/
theorem nodup_append_fresh {β} (acc : List (Str × β)) (k : Str) (v : β)
    (hl : ¬ (lookup k acc).isSome = true) (hn : (acc.map Prod.fst).Nodup) :
    ((acc ++ [(k, v)]).map Prod.fst).Nodup := by
  have hl' : lookup k acc = none := by
    cases hlk : lookup k acc with
    | none => rfl
    | some v => rw [hlk] at hl; simp at hl
  have := lookup_none_not_mem _ _ hl'
  simp only [List.map_append, List.map_cons, List.map_nil]
  rw [List.nodup_append]
  refine ⟨hn, by simp, ?_⟩
  intro a ha b hb
  simp only [List.mem_singleton] at hb
  subst hb
  intro hab; subst hab; exact this ha

/-- a successful merge appends the new entries, in order, and keeps the names pairwise distinct -/
theorem mergeUnique_ok (sub acc m : ArtMap) (h : mergeUnique acc sub = .ok m) :
    m = acc ++ sub ∧ ((acc.map Prod.fst).Nodup → (m.map Prod.fst).Nodup) := by
  induction sub generalizing acc with
  | nil =>
    simp only [mergeUnique, Outcome.ok.injEq] at h
    subst h
    exact ⟨by simp, id⟩
  | cons x xs ih =>
    obtain ⟨k, v⟩ := x
    simp only [mergeUnique] at h
    split at h
    · cases h
    · rename_i hl
      obtain ⟨h1, h2⟩ := ih _ h
      exact ⟨by rw [h1]; simp, fun hn => h2 (nodup_append_fresh acc k v hl hn)⟩

/-- the only error of a merge is the uniqueness error -/
theorem mergeUnique_err (sub acc : ArtMap) (s : String) (h : mergeUnique acc sub = .err s) :
    s = "not-unique" := by
  induction sub generalizing acc with
  | nil => simp [mergeUnique] at h
  | cons x xs ih =>
    obtain ⟨k, v⟩ := x
    simp only [mergeUnique] at h
    split at h
    · simp only [Outcome.err.injEq] at h; exact h.symm
    · exact ih _ h

/-- what a successful walk returns: the accumulator, extended by exactly the records, keys distinct -/
def Spec (acc m : ArtMap) (R : Str × List (Str × Str) → Prop) : Prop :=
  ∃ ext, m = acc ++ ext ∧ (∀ e, e ∈ ext ↔ R e) ∧ ((acc.map Prod.fst).Nodup → (m.map Prod.fst).Nodup)

theorem spec_aux (cfg : Cfg) (fuel : Nat) :
    (∀ path node acc m, symlinkFree node = true → visit cfg fuel path node acc = .ok m →
      Spec acc m (Rec cfg path node)) ∧
    (∀ dir l acc m, symlinkFree.go l = true → visitChildren cfg fuel dir l acc = .ok m →
      Spec acc m (RecL cfg dir l)) := by
  induction fuel with
  | zero =>
    constructor
    · intro path node acc m _ h; simp [visit] at h
    · intro dir l acc m _ h; simp [visitChildren] at h
  | succ fuel ih =>
    obtain ⟨ihv, ihc⟩ := ih
    constructor
    · intro path node acc m hsf h
      cases node with
      | file d =>
        simp only [visit] at h
        split at h
        · -- ignored
          rename_i hig
          simp only [Outcome.ok.injEq] at h
          subst h
          refine ⟨[], by simp, ?_, by simp⟩
          intro e
          simp only [List.not_mem_nil, false_iff]
          rintro ⟨q, d', hh, hf, h1, _⟩
          cases hf
          rw [hig] at h1; cases h1
        · rename_i hig
          split at h
          · cases h
          · rename_i hh hho
            split at h
            · cases h
            · rename_i hl
              simp only [Outcome.ok.injEq] at h
              subst h
              refine ⟨[(stripPath cfg.lstrip path, hh)], rfl, ?_, ?_⟩
              · intro e
                simp only [List.mem_singleton]
                constructor
                · intro he
                  exact ⟨path, d, hh, FileAt.here path d, by simpa using hig, hho, he⟩
                · rintro ⟨q, d', hh', hf, h1, h2, h3⟩
                  cases hf
                  rw [hho] at h2; cases h2
                  exact h3
              · exact fun hn => nodup_append_fresh acc _ hh hl hn
      | dir ch =>
        have hc : visitChildren cfg fuel path (sortChildren ch) acc = .ok m := by
          simp only [visit] at h
          split at h <;> exact h
        have hsf' : symlinkFree.go (sortChildren ch) = true := by
          rw [go_sortChildren]; simpa [symlinkFree] using hsf
        obtain ⟨ext, h1, h2, h3⟩ := ihc path (sortChildren ch) acc m hsf' hc
        refine ⟨ext, h1, ?_, h3⟩
        intro e
        rw [h2, recL_sort, rec_dir]
      | symFile d => simp [symlinkFree] at hsf
      | symDir ch => simp [symlinkFree] at hsf
      | dangling => simp [symlinkFree] at hsf
    · intro dir l acc m hsf h
      cases l with
      | nil =>
        simp only [visitChildren, Outcome.ok.injEq] at h
        subst h
        exact ⟨[], by simp, fun e => by simp [recL_nil], by simp⟩
      | cons hd rest =>
        obtain ⟨n, c⟩ := hd
        simp only [symlinkFree.go, Bool.and_eq_true] at hsf
        simp only [visitChildren] at h
        split at h
        · rename_i acc1 hv
          obtain ⟨ext1, a1, a2, a3⟩ := ihv _ _ _ _ hsf.1 hv
          obtain ⟨ext2, b1, b2, b3⟩ := ihc _ _ _ _ hsf.2 h
          refine ⟨ext1 ++ ext2, by rw [b1, a1, List.append_assoc], ?_, fun hn => b3 (a3 hn)⟩
          intro e
          rw [List.mem_append, a2, b2, recL_cons]
        · rename_i hne
          exact absurd h (hne m)

theorem fuel_aux (cfg : Cfg) (fuel : Nat) :
    (∀ path node acc, nodeSize node + 1 ≤ fuel → visit cfg fuel path node acc ≠ .err "depth") ∧
    (∀ dir l acc, nodeSize.sizeList l + 1 ≤ fuel → visitChildren cfg fuel dir l acc ≠ .err "depth") := by
  induction fuel with
  | zero =>
    constructor
    · intro path node acc h; omega
    · intro dir l acc h; omega
  | succ fuel ih =>
    obtain ⟨ihv, ihc⟩ := ih
    constructor
    · intro path node acc hf
      cases node with
      | file d =>
        simp only [visit]
        split
        · simp
        · split
          · simp
          · split <;> simp
      | dir ch =>
        have hc := ihc path (sortChildren ch) acc (by rw [sizeList_sortChildren]; simp [nodeSize] at hf; omega)
        simp only [visit]
        split <;> exact hc
      | symFile d =>
        simp only [visit]
        split
        · simp
        · split
          · simp
          · split <;> simp
      | symDir ch =>
        have hc := ihc path (sortChildren ch) [] (by rw [sizeList_sortChildren]; simp [nodeSize] at hf; omega)
        simp only [visit]
        split
        · simp
        · split
          · simp
          · split
            · intro he
              have := mergeUnique_err _ _ _ he
              simp at this
            · exact hc
      | dangling =>
        simp only [visit]
        split <;> simp
    · intro dir l acc hf
      cases l with
      | nil => simp [visitChildren]
      | cons hd rest =>
        obtain ⟨n, c⟩ := hd
        simp only [nodeSize.sizeList] at hf
        have hv := ihv (joinPath dir n) c acc (by omega)
        simp only [visitChildren]
        split
        · exact ihc _ _ _ (by omega)
        · exact hv

theorem unsupported_aux (cfg : Cfg) (q : Str) (d : List (Str × Str))
    (hi : cfg.ignored q = false) (hh : hashObj d cfg.algs = none) (fuel : Nat) :
    (∀ path node acc, FileAt path node q d → (visit cfg fuel path node acc).isOk = false) ∧
    (∀ dir l acc n c, (n, c) ∈ l → FileAt (joinPath dir n) c q d →
      (visitChildren cfg fuel dir l acc).isOk = false) := by
  induction fuel with
  | zero =>
    constructor
    · intro path node acc _; simp [visit, Outcome.isOk]
    · intro dir l acc n c _ _; simp [visitChildren, Outcome.isOk]
  | succ fuel ih =>
    obtain ⟨ihv, ihc⟩ := ih
    constructor
    · intro path node acc hf
      cases hf with
      | here =>
        simp [visit, hi, hh, Outcome.isOk]
      | child _ n c ch _ _ hm hf' =>
        have hc := ihc path (sortChildren ch) acc n c ((mem_sortChildren _ _).2 hm) hf'
        simp only [visit]
        split <;> exact hc
    · intro dir l acc n c hm hf
      cases l with
      | nil => simp at hm
      | cons hd rest =>
        obtain ⟨n', c'⟩ := hd
        simp only [visitChildren]
        rcases List.mem_cons.1 hm with hm | hm
        · cases hm
          have hv := ihv (joinPath dir n) c acc hf
          split
          · rename_i hv'; rw [hv'] at hv; simp [Outcome.isOk] at hv
          · exact hv
        · split
          · exact ihc dir rest _ n c hm hf
          · rename_i hne
            cases hv : visit cfg fuel (joinPath dir n') c' acc with
            | ok a => exact absurd hv (hne a)
            | err s => rfl
            | panic s => rfl

/-! ### the statements -/

/-- C13 (exactly the regular files): if the walk of a symlink-free tree succeeds, an entry is in the
    result iff it was there before or it is the entry of a regular file of the tree that is not
    excluded: key = its path with the first matching strip prefix removed, value = its digests for
    the requested algorithms -/
theorem visit_ok_mem (cfg : Cfg) (fuel : Nat) (path : Str) (node : Node) (acc m : ArtMap)
    (hsf : symlinkFree node = true) (h : visit cfg fuel path node acc = .ok m) (e : Str × List (Str × Str)) :
    e ∈ m ↔ e ∈ acc ∨ ∃ q d hh, FileAt path node q d ∧ cfg.ignored q = false ∧
      hashObj d cfg.algs = some hh ∧ e = (stripPath cfg.lstrip q, hh) := by
  obtain ⟨ext, h1, h2, _⟩ := (spec_aux cfg fuel).1 path node acc m hsf h
  subst h1
  rw [List.mem_append, h2]
  rfl

/-- C13 (one entry per name): the keys of the result are pairwise distinct if they were before —
    two files that would be recorded under one name are an error, never a silent overwrite -/
theorem visit_ok_nodup (cfg : Cfg) (fuel : Nat) (path : Str) (node : Node) (acc m : ArtMap)
    (hsf : symlinkFree node = true) (h : visit cfg fuel path node acc = .ok m)
    (hn : (acc.map Prod.fst).Nodup) : (m.map Prod.fst).Nodup := by
  obtain ⟨ext, _, _, h3⟩ := (spec_aux cfg fuel).1 path node acc m hsf h
  exact h3 hn

/-- what was recorded before is kept, in place: the result extends the accumulator -/
theorem visit_ok_prefix (cfg : Cfg) (fuel : Nat) (path : Str) (node : Node) (acc m : ArtMap)
    (hsf : symlinkFree node = true) (h : visit cfg fuel path node acc = .ok m) :
    ∃ ext, m = acc ++ ext := by
  obtain ⟨ext, h1, _, _⟩ := (spec_aux cfg fuel).1 path node acc m hsf h
  exact ⟨ext, h1⟩

/-- every regular file that is not excluded must be hashable: an unsupported algorithm anywhere in
    the tree fails the walk (never a partial record) -/
theorem visit_unsupported_fails (cfg : Cfg) (fuel : Nat) (path : Str) (node : Node) (acc : ArtMap)
    (hsf : symlinkFree node = true) (q : Str) (d : List (Str × Str))
    (hf : FileAt path node q d) (hi : cfg.ignored q = false) (hh : hashObj d cfg.algs = none) :
    (visit cfg fuel path node acc).isOk = false := by
  have _ := hsf  -- not needed: the failure does not depend on the rest of the tree
  exact (unsupported_aux cfg q d hi hh fuel).1 path node acc hf

/-- the fuel `recordArtifacts` starts with always suffices: the walk never ends with "depth" -/
theorem visit_fuel_suffices (cfg : Cfg) (fuel : Nat) (path : Str) (node : Node) (acc : ArtMap)
    (hf : 2 * nodeSize node + 2 ≤ fuel) : visit cfg fuel path node acc ≠ .err "depth" := by
  exact (fuel_aux cfg fuel).1 path node acc (by omega)

/-- the same for a list of root paths: exactly the regular files of all roots -/
theorem recordArtifacts_ok_mem (cfg : Cfg) (roots : List (Str × Option Node)) (acc m : ArtMap)
    (hsf : ∀ r ∈ roots, ∀ n, r.2 = some n → symlinkFree n = true)
    (h : recordArtifacts cfg roots acc = .ok m) (e : Str × List (Str × Str)) :
    e ∈ m ↔ e ∈ acc ∨ ∃ p n q d hh, (p, some n) ∈ roots ∧ FileAt p n q d ∧ cfg.ignored q = false ∧
      hashObj d cfg.algs = some hh ∧ e = (stripPath cfg.lstrip q, hh) := by
  induction roots generalizing acc with
  | nil =>
    simp only [recordArtifacts, Outcome.ok.injEq] at h
    subst h
    constructor
    · exact Or.inl
    · rintro (he | ⟨p, n, q, d, hh, hm, _⟩)
      · exact he
      · simp at hm
  | cons r rest ih =>
    obtain ⟨p, on⟩ := r
    cases on with
    | none => simp [recordArtifacts] at h
    | some n =>
      simp only [recordArtifacts] at h
      split at h
      · rename_i acc1 hv
        have hsfn : symlinkFree n = true := hsf (p, some n) List.mem_cons_self n rfl
        have ih' := ih acc1 (fun r hr => hsf r (List.mem_cons_of_mem _ hr)) h
        rw [ih', visit_ok_mem cfg _ p n acc acc1 hsfn hv e]
        constructor
        · rintro ((he | ⟨q, d, hh, hf, h1, h2, h3⟩) | ⟨p', n', q, d, hh, hm, hr⟩)
          · exact Or.inl he
          · exact Or.inr ⟨p, n, q, d, hh, List.mem_cons_self, hf, h1, h2, h3⟩
          · exact Or.inr ⟨p', n', q, d, hh, List.mem_cons_of_mem _ hm, hr⟩
        · rintro (he | ⟨p', n', q, d, hh, hm, hr⟩)
          · exact Or.inl (Or.inl he)
          · rcases List.mem_cons.1 hm with hm | hm
            · cases hm
              exact Or.inl (Or.inr ⟨q, d, hh, hr⟩)
            · exact Or.inr ⟨p', n', q, d, hh, hm, hr⟩
      · rename_i hne
        exact absurd h (hne m)

end InToto.WalkProofs
