/-
String literals: `parseStrBody` reads `escChar`-escaped text back (helper lemmas for InToto/Proofs/Json.lean).
-/
import InToto.Model.Json

namespace InToto.JsonProofs
open InToto InToto.Json

theorem parseStrBody_quote (strict : Bool) (f : Nat) (rest acc : Str) :
    parseStrBody strict (f + 1) ('"' :: rest) acc = some (acc.reverse, rest) := by
  simp [parseStrBody]

theorem parseStrBody_escQuote (strict : Bool) (f : Nat) (rest acc : Str) :
    parseStrBody strict (f + 1) ('\\' :: '"' :: rest) acc = parseStrBody strict f rest ('"' :: acc) := by
  simp [parseStrBody]

theorem parseStrBody_escBackslash (strict : Bool) (f : Nat) (rest acc : Str) :
    parseStrBody strict (f + 1) ('\\' :: '\\' :: rest) acc = parseStrBody strict f rest ('\\' :: acc) := by
  simp [parseStrBody]

theorem parseStrBody_escU (strict : Bool) (f : Nat) (a b c d : Char) (n : Nat) (rest acc : Str)
    (hhex : hex4 a b c d = some n) (hn : n < 0xD800) :
    parseStrBody strict (f + 1) ('\\' :: 'u' :: a :: b :: c :: d :: rest) acc
      = parseStrBody strict f rest (Char.ofNat n :: acc) := by
  have h1 : ¬(0xD800 ≤ n ∧ n < 0xDC00) := by omega
  have h2 : ¬(0xDC00 ≤ n ∧ n < 0xE000) := by omega
  simp [parseStrBody, hhex, h1, h2]

theorem parseStrBody_raw (strict : Bool) (f : Nat) (c : Char) (rest acc : Str)
    (hq : c ≠ '"') (hb : c ≠ '\\') (hc : ¬(strict = true ∧ c.toNat < 0x20)) :
    parseStrBody strict (f + 1) (c :: rest) acc = parseStrBody strict f rest (c :: acc) := by
  conv => lhs; unfold parseStrBody
  split
  · simp_all
  · simp_all
  · simp_all
  · rename_i heq
    simp at heq
    obtain ⟨rfl, rfl⟩ := heq
    simp [hc]

theorem hex4_ctrl : ∀ n : Fin 32,
    hex4 '0' '0' (hexDigit (n.val / 16)) (hexDigit (n.val % 16)) = some n.val := by decide

/-- one escaped character is read back as that character -/
theorem parseStrBody_escChar (strict esc : Bool) (hse : strict = true → esc = true) (c : Char)
    (f : Nat) (tail acc : Str) (hf : (escChar esc c).length ≤ f) :
    ∃ f', f' + (escChar esc c).length ≥ f ∧ f' < f ∧
      parseStrBody strict f (escChar esc c ++ tail) acc = parseStrBody strict f' tail (c :: acc) := by
  unfold escChar at hf ⊢
  split
  · rename_i h; subst h
    obtain ⟨g, rfl⟩ : ∃ g, f = g + 1 := ⟨f - 1, by simp at hf; omega⟩
    exact ⟨g, by simp, by omega, parseStrBody_escBackslash ..⟩
  split
  · rename_i _ h; subst h
    obtain ⟨g, rfl⟩ : ∃ g, f = g + 1 := ⟨f - 1, by simp at hf; omega⟩
    exact ⟨g, by simp, by omega, parseStrBody_escQuote ..⟩
  split
  · rename_i _ _ h
    obtain ⟨g, rfl⟩ : ∃ g, f = g + 1 := ⟨f - 1, by simp [*] at hf; omega⟩
    refine ⟨g, by simp, by omega, ?_⟩
    have hx := hex4_ctrl ⟨c.toNat, h.2⟩
    have := parseStrBody_escU strict g '0' '0' (hexDigit (c.toNat / 16)) (hexDigit (c.toNat % 16))
      c.toNat tail acc hx (by have := h.2; omega)
    simpa [Char.ofNat_toNat] using this
  · rename_i hb hq hc
    obtain ⟨g, rfl⟩ : ∃ g, f = g + 1 := ⟨f - 1, by simp [*] at hf; omega⟩
    refine ⟨g, by simp, by omega, ?_⟩
    apply parseStrBody_raw strict g c tail acc hq hb
    rintro ⟨hs, hlt⟩
    exact hc ⟨hse hs, hlt⟩

/-- string lemma: the escaped text followed by the closing quote is read back -/
theorem parseStrBody_escaped (strict esc : Bool) (hse : strict = true → esc = true) (s rest : Str) :
    ∀ (fuel : Nat) (acc : Str), (s.flatMap (escChar esc)).length + 1 ≤ fuel →
      parseStrBody strict fuel (s.flatMap (escChar esc) ++ '"' :: rest) acc = some (acc.reverse ++ s, rest) := by
  induction s with
  | nil =>
    intro fuel acc hf
    obtain ⟨g, rfl⟩ : ∃ g, fuel = g + 1 := ⟨fuel - 1, by omega⟩
    simp [parseStrBody_quote]
  | cons c s ih =>
    intro fuel acc hf
    simp only [List.flatMap_cons, List.length_append, List.append_assoc] at hf ⊢
    obtain ⟨f', h1, _, h2⟩ := parseStrBody_escChar strict esc hse c fuel
      (s.flatMap (escChar esc) ++ '"' :: rest) acc (by omega)
    rw [h2, ih f' (c :: acc) (by omega)]
    simp

/-- string literal after the opening quote, with the fuel `parseVal` supplies -/
theorem parseStrBody_renderStr (strict esc : Bool) (hse : strict = true → esc = true) (s rest : Str) :
    parseStrBody strict ((s.flatMap (escChar esc) ++ '"' :: rest).length + 1)
      (s.flatMap (escChar esc) ++ '"' :: rest) [] = some (s, rest) := by
  have := parseStrBody_escaped strict esc hse s rest
    ((s.flatMap (escChar esc) ++ '"' :: rest).length + 1) [] (by simp)
  simpa using this

end InToto.JsonProofs
