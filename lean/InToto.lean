import InToto.Model.Glob
import InToto.Spec.Glob
import InToto.Properties.C17
